"""Translator items for C17 (all fail closed on any unexpected shape):

  item_fix_rule   visdatav4.py   the CBF timestamp-fix decision expression, its dates, markers and the attributes tested
  item_v4_time    visdatav4.py   the ORDER, operands and signs of every statement of VisibilityDataV4.__init__ that
                                 writes source.timestamps / self.time_offset / capture_start / half_dump / start / end
  item_ds_time    datasources.py timestamp synthesis expressions, and the order synthesise -> remember capture start ->
                                 preselect dumps -> hand over to DataSource
  item_preselect  datasources.py allowed preselect keys and steps, shape of the two rejections
  item_v4_freq    visdatav4.py   telstate attributes -> SpectralWindow arguments, channel preselection -> subrange
  item_spw        spectral_window.py  __init__ (bandwidth / channel_width), channel_freqs expression, subrange and
                                 rechannelise compiled statement by statement to Gallina

Numeric code is emitted over an abstract carrier `A` with operations (o_add o_sub o_mul o_div : A -> A -> A) and
(o_ofZ : Z -> A) because Generated.v only imports ZArith; Model/TimeFreq.v instantiates A := Q.  Integer-valued
sub-expressions (//, %, comparisons, np.arange) stay in Z (Python floor division and modulo agree with Z.div / Z.modulo
for every sign)."""
import ast
import calendar
import re
import time
from fractions import Fraction

from vh.translate import TranslateError, _parse, _class, _func, coq_string, coq_Z, parse_template

OPS = '{A : Type} (o_add o_sub o_mul o_div : A -> A -> A) (o_ofZ : Z -> A)'


def _u(node):
    return ast.unparse(node).replace(' ', '')


def _date_secs(s):
    try:
        return calendar.timegm(time.strptime(s, '%Y-%m-%d'))
    except ValueError:
        raise TranslateError('fix rule: date %r not in YYYY-MM-DD form' % s)


# --------------------------------------------------------------------------- typed expressions

def _promote(t):
    ty, code = t
    if ty == 'Q':
        return code
    if ty == 'Z':
        return '(o_ofZ %s)' % code
    raise TranslateError('boolean used as a number: %s' % code)


def tx(node, env, what):
    """-> (type, code); type in 'Z', 'Q', 'B'.  env: unparsed Name/Attribute -> (type, coq identifier);
    env['@arange'] = (argument text, coq identifier) makes np.arange(<argument>) the integer variable."""
    key = _u(node)
    if isinstance(node, (ast.Name, ast.Attribute, ast.Subscript)) and key in env:
        return env[key]
    if isinstance(node, ast.Constant) and not isinstance(node.value, bool):
        if isinstance(node.value, int):
            return ('Z', coq_Z(node.value))
        if isinstance(node.value, float):
            f = Fraction(node.value)
            if f.denominator == 1:
                return ('Q', '(o_ofZ %s)' % coq_Z(f.numerator))
            return ('Q', '(o_div (o_ofZ %s) (o_ofZ %s))' % (coq_Z(f.numerator), coq_Z(f.denominator)))
    if isinstance(node, ast.Call) and '@arange' in env and _u(node.func) == 'np.arange' and len(node.args) == 1 \
            and not node.keywords and _u(node.args[0]) == env['@arange'][0]:
        return ('Z', env['@arange'][1])
    if isinstance(node, ast.UnaryOp) and isinstance(node.op, ast.USub):
        t = tx(node.operand, env, what)
        if t[0] == 'Z':
            return ('Z', '(- %s)' % t[1])
        return ('Q', '(o_sub (o_ofZ (0)%%Z) %s)' % _promote(t))
    if isinstance(node, ast.UnaryOp) and isinstance(node.op, ast.Not):
        t = tx(node.operand, env, what)
        if t[0] != 'B':
            raise TranslateError('%s: `not` of a non-boolean %s' % (what, key))
        return ('B', '(negb %s)' % t[1])
    if isinstance(node, ast.BoolOp):
        ts = [tx(v, env, what) for v in node.values]
        if any(t[0] != 'B' for t in ts):
            raise TranslateError('%s: and/or of non-booleans %s' % (what, key))
        return ('B', '(' + (' || ' if isinstance(node.op, ast.Or) else ' && ').join(t[1] for t in ts) + ')')
    if isinstance(node, ast.Compare):
        sym = {ast.Lt: '%s <? %s', ast.LtE: '%s <=? %s', ast.Gt: '%s >? %s', ast.GtE: '%s >=? %s',
               ast.Eq: '%s =? %s', ast.NotEq: 'negb (%s =? %s)'}
        operands = [tx(x, env, what) for x in [node.left] + node.comparators]
        if any(t[0] != 'Z' for t in operands):
            raise TranslateError('%s: comparison of non-integers %s' % (what, key))
        parts = []
        for (a, op, b) in zip(operands, node.ops, operands[1:]):
            if type(op) not in sym:
                raise TranslateError('%s: unsupported comparison %s' % (what, key))
            parts.append('(' + sym[type(op)] % (a[1], b[1]) + ')')
        return ('B', parts[0] if len(parts) == 1 else '(' + ' && '.join(parts) + ')')
    if isinstance(node, ast.BinOp):
        a, b = tx(node.left, env, what), tx(node.right, env, what)
        if 'B' in (a[0], b[0]):
            raise TranslateError('%s: arithmetic on a boolean %s' % (what, key))
        zz = a[0] == 'Z' and b[0] == 'Z'
        if isinstance(node.op, (ast.Add, ast.Sub, ast.Mult)):
            if zz:
                return ('Z', '(%s %s %s)' % (a[1], {ast.Add: '+', ast.Sub: '-', ast.Mult: '*'}[type(node.op)], b[1]))
            return ('Q', '(%s %s %s)' % ({ast.Add: 'o_add', ast.Sub: 'o_sub', ast.Mult: 'o_mul'}[type(node.op)],
                                         _promote(a), _promote(b)))
        if isinstance(node.op, ast.Div):
            return ('Q', '(o_div %s %s)' % (_promote(a), _promote(b)))
        if isinstance(node.op, (ast.FloorDiv, ast.Mod)):
            if not zz:
                raise TranslateError('%s: // or %% on non-integers %s' % (what, key))
            return ('Z', '(%s %s %s)' % (a[1], '/' if isinstance(node.op, ast.FloorDiv) else 'mod', b[1]))
    raise TranslateError('%s: unsupported expression %s' % (what, key[:120]))


def _coerce(t, ty, what):
    if t[0] == ty:
        return t[1]
    if ty == 'Q':
        return _promote(t)
    raise TranslateError('%s: %s expected, got %s: %s' % (what, ty, t[0], t[1]))


# --------------------------------------------------------------------------- the fix rule

def _bexpr(node, dates):
    """Boolean expression over _before('<date>') calls and the names cmc2, cbf4k."""
    if isinstance(node, ast.BoolOp):
        op = ' || ' if isinstance(node.op, ast.Or) else ' && '
        return '(' + op.join(_bexpr(v, dates) for v in node.values) + ')'
    if isinstance(node, ast.UnaryOp) and isinstance(node.op, ast.Not):
        return 'negb ' + _bexpr(node.operand, dates)
    if isinstance(node, ast.Name) and node.id in ('cmc2', 'cbf4k'):
        return node.id
    if (isinstance(node, ast.Call) and isinstance(node.func, ast.Name) and node.func.id == '_before'
            and len(node.args) == 1 and isinstance(node.args[0], ast.Constant) and isinstance(node.args[0].value, str)):
        secs = _date_secs(node.args[0].value)
        dates.append((node.args[0].value, secs))
        return '(before %s)' % coq_Z(secs)
    raise TranslateError('fix rule: unsupported expression ' + ast.dump(node)[:100])


def _v4_init(repo):
    rel = 'katdal/visdatav4.py'
    return _func(_class(_parse(repo, rel), 'VisibilityDataV4', rel), '__init__', rel)


def _is_fix_if(n):
    return isinstance(n, ast.If) and '_before' in ast.unparse(n.test) and 'cmc2' in ast.unparse(n.test)


def fix_date_strings(repo):
    """The date strings of the rule, for the harness (which checks katpoint's reading of them)."""
    dates = []
    for n in _v4_init(repo).body:
        if _is_fix_if(n):
            _bexpr(n.test, dates)
    return dates


def item_fix_rule(repo, out):
    init = _v4_init(repo)
    # _before must be `capture_start < katpoint.Timestamp(date).secs`
    bef = [n for n in ast.walk(init) if isinstance(n, ast.FunctionDef) and n.name == '_before']
    if len(bef) != 1 or bef[0] not in init.body or len(bef[0].body) != 1 or not isinstance(bef[0].body[0], ast.Return) \
            or [a.arg for a in bef[0].args.args] != ['date'] or bef[0].args.defaults or bef[0].decorator_list:
        raise TranslateError('visdatav4: _before helper not of the expected shape')
    src = _u(bef[0].body[0].value)
    # the date is read as UTC by katdal itself (strptime + timegm): katpoint.Timestamp(<string>) goes through mktime and
    # time.timezone of the PROCESS (finding C17-F2); any other reading of the date is refused
    want = _u(parse_template("capture_start < calendar.timegm(time.strptime(date, '%Y-%m-%d'))", 'eval').body)
    if src != want:
        raise TranslateError('visdatav4: _before is %s' % src)
    fmt = bef[0].body[0].value.comparators[0].args[0].args[1].value
    mod = _parse(repo, 'katdal/visdatav4.py')
    for name in ('calendar', 'time'):
        imps = [n for n in mod.body if isinstance(n, ast.Import) and any(a.name == name and a.asname is None for a in n.names)]
        if len(imps) != 1:
            raise TranslateError('visdatav4: module %s is not imported plainly, once' % name)
        for n in ast.walk(mod):
            if (isinstance(n, ast.Name) and n.id == name and not isinstance(n.ctx, ast.Load)) \
                    or (isinstance(n, ast.arg) and n.arg == name) \
                    or (isinstance(n, (ast.FunctionDef, ast.ClassDef)) and n.name == name) \
                    or (isinstance(n, ast.alias) and (n.asname or n.name).split('.')[0] == name and n not in imps[0].names):
                raise TranslateError('visdatav4: the name %s is rebound' % name)
    markers = {}
    rule = None
    for n in ast.walk(init):
        if isinstance(n, (ast.Assign, ast.AugAssign, ast.AnnAssign, ast.NamedExpr)):
            tg = n.targets if isinstance(n, ast.Assign) else [n.target]
            for t in tg:
                for nm in ast.walk(t):
                    if isinstance(nm, ast.Name) and nm.id in ('cmc2', 'cbf4k', '_before') and n not in init.body:
                        raise TranslateError('visdatav4: %s assigned in a nested statement' % nm.id)
    for n in init.body:
        if isinstance(n, ast.Assign) and any(isinstance(t, ast.Name) and t.id in ('cmc2', 'cbf4k') for t in n.targets):
            if len(n.targets) != 1 or n.targets[0].id in markers:
                raise TranslateError('visdatav4: cmc2/cbf4k assigned more than once')
            v = n.value
            if not (isinstance(v, ast.Compare) and len(v.ops) == 1 and isinstance(v.ops[0], ast.In)
                    and isinstance(v.left, ast.Constant) and isinstance(v.left.value, str)):
                raise TranslateError('visdatav4: %s is not a substring test' % n.targets[0].id)
            c = v.comparators[0]
            if not (isinstance(c, ast.Subscript) and _u(c.value) == 'attrs' and isinstance(c.slice, ast.Constant)
                    and isinstance(c.slice.value, str)):
                raise TranslateError('visdatav4: %s does not test a telstate attribute' % n.targets[0].id)
            if rule is not None:
                raise TranslateError('visdatav4: %s assigned after the fix rule' % n.targets[0].id)
            markers[n.targets[0].id] = (v.left.value, c.slice.value)
        if _is_fix_if(n):
            if rule is not None:
                raise TranslateError('visdatav4: more than one fix rule')
            dates = []
            rule = _bexpr(n.test, dates)
    if rule is None or set(markers) != {'cmc2', 'cbf4k'}:
        raise TranslateError('visdatav4: fix rule / markers not found')
    out.append('Definition fix_rule (before : Z -> bool) (cmc2 cbf4k : bool) : bool :=\n  %s.' % rule)
    out.append('Definition fix_dates : list Z := [%s].' % '; '.join(coq_Z(s) for _, s in dates))
    for txt, _ in dates:
        if not re.fullmatch(r'[0-9]{4}-[0-9]{2}-[0-9]{2}', txt):
            raise TranslateError('fix rule: date %r is not written as YYYY-MM-DD with all digits' % txt)
    out.append('Definition fix_date_texts : list string := [%s].' % '; '.join(coq_string(t) for t, _ in dates))
    out.append('Definition fix_date_format : string := %s.' % coq_string(fmt))
    out.append('Definition fix_cmc2_marker : string := %s.' % coq_string(markers['cmc2'][0]))
    out.append('Definition fix_cbf4k_marker : string := %s.' % coq_string(markers['cbf4k'][0]))
    out.append('Definition fix_cmc2_attr : string := %s.' % coq_string(markers['cmc2'][1]))
    out.append('Definition fix_cbf4k_attr : string := %s.' % coq_string(markers['cbf4k'][1]))


# --------------------------------------------------------------------------- VisibilityDataV4.__init__: time statements

TIME_TARGETS = {'source.timestamps', 'self.time_offset', 'capture_start', 'half_dump', 'self.start_time',
                'self.end_time', 'self.dump_period', 'self.cbf_dump_period', 'source.capture_start', 'source'}


def _stores(fn):
    """Every statement of fn (at any depth, nested function bodies included) that stores into something."""
    res = []
    for n in ast.walk(fn):
        tg = []
        if isinstance(n, ast.Assign):
            tg = n.targets
        elif isinstance(n, (ast.AugAssign, ast.AnnAssign, ast.NamedExpr)):
            tg = [n.target]
        elif isinstance(n, (ast.For, ast.AsyncFor)):
            tg = [n.target]
        elif isinstance(n, (ast.With, ast.AsyncWith)):
            tg = [i.optional_vars for i in n.items if i.optional_vars is not None]
        elif isinstance(n, ast.Delete):
            tg = n.targets
        elif isinstance(n, ast.ExceptHandler) and n.name:
            res.append((n, [n.name]))
        elif isinstance(n, ast.comprehension):
            tg = [n.target]
        names = []
        for t in tg:
            for e in ast.walk(t):
                if isinstance(e, (ast.Name, ast.Attribute)):
                    names.append(_u(e))
                if isinstance(e, ast.Subscript):
                    names.append(_u(e.value))
        if names:
            res.append((n, names))
    return res


def _sign(op, what):
    if isinstance(op, ast.Add):
        return 1
    if isinstance(op, ast.Sub):
        return -1
    raise TranslateError('%s: operator is neither + nor -' % what)


def item_v4_time(repo, out):
    init = _v4_init(repo)
    top = {id(n): k for k, n in enumerate(init.body)}
    prog = []      # (position in the body, opcode, argument)
    half = None
    fix_if = [n for n in init.body if _is_fix_if(n)]
    if len(fix_if) != 1:
        raise TranslateError('visdatav4: fix rule not found at the top level of __init__')
    fix_if = fix_if[0]
    inner = fix_if.body
    if not (len(inner) == 1 and isinstance(inner[0], ast.If) and _u(inner[0].test) == 'self.cbf_dump_period is not None'.replace(' ', '')
            and not fix_if.orelse):
        raise TranslateError('visdatav4: body of the fix rule is not `if self.cbf_dump_period is not None: ... else: ...`')
    fix_stmts = {id(n): n for n in inner[0].body}
    seen_dump_period = seen_cbf = 0
    for n, names in _stores(init):
        hit = [x for x in names if x in TIME_TARGETS]
        if not hit:
            continue
        s = _u(n)
        pos = top.get(id(n))
        if s == "self.dump_period=attrs['int_time']" and pos is not None:
            seen_dump_period += 1
            dump_pos = pos
            continue
        if isinstance(n, ast.Assign) and 'self.cbf_dump_period' in names and id(n) not in top:
            # the two stores in the try/except/else that reads the CBF attributes
            if s.replace('(', '').replace(')', '') in (
                    'self.cbf_dump_period,cbf_n_accs,f_engine_stream,scale_factor_timestamp=_cbf_attrsattrs',
                     'self.cbf_dump_period=self.accumulations_per_dump=None'):
                seen_cbf += 1
                continue
        if s == 'num_dumps=len(source.timestamps)':
            continue
        if isinstance(n, ast.AugAssign) and _u(n.target) == 'source.timestamps' and pos is not None \
                and _u(n.value) == 'self.time_offset':
            prog.append((pos, 1, _sign(n.op, s)))
            continue
        if s == "capture_start=getattr(source,'capture_start',None)" and pos is not None:
            prog.append((pos, 7, 0))
            continue
        if isinstance(n, ast.Assign) and _u(n.targets[0]) == 'capture_start' and len(n.targets) == 1 and pos is not None \
                and isinstance(n.value, ast.IfExp) and _u(n.value.test) == 'capture_startisNone' \
                and _u(n.value.body) == 'source.timestamps[0]':
            e = n.value.orelse
            if _u(e) == 'capture_start':
                sg = 0
            elif isinstance(e, ast.BinOp) and _u(e.left) == 'capture_start' and _u(e.right) == 'self.time_offset':
                sg = _sign(e.op, s)
            else:
                raise TranslateError('visdatav4: capture_start is %s' % s)
            prog.append((pos, 2, sg))
            continue
        if isinstance(n, ast.AugAssign) and id(n) in fix_stmts and _u(n.value) == 'self.cbf_dump_period' \
                and _u(n.target) in ('source.timestamps', 'self.time_offset'):
            k = list(fix_stmts).index(id(n))
            prog.append((top[id(fix_if)] + 0.001 * (k + 1), 3 if _u(n.target) == 'source.timestamps' else 6, _sign(n.op, s)))
            continue
        if isinstance(n, ast.Assign) and _u(n.targets[0]) == 'half_dump' and len(n.targets) == 1 and pos is not None:
            t = tx(n.value, {'self.dump_period': ('Q', 'dump_period')}, 'half_dump')
            if half is not None:
                raise TranslateError('visdatav4: half_dump assigned twice')
            half = (pos, _coerce(t, 'Q', 'half_dump'))
            continue
        if isinstance(n, ast.Assign) and len(n.targets) == 1 and pos is not None \
                and _u(n.targets[0]) in ('self.start_time', 'self.end_time'):
            v = n.value
            which = _u(n.targets[0])
            idx = '0' if which == 'self.start_time' else '-1'
            if not (isinstance(v, ast.Call) and _u(v.func) == 'katpoint.Timestamp' and len(v.args) == 1 and not v.keywords
                    and isinstance(v.args[0], ast.BinOp) and _u(v.args[0].left) == 'source.timestamps[%s]' % idx
                    and _u(v.args[0].right) == 'half_dump'):
                raise TranslateError('visdatav4: %s' % s)
            prog.append((pos, 4 if which == 'self.start_time' else 5, _sign(v.args[0].op, s)))
            continue
        raise TranslateError('visdatav4: unexpected statement writing %s: %s' % (','.join(hit), s[:100]))
    if seen_dump_period != 1 or seen_cbf != 2 or half is None:
        raise TranslateError('visdatav4: dump_period / cbf_dump_period / half_dump not assigned as expected')
    prog.sort()
    codes = [p[1] for p in prog]
    if sorted(codes) != [1, 2, 3, 4, 5, 6, 7]:
        raise TranslateError('visdatav4: time statements found: %s' % codes)
    if not (dump_pos < prog[0][0] and half[0] < min(p[0] for p in prog if p[1] in (4, 5))):
        raise TranslateError('visdatav4: dump_period / half_dump assigned too late')
    # the sensor cache must be built on the final timestamps... it shares the array, which is only ever shifted in
    # place (checked above: no rebinding of source.timestamps), so its position does not matter.
    out.append('(* opcodes: 1 timestamps += s*time_offset | 7 capture_start := source.capture_start | '
               '2 capture_start := timestamps[0] if None else capture_start + s*time_offset | '
               '3 (rule, CBF known) timestamps += s*cbf | 6 (rule, CBF known) time_offset += s*cbf | '
               '4 start := timestamps[0] + s*half_dump | 5 end := timestamps[-1] + s*half_dump *)')
    out.append('Definition gen_v4_time_prog : list (Z * Z) := [%s].'
               % '; '.join('(%s, %s)' % (coq_Z(c), coq_Z(a)) for _, c, a in prog))
    out.append('Definition gen_v4_half_dump %s (dump_period : A) : A := %s.' % (OPS, half[1]))


# --------------------------------------------------------------------------- TelstateDataSource.__init__: timestamps

DS_TARGETS = {'timestamps', 't0', 'int_time', 'n_dumps', 'capture_start', 'self.capture_start', 'self.timestamps',
              'preselect'}


def _ds_init(repo):
    rel = 'katdal/datasources.py'
    return _func(_class(_parse(repo, rel), 'TelstateDataSource', rel), '__init__', rel)


def item_ds_time(repo, out):
    init = _ds_init(repo)
    top = {id(n): k for k, n in enumerate(init.body)}
    synth = [n for n in init.body if isinstance(n, ast.If) and _u(n.test) == 'timestampsisNone' and not n.orelse]
    if len(synth) != 1:
        raise TranslateError('datasources: `if timestamps is None:` synthesis block not found')
    synth = synth[0]
    inside = {id(n): n for n in synth.body}
    pre = [n for n in init.body if isinstance(n, ast.If) and _u(n.test) == "'dumps'inpreselect" and not n.orelse]
    if len(pre) != 1 or len(pre[0].body) != 1:
        raise TranslateError("datasources: `if 'dumps' in preselect:` block not found")
    pre = pre[0]
    defaults = [n for n in init.body if isinstance(n, ast.If) and _u(n.test) == 'preselectisNone']
    exprs = {}
    prog = []
    for n, names in _stores(init):
        hit = [x for x in names if x in DS_TARGETS]
        if not hit:
            continue
        s = _u(n)
        if defaults and n in defaults[0].body and s == 'preselect={}':
            continue
        if id(n) in inside and isinstance(n, ast.Assign) and len(n.targets) == 1 \
                and _u(n.targets[0]) in ('t0', 'int_time', 'n_dumps', 'timestamps'):
            exprs[_u(n.targets[0])] = (list(inside).index(id(n)), n.value)
            continue
        if s == 'capture_start=timestamps[0]iflen(timestamps)elseNone' and id(n) in top:
            prog.append((top[id(n)], 2))
            continue
        if n is pre.body[0] and s == "timestamps=timestamps[preselect['dumps']]":
            prog.append((top[id(pre)], 3))
            continue
        if s == 'self.capture_start=capture_start' and id(n) in top:
            prog.append((top[id(n)], 5))
            continue
        raise TranslateError('datasources: unexpected statement writing %s: %s' % (','.join(hit), s[:100]))
    if set(exprs) != {'t0', 'int_time', 'n_dumps', 'timestamps'} or \
            not (exprs['t0'][0] < exprs['timestamps'][0] and exprs['int_time'][0] < exprs['timestamps'][0]):
        raise TranslateError('datasources: synthesis block does not assign t0, int_time, n_dumps, timestamps in order')
    prog.append((top[id(synth)], 1))
    hand = [k for k, n in enumerate(init.body) if _u(n) == 'DataSource.__init__(self,metadata,timestamps,data)']
    if len(hand) != 1:
        raise TranslateError('datasources: DataSource.__init__(self, metadata, timestamps, data) not found')
    prog.append((hand[0], 4))
    prog.sort()
    if sorted(p[1] for p in prog) != [1, 2, 3, 4, 5]:
        raise TranslateError('datasources: timestamp statements found: %s' % [p[1] for p in prog])
    if _u(exprs['int_time'][1]) != "telstate['int_time']" or \
            _u(exprs['n_dumps'][1]) != "chunk_info['correlator_data']['shape'][0]":
        raise TranslateError('datasources: int_time / n_dumps not read as expected')
    env = {"telstate['sync_time']": ('Q', 'sync_time'), "telstate['first_timestamp']": ('Q', 'first_timestamp')}
    t0 = _coerce(tx(exprs['t0'][1], env, 't0'), 'Q', 't0')
    env = {'t0': ('Q', 't0'), 'int_time': ('Q', 'int_time'), '@arange': ('n_dumps', 'k')}
    ts = _coerce(tx(exprs['timestamps'][1], env, 'timestamps'), 'Q', 'timestamps')
    # the base class must keep the array it is given (VisibilityDataV4 then shifts it in place)
    rel = 'katdal/datasources.py'
    base = _func(_class(_parse(repo, rel), 'DataSource', rel), '__init__', rel)
    if 'self.timestamps=timestamps' not in [_u(n) for n in base.body] or \
            [a.arg for a in base.args.args][:4] != ['self', 'metadata', 'timestamps', 'data']:
        raise TranslateError('datasources: DataSource.__init__ does not store the timestamps it is given')
    out.append('(* opcodes: 1 synthesise timestamps | 2 capture_start := timestamps[0] | 3 timestamps := '
               "timestamps[preselect['dumps']] | 4 DataSource.__init__(.., timestamps, ..) | 5 self.capture_start := capture_start *)")
    out.append('Definition gen_ds_prog : list Z := [%s].' % '; '.join(coq_Z(c) for _, c in prog))
    out.append('Definition gen_ds_t0 %s (sync_time first_timestamp : A) : A := %s.' % (OPS, t0))
    out.append('Definition gen_ds_timestamp %s (t0 int_time : A) (k : Z) : A := %s.' % (OPS, ts))


# --------------------------------------------------------------------------- preselect validation

def item_preselect(repo, out):
    init = _ds_init(repo)
    keys = None
    steps = None
    for k, n in enumerate(init.body):
        if isinstance(n, ast.Assign) and _u(n.targets[0]) == 'unexpected':
            v = n.value
            if isinstance(v, ast.BinOp) and isinstance(v.op, ast.Sub) and isinstance(v.right, ast.Set) \
                    and _u(v.left) == 'set(preselect.keys())':
                keys = sorted(ast.literal_eval(v.right))
            nxt = init.body[k + 1]
            if not (isinstance(nxt, ast.If) and _u(nxt.test) == 'unexpected' and len(nxt.body) == 1
                    and isinstance(nxt.body[0], ast.Raise) and _u(nxt.body[0].exc).startswith('IndexError(')):
                raise TranslateError('datasources: unexpected preselect keys are not rejected with IndexError')
        if isinstance(n, ast.For) and _u(n.iter) == 'preselect.items()' and _u(n.target) == '(key,idx)':
            if not (len(n.body) == 1 and isinstance(n.body[0], ast.If) and len(n.body[0].body) == 1
                    and isinstance(n.body[0].body[0], ast.Raise) and _u(n.body[0].body[0].exc).startswith('IndexError(')):
                raise TranslateError('datasources: preselect values are not rejected with IndexError')
            t = n.body[0].test
            if not (isinstance(t, ast.BoolOp) and isinstance(t.op, ast.Or) and len(t.values) == 2
                    and _u(t.values[0]) == 'notisinstance(idx,slice)' and isinstance(t.values[1], ast.Compare)
                    and _u(t.values[1].left) == 'idx.step' and len(t.values[1].ops) == 1
                    and isinstance(t.values[1].ops[0], ast.NotIn) and isinstance(t.values[1].comparators[0], ast.Set)):
                raise TranslateError('datasources: preselect step test is %s' % _u(t))
            steps = []
            for e in t.values[1].comparators[0].elts:
                if isinstance(e, ast.Constant) and e.value is None:
                    steps.append('None')
                elif isinstance(e, ast.Constant) and isinstance(e.value, int) and not isinstance(e.value, bool):
                    steps.append('Some %s' % coq_Z(e.value))
                else:
                    raise TranslateError('datasources: preselect step set is %s' % _u(t.values[1].comparators[0]))
    if keys is None or steps is None or not all(isinstance(k, str) for k in keys):
        raise TranslateError('datasources: preselect validation not found')
    # the validation must be the very first thing __init__ does (before the telstate, the chunk store or the
    # preselection are touched), whatever the other arguments are: order of its statements as an interpreted program
    body = [n for n in init.body if not (isinstance(n, ast.Expr) and isinstance(n.value, ast.Constant))]
    prog = []
    for n in body:
        if isinstance(n, ast.If) and _u(n.test) == 'preselectisNone' and [_u(x) for x in n.body] == ['preselect={}'] \
                and not n.orelse:
            prog.append(0)
        elif isinstance(n, ast.Assign) and _u(n.targets[0]) == 'unexpected':
            prog.append(1)
        elif isinstance(n, ast.If) and _u(n.test) == 'unexpected':
            if not prog or prog[-1] != 1:
                raise TranslateError('datasources: `if unexpected:` does not follow the assignment of `unexpected`')
        elif isinstance(n, ast.For) and _u(n.iter) == 'preselect.items()':
            prog.append(2)
        else:
            break
    if sorted(prog) != [0, 1, 2] or prog[0] != 0:
        raise TranslateError('datasources: preselect validation is not the first thing __init__ does (found %s)' % prog)
    sig = init.args
    names = [a.arg for a in sig.args]
    dflt = dict(zip(names[len(names) - len(sig.defaults):], [_u(d) for d in sig.defaults]))
    if dflt.get('preselect') != 'None' or dflt.get('chunk_store') != 'None' or dflt.get('timestamps') != 'None' \
            or sig.kwarg is None:
        raise TranslateError('datasources: TelstateDataSource.__init__ defaults are %s' % dflt)
    out.append('Definition preselect_keys : list string := [%s].' % '; '.join(coq_string(k) for k in keys))
    out.append('Definition preselect_steps : list (option Z) := [%s].' % '; '.join(steps))
    out.append('(* opcodes: 0 preselect := {} if None | 1 unknown keys -> IndexError | 2 per item: not a slice / step not '
               'allowed -> IndexError; these are the first statements of TelstateDataSource.__init__ *)')
    out.append('Definition gen_ds_validate_prog : list Z := [%s].' % '; '.join(coq_Z(c) for c in prog))


# --------------------------------------------------------------------------- SpectralWindow

SPW_SELF = {'self.centre_freq': ('Q', 'self_centre_freq'), 'self.channel_width': ('Q', 'self_channel_width'),
            'self.bandwidth': ('Q', 'self_bandwidth'), 'self.num_chans': ('Z', 'self_num_chans'),
            'self.sideband': ('Z', 'self_sideband')}
SPW_SELF_BINDERS = '(self_centre_freq self_channel_width self_bandwidth : A) (self_num_chans self_sideband : Z)'
SPW_PARAMS = ['self', 'centre_freq', 'channel_width', 'num_chans', 'product', 'sideband', 'band', 'bandwidth']
SELF_TUPLE = '(self_centre_freq, self_channel_width, self_num_chans, self_sideband, Some self_bandwidth)'


def _spw_tuple(call, env, what):
    """SpectralWindow(...) call -> (centre_freq, channel_width, num_chans, sideband, option bandwidth)."""
    if not (isinstance(call, ast.Call) and _u(call.func) == 'SpectralWindow'):
        raise TranslateError('%s: does not return a SpectralWindow(...)' % what)
    if len(call.args) > 7 or any(k.arg is None for k in call.keywords) or any(isinstance(a, ast.Starred) for a in call.args):
        raise TranslateError('%s: SpectralWindow call with too many / starred arguments' % what)
    b = dict(zip(SPW_PARAMS[1:], call.args))
    for k in call.keywords:
        if k.arg in b or k.arg not in SPW_PARAMS[1:]:
            raise TranslateError('%s: SpectralWindow keyword %s' % (what, k.arg))
        b[k.arg] = k.value
    for need in ('centre_freq', 'channel_width', 'num_chans', 'product', 'sideband', 'band'):
        if need not in b:
            raise TranslateError('%s: SpectralWindow call lacks %s' % (what, need))
    if _u(b['product']) != 'self.product' or _u(b['band']) != 'self.band':
        raise TranslateError('%s: product / band are not passed on' % what)
    bw = 'None' if 'bandwidth' not in b else 'Some %s' % _coerce(tx(b['bandwidth'], env, what), 'Q', what)
    return '(%s, %s, %s, %s, %s)' % (_coerce(tx(b['centre_freq'], env, what), 'Q', what),
                                     _coerce(tx(b['channel_width'], env, what), 'Q', what),
                                     _coerce(tx(b['num_chans'], env, what), 'Z', what),
                                     _coerce(tx(b['sideband'], env, what), 'Z', what), bw)


def _compile(stmts, env, what, optional):
    """Straight-line statements -> nested Gallina lets ending in the result tuple."""
    if not stmts:
        raise TranslateError('%s: falls off the end' % what)
    n, rest = stmts[0], stmts[1:]
    if isinstance(n, ast.Expr) and isinstance(n.value, ast.Constant) and isinstance(n.value.value, str):
        return _compile(rest, env, what, optional)
    if isinstance(n, ast.Return):
        if rest:
            raise TranslateError('%s: statements after return' % what)
        r = SELF_TUPLE if _u(n.value) == 'self' else _spw_tuple(n.value, env, what)
        return ('Some %s' % r) if optional else r
    if isinstance(n, ast.If) and not n.orelse and len(n.body) == 1:
        c = tx(n.test, env, what)
        if c[0] != 'B':
            raise TranslateError('%s: condition %s is not boolean' % (what, _u(n.test)))
        b = n.body[0]
        if isinstance(b, ast.Raise):
            if not optional or not _u(b.exc).startswith('IndexError('):
                raise TranslateError('%s: unexpected raise' % what)
            return 'if %s then None else\n  %s' % (c[1], _compile(rest, env, what, optional))
        if isinstance(b, ast.Return):
            return 'if %s then %s else\n  %s' % (c[1], _compile([b], env, what, optional), _compile(rest, env, what, optional))
        if isinstance(b, (ast.Assign, ast.AugAssign)):
            name, ty, code = _assign(b, env, what)
            if name not in env:
                raise TranslateError('%s: %s first assigned under a condition' % (what, name))
            old = env[name]
            ty2 = 'Q' if 'Q' in (ty, old[0]) else ty
            env2 = dict(env)
            env2[name] = (ty2, 'v_' + name)
            return 'let v_%s := if %s then %s else %s in\n  %s' % (
                name, c[1], _coerce((ty, code), ty2, what), _coerce(old, ty2, what), _compile(rest, env2, what, optional))
    if isinstance(n, (ast.Assign, ast.AugAssign)):
        name, ty, code = _assign(n, env, what)
        env2 = dict(env)
        env2[name] = (ty, 'v_' + name)
        return 'let v_%s := %s in\n  %s' % (name, code, _compile(rest, env2, what, optional))
    raise TranslateError('%s: unsupported statement %s' % (what, _u(n)[:100]))


def _assign(n, env, what):
    if isinstance(n, ast.Assign):
        if len(n.targets) != 1 or not isinstance(n.targets[0], ast.Name):
            raise TranslateError('%s: unsupported assignment %s' % (what, _u(n)[:100]))
        ty, code = tx(n.value, env, what)
        return n.targets[0].id, ty, code
    if not isinstance(n.target, ast.Name) or n.target.id not in env:
        raise TranslateError('%s: unsupported augmented assignment %s' % (what, _u(n)[:100]))
    fake = ast.BinOp(left=ast.Name(id=n.target.id, ctx=ast.Load()), op=n.op, right=n.value)
    ty, code = tx(fake, env, what)
    return n.target.id, ty, code


def _plain_args(fn, expected, what):
    a = fn.args
    if [x.arg for x in a.args] != expected or a.vararg or a.kwarg or a.kwonlyargs or a.posonlyargs:
        raise TranslateError('%s: parameters are %s' % (what, [x.arg for x in a.args]))


def item_spw(repo, out):
    rel = 'katdal/spectral_window.py'
    cls = _class(_parse(repo, rel), 'SpectralWindow', rel)
    for name in ('__init__', 'channel_freqs', 'subrange', 'rechannelise'):
        if len([n for n in cls.body if isinstance(n, ast.FunctionDef) and n.name == name]) != 1:
            raise TranslateError('spectral_window: %s defined %s times' % (name, 'several' if name else 0))
    if [_u(b) for b in cls.bases] or cls.keywords or cls.decorator_list:
        raise TranslateError('spectral_window: SpectralWindow has base classes / decorators')
    watched = {'self.centre_freq', 'self.channel_width', 'self.bandwidth', 'self.num_chans', 'self.sideband',
               'self._channel_freqs'}
    # ---- __init__
    init = _func(cls, '__init__', rel)
    _plain_args(init, SPW_PARAMS, 'SpectralWindow.__init__')
    dflt = [_u(d) for d in init.args.defaults]
    try:
        dvals = [ast.literal_eval(d) for d in init.args.defaults]
    except ValueError:
        raise TranslateError('spectral_window: __init__ defaults are %s' % dflt)
    if len(dvals) != 4 or dvals[0] is not None or dvals[3] is not None or type(dvals[1]) is not int \
            or type(dvals[2]) is not str:
        raise TranslateError('spectral_window: __init__ defaults are %s' % dflt)
    first = init.body[1] if isinstance(init.body[0], ast.Expr) else init.body[0]
    if not (isinstance(first, ast.If) and _u(first.test) == 'bandwidthisNone' and len(first.body) == 1
            and len(first.orelse) == 1 and isinstance(first.body[0], ast.Assign) and isinstance(first.orelse[0], ast.Assign)
            and _u(first.body[0].targets[0]) == 'bandwidth' and _u(first.orelse[0].targets[0]) == 'channel_width'):
        raise TranslateError('spectral_window: __init__ does not start with the bandwidth / channel_width alternative')
    env = {'channel_width': ('Q', 'channel_width'), 'bandwidth': ('Q', 'bandwidth'), 'num_chans': ('Z', 'num_chans')}
    init_bw = _coerce(tx(first.body[0].value, env, 'init bandwidth'), 'Q', 'init bandwidth')
    init_cw = _coerce(tx(first.orelse[0].value, env, 'init channel_width'), 'Q', 'init channel_width')
    params = {'centre_freq', 'channel_width', 'bandwidth', 'num_chans', 'sideband'}
    stored = {}
    for n, names in _stores(init):
        if n in (first.body[0], first.orelse[0]):
            continue
        for x in names:
            if x in params:
                raise TranslateError('spectral_window: __init__ rebinds %s' % x)
            if x in watched:
                if n not in init.body or x in stored:
                    raise TranslateError('spectral_window: __init__ stores %s conditionally / twice' % x)
                stored[x] = _u(n)
    want = {'self.' + p: 'self.%s=%s' % (p, p) for p in params}
    want['self._channel_freqs'] = 'self._channel_freqs=None'
    if stored != want:
        raise TranslateError('spectral_window: __init__ stores %s' % sorted(stored.values()))
    # product / band: stored once, unconditionally; a missing product becomes the empty string
    names_stored = {}
    for n, names in _stores(cls):
        for x in names:
            if x in ('self.product', 'self.band'):
                if n not in init.body or x in names_stored:
                    raise TranslateError('spectral_window: %s stored outside __init__ / conditionally / twice' % x)
                names_stored[x] = n
    if set(names_stored) != {'self.product', 'self.band'} or _u(names_stored['self.band']) != 'self.band=band':
        raise TranslateError('spectral_window: product / band are not stored as expected')
    pv = names_stored['self.product'].value
    if not (isinstance(pv, ast.IfExp) and _u(pv.test) == 'productisnotNone' and _u(pv.body) == 'product'
            and isinstance(pv.orelse, ast.Constant) and isinstance(pv.orelse.value, str)):
        raise TranslateError('spectral_window: self.product is %s' % _u(pv))
    product_none = pv.orelse.value
    # ---- no other method may write the attributes
    for fn in cls.body:
        if isinstance(fn, ast.FunctionDef) and fn.name not in ('__init__', 'channel_freqs'):
            for n, names in _stores(fn):
                if any(x in watched for x in names):
                    raise TranslateError('spectral_window: %s writes %s' % (fn.name, _u(n)[:80]))
    # ---- channel_freqs
    cf = _func(cls, 'channel_freqs', rel)
    _plain_args(cf, ['self'], 'channel_freqs')
    if [_u(d) for d in cf.decorator_list] != ['property']:
        raise TranslateError('spectral_window: channel_freqs is not a plain property')
    body = [n for n in cf.body if not (isinstance(n, ast.Expr) and isinstance(n.value, ast.Constant))]
    if not (len(body) == 1 and isinstance(body[0], ast.With) and len(body[0].body) == 2
            and isinstance(body[0].body[0], ast.If) and _u(body[0].body[0].test) == 'self._channel_freqsisNone'
            and len(body[0].body[0].body) == 1 and not body[0].body[0].orelse
            and isinstance(body[0].body[0].body[0], ast.Assign)
            and _u(body[0].body[0].body[0].targets[0]) == 'self._channel_freqs'
            and _u(body[0].body[1]) == 'returnself._channel_freqs'):
        raise TranslateError('spectral_window: channel_freqs is not compute-once-and-return')
    env = dict(SPW_SELF)
    env['@arange'] = ('self.num_chans', 'k')
    freq = _coerce(tx(body[0].body[0].body[0].value, env, 'channel_freqs'), 'Q', 'channel_freqs')
    # ---- subrange, rechannelise
    sub = _func(cls, 'subrange', rel)
    _plain_args(sub, ['self', 'first', 'last'], 'subrange')
    env = dict(SPW_SELF)
    env.update(first=('Z', 'first'), last=('Z', 'last'))
    sub_code = _compile(sub.body, env, 'subrange', True)
    rec = _func(cls, 'rechannelise', rel)
    _plain_args(rec, ['self', 'num_chans'], 'rechannelise')
    env = dict(SPW_SELF)
    env.update(num_chans=('Z', 'num_chans'))
    rec_code = _compile(rec.body, env, 'rechannelise', False)
    if sub.decorator_list or rec.decorator_list or init.decorator_list:
        raise TranslateError('spectral_window: decorated methods')
    res = '(A * A * Z * Z * option A)'
    out.append('(* SpectralWindow(...) results are (centre_freq, channel_width, num_chans, sideband, bandwidth keyword) *)')
    out.append('Definition gen_spw_init_bandwidth %s (channel_width : A) (num_chans : Z) : A := %s.' % (OPS, init_bw))
    out.append('Definition gen_spw_init_width %s (bandwidth : A) (num_chans : Z) : A := %s.' % (OPS, init_cw))
    out.append('Definition gen_spw_channel_freq %s %s (k : Z) : A :=\n  %s.' % (OPS, SPW_SELF_BINDERS, freq))
    out.append('Definition gen_spw_subrange %s %s (first last : Z) : option %s :=\n  %s.'
               % (OPS, SPW_SELF_BINDERS, res, sub_code))
    out.append('Definition gen_spw_rechannelise %s %s (num_chans : Z) : %s :=\n  %s.'
               % (OPS, SPW_SELF_BINDERS, res, rec_code))
    out.append('Definition gen_spw_default_sideband : Z := %s.' % coq_Z(dvals[1]))
    out.append('Definition gen_spw_default_band : string := %s.' % coq_string(dvals[2]))
    out.append('Definition gen_spw_product_of_none : string := %s.' % coq_string(product_none))


# --------------------------------------------------------------------------- VisibilityDataV4.__init__: frequency axis

FREQ_TARGETS = {'num_chans', 'bandwidth', 'centre_freq', 'channel_width', 'sideband', 'spw', 'start', 'stop', 'stride',
                'self.spectral_windows', 'spws'}


def item_v4_freq(repo, out):
    init = _v4_init(repo)
    seq = []
    for n, names in _stores(init):
        if any(x in FREQ_TARGETS for x in names):
            seq.append(n)
    seq.sort(key=lambda n: (n.lineno, n.col_offset))
    texts = [_u(n) for n in seq]
    ctor = 'spw=SpectralWindow(centre_freq,channel_width,num_chans,product,sideband,band_map[band])'
    if len(seq) != 12 or not all(isinstance(n, ast.Assign) and len(n.targets) == (2 if k == 11 else 1)
                                 for k, n in enumerate(seq)):
        raise TranslateError('visdatav4: frequency-axis statements are %s' % texts)
    texts = [t.replace('(start,stop,stride)=', 'start,stop,stride=') for t in texts]
    fixed = {5: ctor, 6: "start,stop,stride=preselect['channels'].indices(num_chans)", 7: 'spw=spw.subrange(start,stop)',
             8: 'num_chans=source.data.shape[1]', 9: 'centre_freq=0.0', 10: ctor, 11: 'self.spectral_windows=spws=[spw]'}
    for k, want in fixed.items():
        if texts[k] != want:
            raise TranslateError('visdatav4: frequency-axis statement %d is %s' % (k, texts[k]))
    keys = {}
    for k, name in enumerate(('num_chans', 'bandwidth', 'centre_freq')):
        n = seq[k]
        v = n.value
        if not (_u(n.targets[0]) == name and n in init.body and isinstance(v, ast.Subscript) and _u(v.value) == 'attrs'
                and isinstance(v.slice, ast.Constant) and isinstance(v.slice.value, str)):
            raise TranslateError('visdatav4: %s is %s' % (name, texts[k]))
        keys[name] = v.slice.value
    if _u(seq[3].targets[0]) != 'channel_width' or _u(seq[4].targets[0]) != 'sideband' or \
            not all(n in init.body for n in seq[:6]):
        raise TranslateError('visdatav4: channel_width / sideband statements are %s, %s' % (texts[3], texts[4]))
    env = {'bandwidth': ('Q', 'bandwidth'), 'num_chans': ('Z', 'num_chans')}
    cw = _coerce(tx(seq[3].value, env, 'v4 channel_width'), 'Q', 'v4 channel_width')
    sb = tx(seq[4].value, {}, 'v4 sideband')
    if sb[0] != 'Z':
        raise TranslateError('visdatav4: sideband is %s' % texts[4])
    # the two conditionals: channel preselection, and the fallback when metadata and data disagree
    pre = [n for n in init.body if isinstance(n, ast.If) and _u(n.test) == "'channels'inpreselect"]
    if not (len(pre) == 1 and not pre[0].orelse and [_u(x) for x in pre[0].body] ==
            [_u(seq[6]), 'assertstride==1', fixed[7]]):
        raise TranslateError("visdatav4: `if 'channels' in preselect:` block not as expected")
    fb = [n for n in init.body if isinstance(n, ast.If) and 'source.data.shape[1]' in _u(n.test)]
    if not (len(fb) == 1 and _u(fb[0].test) == 'source.dataandspw.num_chans!=source.data.shape[1]'
            and not fb[0].orelse and seq[8] in fb[0].body and seq[9] in fb[0].body and seq[10] in fb[0].body):
        raise TranslateError('visdatav4: channel-count fallback not as expected')
    order = [init.body.index(seq[5]), init.body.index(pre[0]), init.body.index(fb[0]), init.body.index(seq[11])]
    if order != sorted(order):
        raise TranslateError('visdatav4: spectral window statements out of order')
    out.append('Definition gen_v4_freq_attrs : list (string * string) := [%s].' % '; '.join(
        '(%s, %s)' % (coq_string(k), coq_string(keys[k])) for k in ('num_chans', 'bandwidth', 'centre_freq')))
    out.append('Definition gen_v4_channel_width %s (bandwidth : A) (num_chans : Z) : A := %s.' % (OPS, cw))
    out.append('Definition gen_v4_sideband : Z := %s.' % sb[1])
    # the channel-count fallback: its test and what it puts in place of the centre frequency
    ftest = fb[0].test
    if not (isinstance(ftest, ast.BoolOp) and isinstance(ftest.op, ast.And) and len(ftest.values) == 2
            and _u(ftest.values[0]) == 'source.data'):
        raise TranslateError('visdatav4: channel-count fallback test is %s' % _u(ftest))
    ft = tx(ftest.values[1], {'spw.num_chans': ('Z', 'spw_num_chans'), 'source.data.shape[1]': ('Z', 'data_num_chans')},
            'v4 fallback test')
    if ft[0] != 'B':
        raise TranslateError('visdatav4: channel-count fallback test is not a comparison')
    fc = _coerce(tx(seq[9].value, {}, 'v4 fallback centre'), 'Q', 'v4 fallback centre')
    if [_u(x) for x in fb[0].body if isinstance(x, ast.Assign)] != [texts[8], texts[9], texts[10]]:
        raise TranslateError('visdatav4: channel-count fallback assigns %s' % [_u(x) for x in fb[0].body])
    out.append('Definition gen_v4_fallback_test (spw_num_chans data_num_chans : Z) : bool := %s.' % ft[1])
    out.append('Definition gen_v4_fallback_centre %s : A := %s.' % (OPS, fc))
    # product and band handed to the SpectralWindow
    single = {}
    for n, names in _stores(init):
        for x in names:
            if x in ('product', 'band', 'band_map'):
                if n not in init.body or x in single:
                    raise TranslateError('visdatav4: %s assigned conditionally / twice' % x)
                single[x] = n
    if set(single) != {'product', 'band', 'band_map'} or \
            not all(init.body.index(single[x]) < init.body.index(seq[5]) for x in single):
        raise TranslateError('visdatav4: product / band / band_map not assigned before the spectral window is built')
    pv = single['product'].value
    if not (isinstance(pv, ast.Call) and _u(pv.func) == 'attrs.get' and len(pv.args) == 2 and not pv.keywords
            and all(isinstance(a, ast.Constant) and isinstance(a.value, str) for a in pv.args)):
        raise TranslateError('visdatav4: product is %s' % _u(pv))
    bv = single['band'].value
    if not (isinstance(bv, ast.Subscript) and _u(bv.value) == 'attrs' and isinstance(bv.slice, ast.Constant)
            and isinstance(bv.slice.value, str)):
        raise TranslateError('visdatav4: band is %s' % _u(bv))
    mv = single['band_map'].value
    if not (isinstance(mv, ast.Call) and _u(mv.func) == 'dict' and not mv.args
            and all(k.arg and isinstance(k.value, ast.Constant) and isinstance(k.value.value, str) for k in mv.keywords)):
        raise TranslateError('visdatav4: band_map is %s' % _u(mv))
    out.append('Definition gen_v4_product_attr : string := %s.' % coq_string(pv.args[0].value))
    out.append('Definition gen_v4_product_default : string := %s.' % coq_string(pv.args[1].value))
    out.append('Definition gen_v4_band_attr : string := %s.' % coq_string(bv.slice.value))
    out.append('Definition gen_v4_band_map : list (string * string) := [%s].' % '; '.join(
        '(%s, %s)' % (coq_string(k.arg), coq_string(k.value.value)) for k in mv.keywords))


# --------------------------------------------------------------------------- preselect -> chunk store index

def item_ds_index(repo, out):
    """TelstateDataSource.__init__: how the preselection becomes the index handed to ChunkStoreVisFlagsWeights, and that
    ChunkStoreVisFlagsWeights applies that index to every array."""
    init = _ds_init(repo)
    blk = [n for n in init.body if isinstance(n, ast.If) and _u(n.test) == 'chunk_storeisNone']
    if len(blk) != 1 or [_u(x) for x in blk[0].body] != ['data=None']:
        raise TranslateError('datasources: `if chunk_store is None: data = None else: ...` not found')
    els = blk[0].orelse
    pre = [n for n in els if isinstance(n, ast.If) and _u(n.test) == 'preselect']
    if len(pre) != 1 or len(pre[0].body) != 1 or [_u(x) for x in pre[0].orelse] != ['index=()']:
        raise TranslateError('datasources: `if preselect: index = (...) else: index = ()` not found')
    a = pre[0].body[0]
    if not (isinstance(a, ast.Assign) and _u(a.targets[0]) == 'index' and isinstance(a.value, ast.Tuple)):
        raise TranslateError('datasources: preselect index is %s' % _u(a))
    axes = []
    for e in a.value.elts:
        if not (isinstance(e, ast.Call) and _u(e.func) == 'preselect.get' and len(e.args) == 2 and not e.keywords
                and isinstance(e.args[0], ast.Constant) and isinstance(e.args[0].value, str)
                and _u(e.args[1]) == 'np.s_[:]'):
            raise TranslateError('datasources: preselect index element is %s' % _u(e))
        axes.append(e.args[0].value)
    for n, names in _stores(init):
        if 'index' in names and n not in (a, pre[0].orelse[0]):
            raise TranslateError('datasources: index also assigned by %s' % _u(n)[:80])
    calls = [n for n in ast.walk(init) if isinstance(n, ast.Call) and _u(n.func) == 'ChunkStoreVisFlagsWeights']
    if len(calls) != 1 or [k.arg for k in calls[0].keywords if _u(k.value) == 'index'] != ['preselect_index'] \
            or [_u(x) for x in calls[0].args] != ['chunk_store', 'chunk_info']:
        raise TranslateError('datasources: ChunkStoreVisFlagsWeights(chunk_store, chunk_info, ..., preselect_index=index) not found')
    asg = [n for n in els if isinstance(n, ast.Assign) and _u(n.targets[0]) == 'data']
    if len(asg) != 1 or asg[0].value is not calls[0] or els.index(pre[0]) > els.index(asg[0]):
        raise TranslateError('datasources: data = ChunkStoreVisFlagsWeights(...) not after the index')
    rel = 'katdal/vis_flags_weights.py'
    vinit = _func(_class(_parse(repo, rel), 'ChunkStoreVisFlagsWeights', rel), '__init__', rel)
    vnames = [x.arg for x in vinit.args.args]
    vd = dict(zip(vnames[len(vnames) - len(vinit.args.defaults):], [_u(d) for d in vinit.args.defaults]))
    if vd.get('preselect_index') != '()':
        raise TranslateError('vis_flags_weights: preselect_index default is %s' % vd.get('preselect_index'))
    for n, names in _stores(vinit):
        if 'preselect_index' in names:
            raise TranslateError('vis_flags_weights: preselect_index is rebound')
    gets = [n for n in ast.walk(vinit) if isinstance(n, ast.Call) and _u(n.func) == 'store.get_dask_array']
    loops = [n for n in vinit.body if isinstance(n, ast.For) and _u(n.iter) == 'chunk_info.items()']
    if len(gets) != 1 or len(loops) != 1 or gets[0] not in list(ast.walk(loops[0])) \
            or [k.arg for k in gets[0].keywords if _u(k.value) == 'preselect_index'] != ['index'] \
            or [_u(x) for x in gets[0].args] != ['array_name', "info['chunks']", "info['dtype']"]:
        raise TranslateError('vis_flags_weights: get_dask_array(array_name, chunks, dtype, index=preselect_index, ...) '
                             'is not called once per array')
    out.append('(* preselect_index = (preselect.get(axis, np.s_[:]) for axis in gen_ds_index_axes) if preselect else (); '
               'applied to every array by ChunkStoreVisFlagsWeights *)')
    out.append('Definition gen_ds_index_axes : list string := [%s].' % '; '.join(coq_string(x) for x in axes))


# --------------------------------------------------------------------------- katdal.open

def item_open(repo, out):
    """katdal.open: which preselect keys a list of files admits, that other formats refuse preselect, and that
    time_offset / preselect reach both the data source and VisibilityDataV4."""
    rel = 'katdal/__init__.py'
    fn = _func(_parse(repo, rel), 'open', rel)
    a = fn.args
    if [x.arg for x in a.args] != ['filename', 'ref_ant', 'time_offset'] or a.kwarg is None or a.kwarg.arg != 'kwargs' \
            or a.vararg or a.kwonlyargs or len(a.defaults) != 2:
        raise TranslateError('katdal.open: parameters are %s' % ast.unparse(a))
    toff = tx(a.defaults[1], {}, 'open time_offset default')
    body = [n for n in fn.body if not (isinstance(n, ast.Expr) and isinstance(n.value, ast.Constant))]
    if len(body) != 4 or not isinstance(body[0], ast.If) or _u(body[0].test) != 'isinstance(filename,str)' \
            or [_u(x) for x in body[0].body] != ['filenames=[filename]'] or _u(body[1]) != 'datasets=[]' \
            or not isinstance(body[2], ast.For) or _u(body[2].iter) != 'filenames' or _u(body[2].target) != 'f' \
            or _u(body[3]) != 'returndatasets[0]ifisinstance(filename,str)elseConcatenatedDataSet(datasets)':
        raise TranslateError('katdal.open: body not of the expected shape')
    els = body[0].orelse
    if len(els) != 3 or _u(els[2]) != 'filenames=filename' or not isinstance(els[0], ast.Assign) \
            or _u(els[0].targets[0]) != 'unexpected' or not isinstance(els[1], ast.If) or _u(els[1].test) != 'unexpected' \
            or len(els[1].body) != 1 or not isinstance(els[1].body[0], ast.Raise) \
            or not _u(els[1].body[0].exc).startswith('IndexError(') or els[1].orelse:
        raise TranslateError('katdal.open: list branch not of the expected shape')
    v = els[0].value
    if not (isinstance(v, ast.BinOp) and isinstance(v.op, ast.Sub) and isinstance(v.right, ast.Set)
            and _u(v.left) == "set(kwargs.get('preselect',{}))"):
        raise TranslateError('katdal.open: list branch tests %s' % _u(v))
    keys = sorted(ast.literal_eval(v.right))
    if not all(isinstance(k, str) for k in keys):
        raise TranslateError('katdal.open: list branch keys are %s' % keys)
    loop = body[2].body
    ifs = [n for n in loop if isinstance(n, ast.If)]
    if len(ifs) != 1 or _u(ifs[0].test) != "parsed.path.endswith('.rdb')orparsed.scheme!=''" \
            or _u(loop[-1]) != 'datasets.append(dataset)' or loop.index(ifs[0]) != len(loop) - 2:
        raise TranslateError('katdal.open: loop body not of the expected shape')
    if [_u(x) for x in ifs[0].body] != \
            ['dataset=VisibilityDataV4(open_data_source(f,**kwargs),ref_ant,time_offset,**kwargs)']:
        raise TranslateError('katdal.open: v4 branch is %s' % [_u(x) for x in ifs[0].body])
    oth = ifs[0].orelse
    if len(oth) != 2 or not isinstance(oth[0], ast.If) or _u(oth[0].test) != "'preselect'inkwargs" \
            or len(oth[0].body) != 1 or not isinstance(oth[0].body[0], ast.Raise) \
            or not _u(oth[0].body[0].exc).startswith('TypeError(') or oth[0].orelse \
            or _u(oth[1]) != "dataset=_file_action('__call__',f,ref_ant,time_offset,**kwargs)":
        raise TranslateError('katdal.open: other-format branch not of the expected shape')
    for n, names in _stores(fn):
        if any(x in ('kwargs', 'time_offset', 'ref_ant') for x in names):
            raise TranslateError('katdal.open: %s rebinds an argument' % _u(n)[:80])
    # open_data_source -> TelstateDataSource.from_url -> cls(..., **kwargs)
    rel2 = 'katdal/datasources.py'
    tree = _parse(repo, rel2)
    ods = _func(tree, 'open_data_source', rel2)
    if 'returnTelstateDataSource.from_url(url,**kwargs)' not in [_u(n) for n in ast.walk(ods) if isinstance(n, ast.Return)]:
        raise TranslateError('datasources: open_data_source does not return TelstateDataSource.from_url(url, **kwargs)')
    fu = _func(_class(tree, 'TelstateDataSource', rel2), 'from_url', rel2)
    rets = [_u(n) for n in ast.walk(fu) if isinstance(n, ast.Return)]
    if rets != ['returncls(telstate,capture_block_id,stream_name,chunk_store,url=url_parts.geturl(),**kwargs)']:
        raise TranslateError('datasources: from_url returns %s' % rets)
    for n, names in _stores(fu):
        if 'kwargs' in names and _u(n) != 'kwargs=url_kwargs':
            raise TranslateError('datasources: from_url rebinds kwargs: %s' % _u(n)[:80])
    pops = sorted(_u(n) for n in ast.walk(fu) if isinstance(n, ast.Call) and _u(n.func) in ('kwargs.pop', 'url_kwargs.pop'))
    if pops != ["kwargs.pop('capture_block_id',None)", "kwargs.pop('db','0')", "kwargs.pop('stream_name',None)"]:
        raise TranslateError('datasources: from_url pops %s' % pops)
    v4i = _v4_init(repo)
    names = [x.arg for x in v4i.args.args]
    vd = dict(zip(names[len(names) - len(v4i.args.defaults):], v4i.args.defaults))
    if names[:4] != ['self', 'source', 'ref_ant', 'time_offset'] or _u(vd['preselect']) != 'None' or v4i.args.kwarg is None:
        raise TranslateError('visdatav4: __init__ parameters are %s' % names)
    toff4 = tx(vd['time_offset'], {}, 'v4 time_offset default')
    if 'DataSet.__init__(self,source.name,ref_ant,time_offset,source.url)' not in [_u(n) for n in v4i.body]:
        raise TranslateError('visdatav4: DataSet.__init__(self, source.name, ref_ant, time_offset, source.url) not found')
    out.append('Definition open_concat_keys : list string := [%s].' % '; '.join(coq_string(k) for k in keys))
    out.append('Definition gen_open_default_time_offset %s : A := %s.' % (OPS, _coerce(toff, 'Q', 'open time_offset')))
    out.append('Definition gen_v4_default_time_offset %s : A := %s.' % (OPS, _coerce(toff4, 'Q', 'v4 time_offset')))


# --------------------------------------------------------------------------- _cbf_attrs

def item_cbf_attrs(repo, out):
    """visdatav4._cbf_attrs: the chain of telstate lookups that yields the CBF dump period, as an interpreted program;
    and the exceptions VisibilityDataV4.__init__ turns into `no CBF attributes` (a "lite" RDB)."""
    rel = 'katdal/visdatav4.py'
    tree = _parse(repo, rel)
    fn = _func(tree, '_cbf_attrs', rel)
    _plain_args(fn, ['attrs'], '_cbf_attrs')
    if fn.decorator_list:
        raise TranslateError('visdatav4: _cbf_attrs is decorated')
    body = [n for n in fn.body if not (isinstance(n, ast.Expr) and isinstance(n.value, ast.Constant))]
    steps = []
    known = set()
    for n in body[:-1]:
        if not (isinstance(n, ast.Assign) and len(n.targets) == 1 and isinstance(n.targets[0], ast.Name)):
            raise TranslateError('visdatav4: _cbf_attrs statement %s' % _u(n)[:80])
        v = n.value
        first = False
        if isinstance(v, ast.Subscript) and isinstance(v.slice, ast.Constant) and v.slice.value == 0 \
                and isinstance(v.value, ast.Subscript):
            first = True
            v = v.value
        if not (isinstance(v, ast.Subscript) and _u(v.value) == 'attrs'):
            raise TranslateError('visdatav4: _cbf_attrs lookup %s' % _u(n)[:80])
        k = v.slice
        if isinstance(k, ast.Constant) and isinstance(k.value, str):
            base, key = None, k.value
        elif isinstance(k, ast.BinOp) and isinstance(k.op, ast.Add) and isinstance(k.left, ast.Name) \
                and k.left.id in known and isinstance(k.right, ast.Constant) and isinstance(k.right.value, str):
            base, key = k.left.id, k.right.value
        else:
            raise TranslateError('visdatav4: _cbf_attrs key %s' % _u(k)[:80])
        if n.targets[0].id in known:
            raise TranslateError('visdatav4: _cbf_attrs assigns %s twice' % n.targets[0].id)
        known.add(n.targets[0].id)
        steps.append((n.targets[0].id, base, key, first))
    ret = body[-1]
    if not (isinstance(ret, ast.Return) and isinstance(ret.value, ast.Tuple)
            and all(isinstance(e, ast.Name) and e.id in known for e in ret.value.elts)):
        raise TranslateError('visdatav4: _cbf_attrs returns %s' % _u(ret)[:80])
    result = [e.id for e in ret.value.elts]
    # the caller: try: (self.cbf_dump_period, ...) = _cbf_attrs(attrs) except (KeyError, IndexError): ... = None
    init = _v4_init(repo)
    tries = [n for n in init.body if isinstance(n, ast.Try) and '_cbf_attrs' in _u(n)]
    if len(tries) != 1 or len(tries[0].body) != 1 or len(tries[0].handlers) != 1 or tries[0].finalbody:
        raise TranslateError('visdatav4: try / except around _cbf_attrs not as expected')
    call = tries[0].body[0]
    if not (isinstance(call, ast.Assign) and isinstance(call.targets[0], ast.Tuple) and _u(call.value) == '_cbf_attrs(attrs)'
            and _u(call.targets[0].elts[0]) == 'self.cbf_dump_period' and len(call.targets[0].elts) == len(result)):
        raise TranslateError('visdatav4: call of _cbf_attrs is %s' % _u(call)[:100])
    h = tries[0].handlers[0]
    if h.type is None:
        raise TranslateError('visdatav4: bare except around _cbf_attrs')
    excs = [_u(e) for e in (h.type.elts if isinstance(h.type, ast.Tuple) else [h.type])]
    if 'self.cbf_dump_period=self.accumulations_per_dump=None' not in [_u(x) for x in h.body]:
        raise TranslateError('visdatav4: except branch does not clear cbf_dump_period')
    calls = [n for n in ast.walk(tree) if isinstance(n, ast.Call) and _u(n.func) == '_cbf_attrs']
    if len(calls) != 1:
        raise TranslateError('visdatav4: _cbf_attrs called %d times' % len(calls))
    out.append('Inductive cbf_step := CbfStep (target : string) (base : option string) (key : string) (first : bool).')
    out.append('(* target = attrs[base + key] (or attrs[key]), [0] of it when first *)')
    out.append('Definition gen_cbf_prog : list cbf_step := [%s].' % '; '.join(
        'CbfStep %s %s %s %s' % (coq_string(t), 'None' if b is None else '(Some %s)' % coq_string(b), coq_string(k),
                                 'true' if f else 'false') for t, b, k, f in steps))
    out.append('Definition gen_cbf_result : list string := [%s].' % '; '.join(coq_string(r) for r in result))
    out.append('Definition gen_cbf_lite_exceptions : list string := [%s].' % '; '.join(coq_string(e) for e in sorted(excs)))


# --------------------------------------------------------------------------- sensors under a preselection

def item_v4_sensors(repo, out):
    """Numeric sensors of a preselected data set: the sensor histories come from telstate over the WHOLE capture
    (get_range(name, st=<const>), no end time, nothing of the preselection reaches the getters) and are interpolated onto
    source.timestamps as VisibilityDataV4.__init__ left them (after time_offset and the CBF workaround)."""
    init = _v4_init(repo)
    caches = [(i, n) for i, n in enumerate(init.body) if isinstance(n, ast.Assign) and _u(n.targets[0]) == 'self.sensor']
    if len(caches) != 1 or len(caches[0][1].targets) != 1 or not isinstance(caches[0][1].value, ast.Call) \
            or _u(caches[0][1].value.func) != 'SensorCache':
        raise TranslateError('visdatav4: self.sensor = SensorCache(...) not found exactly once at the top of __init__')
    pos, call = caches[0][0], caches[0][1].value
    if any(_u(t) == 'self.sensor' for n in ast.walk(init) if isinstance(n, (ast.Assign, ast.AugAssign))
           for t in (n.targets if isinstance(n, ast.Assign) else [n.target]) if n is not caches[0][1]):
        raise TranslateError('visdatav4: self.sensor stored more than once')
    args = [_u(a) for a in call.args]
    if len(args) < 4 or any(k.arg in ('cache', 'timestamps', 'dump_period', 'keep') for k in call.keywords):
        raise TranslateError('visdatav4: SensorCache arguments are %s' % args)
    # every store into the time axis happens BEFORE the cache is built
    for i, n in enumerate(init.body):
        for m, names in _stores(n) if not isinstance(n, (ast.FunctionDef,)) else []:
            if any(x in ('source.timestamps', 'self.dump_period', 'self._time_keep', 'num_dumps') for x in names) \
                    and i >= pos:
                raise TranslateError('visdatav4: %s written after the sensor cache is built' % _u(m)[:60])
    tk = [_u(n.value) for n in ast.walk(init) if isinstance(n, ast.Assign) and _u(n.targets[0]) == 'self._time_keep']
    nd = [_u(n.value) for n in ast.walk(init) if isinstance(n, ast.Assign) and _u(n.targets[0]) == 'num_dumps']
    if tk != ['np.full(num_dumps,True,dtype=bool)'] or nd != ['len(source.timestamps)']:
        raise TranslateError('visdatav4: _time_keep / num_dumps are %s / %s' % (tk, nd))
    # TelstateSensorGetter.get: the whole history
    rel = 'katdal/sensordata.py'
    get = _func(_class(_parse(repo, rel), 'TelstateSensorGetter', rel), 'get', rel)
    rng = [n for n in ast.walk(get) if isinstance(n, ast.Call) and isinstance(n.func, ast.Attribute)
           and n.func.attr in ('get_range', 'get')]
    if len(rng) != 1 or _u(rng[0].func) != 'self._telstate.get_range' or [_u(a) for a in rng[0].args] != ['self.name'] \
            or [k.arg for k in rng[0].keywords] != ['st'] or not isinstance(rng[0].keywords[0].value, ast.Constant) \
            or type(rng[0].keywords[0].value.value) is not int:
        raise TranslateError('sensordata: TelstateSensorGetter.get reads %s' % [_u(n) for n in rng])
    if _u(get.body[0]) != 'values,times=zip(*self._telstate.get_range(self.name,st=%d))' % rng[0].keywords[0].value.value:
        raise TranslateError('sensordata: TelstateSensorGetter.get starts with %s' % _u(get.body[0])[:80])
    # TelstateDataSource.__init__: the getters are built from (root, key) alone; `preselect` is read by the validation,
    # the chunk-store index and the timestamps only
    ds = _ds_init(repo)
    users = [i for i, n in enumerate(ds.body) if any(isinstance(m, ast.Name) and m.id == 'preselect' for m in ast.walk(n))]
    texts = [_u(ds.body[i])[:40] for i in users]
    if len(users) != 5 or users[:3] != [0, 1, 3] or not texts[3].startswith('ifchunk_storeisNone:') \
            or _u(ds.body[users[4]]) != "if'dumps'inpreselect:\ntimestamps=timestamps[preselect['dumps']]":
        raise TranslateError('datasources: preselect is used by %s' % texts)
    getters = [_u(n) for n in ast.walk(ds) if isinstance(n, ast.Call) and _u(n.func) == 'TelstateSensorGetter']
    if getters != ['TelstateSensorGetter(root,key)']:
        raise TranslateError('datasources: sensor getters are %s' % getters)
    if 'metadata=AttrsSensors(telstate,sensors)' not in [_u(n) for n in ds.body]:
        raise TranslateError('datasources: metadata = AttrsSensors(telstate, sensors) not found')
    out.append('Definition gen_v4_sensor_cache_args : list string := [%s].' % '; '.join(coq_string(a) for a in args[:4]))
    out.append('Definition gen_sensor_range_start : Z := %s.' % coq_Z(rng[0].keywords[0].value.value))


ITEMS = [item_fix_rule, item_v4_time, item_ds_time, item_preselect, item_spw, item_v4_freq, item_ds_index, item_open,
         item_cbf_attrs, item_v4_sensors]
