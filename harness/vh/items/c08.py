"""Translator items for C08 (error maps, exception classes, absorb/report clauses, temp-file protocol).

Everything is read from the source text of the katdal tree with `ast`; names of exception classes are
resolved to qualified names through the import statements of the module they appear in.
"""
import ast
import builtins

from vh.translate import TranslateError, _parse, _class, _func, coq_string, coq_strings

CS = 'katdal/chunkstore.py'
NPY = 'katdal/chunkstore_npy.py'
DICT = 'katdal/chunkstore_dict.py'
S3 = 'katdal/chunkstore_s3.py'
VFW = 'katdal/vis_flags_weights.py'


def _modname(rel):
    return rel[:-3].replace('/', '.')


def _imports(tree, rel):
    """Local name -> qualified name for imports and module-level classes of one module."""
    pkg = _modname(rel).rsplit('.', 1)[0]
    env = {}

    def visit(body):
        for n in body:
            if isinstance(n, ast.Import):
                for a in n.names:
                    env[(a.asname or a.name).split('.')[0]] = ('module', (a.name if a.asname else a.name.split('.')[0]))
            elif isinstance(n, ast.ImportFrom):
                mod = n.module or ''
                if n.level:
                    mod = pkg + ('.' + mod if mod else '')
                for a in n.names:
                    env[a.asname or a.name] = ('name', mod + '.' + a.name)
            elif isinstance(n, ast.ClassDef):
                env[n.name] = ('name', _modname(rel) + '.' + n.name)
            elif isinstance(n, ast.Try):
                # `try: import x` blocks: only the first alternative is followed
                visit(n.body)
    visit(tree.body)
    return env


def _resolve(node, env, what):
    """Qualified name of an exception-class expression (Name or dotted Attribute)."""
    if isinstance(node, ast.Name):
        if node.id in env:
            kind, q = env[node.id]
            if kind == 'name':
                return q
            raise TranslateError('%s: %s is a module, not a class' % (what, node.id))
        obj = getattr(builtins, node.id, None)
        if isinstance(obj, type) and issubclass(obj, BaseException):
            return 'builtins.' + obj.__name__     # IOError / EnvironmentError are aliases of OSError
        raise TranslateError('%s: cannot resolve name %s' % (what, node.id))
    if isinstance(node, ast.Attribute):
        parts = []
        n = node
        while isinstance(n, ast.Attribute):
            parts.append(n.attr)
            n = n.value
        if isinstance(n, ast.Name) and n.id in env and env[n.id][0] == 'module':
            return '.'.join([env[n.id][1]] + parts[::-1])
    raise TranslateError('%s: unsupported class expression %s' % (what, ast.dump(node)[:100]))


def _dict_pairs(node, env, what):
    if not isinstance(node, ast.Dict) or not node.keys:
        raise TranslateError('%s: expected a non-empty dict literal' % what)
    out = []
    for k, v in zip(node.keys, node.values):
        if k is None:
            raise TranslateError('%s: dict unpacking in error map' % what)
        out.append((_resolve(k, env, what), _resolve(v, env, what)))
    if len({k for k, _ in out}) != len(out):
        raise TranslateError('%s: duplicate keys' % what)
    return out


def _coq_pairs(pairs):
    return '[' + '; '.join('(%s, %s)' % (coq_string(a), coq_string(b)) for a, b in pairs) + ']'


def _super_init_arg(init, rel):
    """The single positional argument of the `super().__init__(...)` call in an __init__."""
    calls = [n for n in ast.walk(init) if isinstance(n, ast.Call) and isinstance(n.func, ast.Attribute)
             and n.func.attr == '__init__' and isinstance(n.func.value, ast.Call)
             and isinstance(n.func.value.func, ast.Name) and n.func.value.func.id == 'super']
    if len(calls) != 1 or len(calls[0].args) != 1 or calls[0].keywords:
        raise TranslateError('%s: expected exactly one super().__init__(error_map) call' % rel)
    return calls[0].args[0]


def _local_assign(fn, name, rel):
    found = [n for n in ast.walk(fn) if isinstance(n, ast.Assign) and len(n.targets) == 1
             and isinstance(n.targets[0], ast.Name) and n.targets[0].id == name]
    if len(found) != 1:
        raise TranslateError('%s:%s: expected exactly one assignment to %s, found %d' % (rel, fn.name, name, len(found)))
    return found[0].value


def item_c08_error_maps(repo, out):
    # default map: ChunkStore.__init__: if error_map is None: error_map = {...}
    tree = _parse(repo, CS)
    env = _imports(tree, CS)
    init = _func(_class(tree, 'ChunkStore', CS), '__init__', CS)
    ifs = [n for n in init.body if isinstance(n, ast.If)]
    if (len(ifs) != 1 or not isinstance(ifs[0].test, ast.Compare) or not isinstance(ifs[0].test.ops[0], ast.Is)
            or ast.unparse(ifs[0].test) != 'error_map is None' or ifs[0].orelse):
        raise TranslateError('%s: ChunkStore.__init__ default error_map clause not recognised' % CS)
    default = _dict_pairs(_local_assign(ifs[0], 'error_map', CS) if False else ifs[0].body[0].value, env,
                          'ChunkStore default error_map')
    out.append('Definition c08_errmap_default : list (string * string) := %s.' % _coq_pairs(default))
    # NPY: super().__init__({...})
    tree = _parse(repo, NPY)
    env = _imports(tree, NPY)
    init = _func(_class(tree, 'NpyFileChunkStore', NPY), '__init__', NPY)
    out.append('Definition c08_errmap_npy : list (string * string) := %s.'
               % _coq_pairs(_dict_pairs(_super_init_arg(init, NPY), env, 'NpyFileChunkStore error_map')))
    # dict and S3: error_map = {...}; super().__init__(error_map)
    for rel, cls, nm in ((DICT, 'DictChunkStore', 'dict'), (S3, 'S3ChunkStore', 's3')):
        tree = _parse(repo, rel)
        env = _imports(tree, rel)
        init = _func(_class(tree, cls, rel), '__init__', rel)
        arg = _super_init_arg(init, rel)
        if not (isinstance(arg, ast.Name) and arg.id == 'error_map'):
            raise TranslateError('%s: %s passes something other than its error_map literal' % (rel, cls))
        out.append('Definition c08_errmap_%s : list (string * string) := %s.'
                   % (nm, _coq_pairs(_dict_pairs(_local_assign(init, 'error_map', rel), env, cls + ' error_map'))))


CLASSES = [(CS, 'ChunkStoreError'), (CS, 'StoreUnavailable'), (CS, 'ChunkNotFound'), (CS, 'BadChunk'),
           (S3, 'S3ObjectNotFound'), (S3, 'S3ServerGlitch'), (S3, 'AuthorisationFailed'), (S3, 'InvalidToken')]


def item_c08_classes(repo, out):
    rows = []
    trees = {}
    for rel, name in CLASSES:
        if rel not in trees:
            t = _parse(repo, rel)
            trees[rel] = (t, _imports(t, rel))
        tree, env = trees[rel]
        c = _class(tree, name, rel)
        if c.keywords or not c.bases:
            raise TranslateError('%s: class %s has no bases / a metaclass' % (rel, name))
        bases = [_resolve(b, env, 'bases of ' + name) for b in c.bases]
        rows.append('(%s, %s)' % (coq_string(_modname(rel) + '.' + name), coq_strings(bases)))
    out.append('Definition c08_class_bases : list (string * list string) :=\n  [%s].' % ';\n   '.join(rows))


def _handler_names(h, env, what):
    if h.type is None:
        raise TranslateError('%s: bare except' % what)
    ts = h.type.elts if isinstance(h.type, ast.Tuple) else [h.type]
    return [_resolve(t, env, what) for t in ts]


def _is_self_call(node, meth):
    return (isinstance(node, ast.Call) and isinstance(node.func, ast.Attribute) and node.func.attr == meth
            and isinstance(node.func.value, ast.Name) and node.func.value.id == 'self')


def item_c08_absorb(repo, out):
    """Which exceptions the *_or_default / *_or_placeholder getters turn into filler, and which
    put_chunk_noraise turns into a returned error object."""
    tree = _parse(repo, CS)
    env = _imports(tree, CS)
    cls = _class(tree, 'ChunkStore', CS)
    for meth, key in (('get_chunk_or_default', 'default'), ('get_chunk_or_placeholder', 'placeholder')):
        fn = _func(cls, meth, CS)
        tries = [n for n in ast.walk(fn) if isinstance(n, ast.Try)]
        if len(tries) != 1:
            raise TranslateError('%s: %s: expected exactly one try statement' % (CS, meth))
        t = tries[0]
        ok = (len(t.body) == 1 and isinstance(t.body[0], ast.Return) and _is_self_call(t.body[0].value, 'get_chunk')
              and not t.orelse and not t.finalbody)
        if not ok:
            raise TranslateError('%s: %s: try body is not `return self.get_chunk(...)`' % (CS, meth))
        names = []
        for h in t.handlers:
            if any(isinstance(n, ast.Raise) for n in ast.walk(h)):
                continue        # a handler that re-raises absorbs nothing
            names += _handler_names(h, env, meth)
        out.append('Definition c08_absorbed_%s : list string := %s.' % (key, coq_strings(names)))
    fn = _func(cls, 'put_chunk_noraise', CS)
    tries = [n for n in ast.walk(fn) if isinstance(n, ast.Try)]
    if len(tries) != 1:
        raise TranslateError('%s: put_chunk_noraise: expected exactly one try statement' % CS)
    t = tries[0]
    ok = (len(t.body) == 1 and isinstance(t.body[0], ast.Expr) and _is_self_call(t.body[0].value, 'put_chunk')
          and len(t.orelse) == 1 and isinstance(t.orelse[0], ast.Return)
          and isinstance(t.orelse[0].value, ast.Constant) and t.orelse[0].value.value is None and not t.finalbody)
    if not ok:
        raise TranslateError('%s: put_chunk_noraise: shape not recognised' % CS)
    names = []
    for h in t.handlers:
        good = (h.name and len(h.body) == 1 and isinstance(h.body[0], ast.Return)
                and isinstance(h.body[0].value, ast.Name) and h.body[0].value.id == h.name)
        if not good:
            raise TranslateError('%s: put_chunk_noraise: a handler does not `return err`' % CS)
        names += _handler_names(h, env, 'put_chunk_noraise')
    out.append('Definition c08_noraise_returned : list string := %s.' % coq_strings(names))


def _str_concat_suffix(node, var, what):
    """node must be `<var> + '<suffix>'` (or os.path.join(...) + '<suffix>' when var is None)."""
    if (isinstance(node, ast.BinOp) and isinstance(node.op, ast.Add) and isinstance(node.right, ast.Constant)
            and isinstance(node.right.value, str)):
        left = node.left
        if var is None or (isinstance(left, ast.Name) and left.id == var):
            return node.right.value
    raise TranslateError('%s: expected <name> + <string literal>' % what)


def _plain_short_write_policy(branch, w):
    """What the plain branch of _write_chunk does when write(2) stores fewer bytes than it was given.

    Recognised (anything else fails closed): the block is exactly `with open(filename, 'wb'[, buffering]) as f:`
    followed by `return`, every statement of the with-body is a call `f.write(<expr>)`:
      * result discarded, buffered file object (default buffering or a buffer size > 1): io.BufferedWriter
        re-issues the remainder until everything is written or write(2) raises            -> 'retry'
      * result discarded, raw file object (buffering=0): io.FileIO.write is ONE write(2) whose count is
        simply returned                                                                    -> 'ignore'
      * `n = f.write(x)` immediately followed by `if n != len(x): raise OSError(...)` (or `<`)  -> 'check'
        (only needed, and only accepted, for a raw file)
    """
    what = '%s: _write_chunk: plain branch' % NPY
    if [st for st in branch.body if st is not w and not isinstance(st, ast.Return)]:
        raise TranslateError('%s has statements besides the with-block and return' % what)
    if len(w.items) != 1 or not isinstance(w.items[0].optional_vars, ast.Name) or w.items[0].optional_vars.id != 'f':
        raise TranslateError('%s: `with open(...) as f` expected' % what)
    call = w.items[0].context_expr
    if not (isinstance(call, ast.Call) and isinstance(call.func, ast.Name) and call.func.id == 'open'):
        raise TranslateError('%s: context manager is not a plain open() call' % what)
    args = list(call.args)
    kw = {}
    for k in call.keywords:
        if k.arg is None or k.arg in kw:
            raise TranslateError('%s: open() with ** or repeated keywords' % what)
        kw[k.arg] = k.value
    for i, nm in enumerate(('file', 'mode', 'buffering')):
        if i < len(args):
            if nm in kw:
                raise TranslateError('%s: open() argument %s given twice' % (what, nm))
            kw[nm] = args[i]
    if len(args) > 3 or set(kw) - {'file', 'mode', 'buffering'}:
        raise TranslateError('%s: unsupported open() arguments %s' % (what, ast.unparse(call)))
    if not (isinstance(kw.get('file'), ast.Name) and kw['file'].id == 'filename'):
        raise TranslateError('%s: does not open `filename`' % what)
    if not (isinstance(kw.get('mode'), ast.Constant) and kw['mode'].value in ('wb', 'bw')):
        raise TranslateError("%s: open() mode is not 'wb'" % what)
    raw = False
    if 'buffering' in kw:
        b = kw['buffering']
        if isinstance(b, ast.UnaryOp) and isinstance(b.op, ast.USub) and isinstance(b.operand, ast.Constant):
            val = -b.operand.value if isinstance(b.operand.value, int) else None
        elif isinstance(b, ast.Constant) and isinstance(b.value, int) and not isinstance(b.value, bool):
            val = b.value
        else:
            val = None
        if val is None or val == 1:
            raise TranslateError('%s: open() buffering is not an integer literal other than 1' % what)
        raw = (val == 0)
    body = list(w.body)
    if not body:
        raise TranslateError('%s: empty with-block' % what)
    policies = set()
    i = 0
    while i < len(body):
        st = body[i]
        is_write = lambda c: (isinstance(c, ast.Call) and ast.unparse(c.func) == 'f.write'    # noqa: E731
                              and len(c.args) == 1 and not c.keywords)
        if isinstance(st, ast.Expr) and is_write(st.value):
            policies.add('ignore' if raw else 'retry')
            i += 1
            continue
        if (isinstance(st, ast.Assign) and len(st.targets) == 1 and isinstance(st.targets[0], ast.Name)
                and is_write(st.value) and i + 1 < len(body)):
            n, x, nxt = st.targets[0].id, ast.unparse(st.value.args[0]), body[i + 1]
            tests = ('%s != len(%s)' % (n, x), '%s < len(%s)' % (n, x), 'len(%s) != %s' % (x, n), 'len(%s) > %s' % (x, n))
            if (isinstance(nxt, ast.If) and not nxt.orelse and ast.unparse(nxt.test) in tests and len(nxt.body) == 1
                    and isinstance(nxt.body[0], ast.Raise) and isinstance(nxt.body[0].exc, ast.Call)
                    and ast.unparse(nxt.body[0].exc.func) in ('OSError', 'IOError')
                    and isinstance(st.value.args[0], ast.Name)):
                # len() of a 1-D uint8 view / bytes equals the byte count only then; be strict about the operand
                policies.add('check' if raw else 'retry')
                i += 2
                continue
        raise TranslateError('%s: statement not recognised: %s' % (what, ast.unparse(st)[:70]))
    if len(policies) != 1:
        raise TranslateError('%s: writes with different short-write handling %s' % (what, sorted(policies)))
    return policies.pop()



def item_c08_npy_protocol(repo, out):
    """Temp-file protocol of NpyFileChunkStore.put_chunk and the file name get_chunk reads."""
    tree = _parse(repo, NPY)
    cls = _class(tree, 'NpyFileChunkStore', NPY)
    put = _func(cls, 'put_chunk', NPY)
    withs = [n for n in put.body if isinstance(n, ast.With)]
    if len(withs) != 1 or not _is_self_call(withs[0].items[0].context_expr, '_standard_errors'):
        raise TranslateError('%s: put_chunk: no single `with self._standard_errors` block' % NPY)
    if not isinstance(put.body[-1], ast.With):
        raise TranslateError('%s: put_chunk: statements after the guarded block' % NPY)
    body = withs[0].body
    steps = []
    tmp_suffix = final_suffix = None
    for st in body:
        if (isinstance(st, ast.Assign) and isinstance(st.targets[0], ast.Name)
                and st.targets[0].id == 'temp_filename'):
            tmp_suffix = _str_concat_suffix(st.value, 'base_filename', 'temp_filename')
        elif (isinstance(st, ast.Expr) and isinstance(st.value, ast.Call)
              and isinstance(st.value.func, ast.Name) and st.value.func.id == '_write_chunk'):
            a = st.value.args
            if not (a and isinstance(a[0], ast.Name) and a[0].id == 'temp_filename'):
                raise TranslateError('%s: put_chunk: _write_chunk does not write to temp_filename' % NPY)
            steps.append('write_tmp')
        elif (isinstance(st, ast.Expr) and isinstance(st.value, ast.Call)
              and ast.unparse(st.value.func) == 'os.rename'):
            a = st.value.args
            if not (len(a) == 2 and isinstance(a[0], ast.Name) and a[0].id == 'temp_filename'):
                raise TranslateError('%s: put_chunk: os.rename source is not temp_filename' % NPY)
            final_suffix = _str_concat_suffix(a[1], 'base_filename', 'rename target')
            steps.append('rename_tmp_final')
        else:
            raise TranslateError('%s: put_chunk: unexpected statement %s' % (NPY, ast.unparse(st)[:60]))
    if tmp_suffix is None or final_suffix is None:
        raise TranslateError('%s: put_chunk: temp / final file names not found' % NPY)
    get = _func(cls, 'get_chunk', NPY)
    read_suffix = _str_concat_suffix(_local_assign(get, 'filename', NPY), None, 'get_chunk filename')
    out.append('Definition c08_tmp_suffix : string := %s.' % coq_string(tmp_suffix))
    out.append('Definition c08_final_suffix : string := %s.' % coq_string(final_suffix))
    out.append('Definition c08_read_suffix : string := %s.' % coq_string(read_suffix))
    out.append('Definition c08_put_steps : list string := %s.' % coq_strings(steps))
    # _write_chunk(filename, chunk, direct_write): how the plain branch writes, and whether the direct branch
    # checks the byte count returned by os.write before padding/cutting the file with ftruncate
    wc = _func(tree, '_write_chunk', NPY)
    plain = [n for n in wc.body if isinstance(n, ast.If) and ast.unparse(n.test) == 'not direct_write']
    if len(plain) != 1 or plain[0].orelse:
        raise TranslateError('%s: _write_chunk: `if not direct_write:` branch not found' % NPY)
    pcalls = [ast.unparse(n.func) for st in plain[0].body for n in ast.walk(st) if isinstance(n, ast.Call)]
    if 'np.save' in pcalls:
        writer = 'np.save'
        short = 'retry'         # C stdio: fwrite loops over short write(2) counts
    elif 'open' in pcalls and 'f.write' in pcalls and not [c for c in pcalls if c.endswith('tofile')]:
        withs = [st for st in plain[0].body if isinstance(st, ast.With)]
        if not (len(withs) == 1 and ast.unparse(withs[0].items[0].context_expr).startswith('open(filename')):
            raise TranslateError('%s: _write_chunk: plain branch does not write inside `with open(filename, ...)`' % NPY)
        writer = 'file.write'
        short = _plain_short_write_policy(plain[0], withs[0])
    else:
        raise TranslateError('%s: _write_chunk: plain branch writer not recognised (%s)' % (NPY, pcalls))
    if not isinstance(plain[0].body[-1], ast.Return):
        raise TranslateError('%s: _write_chunk: plain branch falls through into the direct branch' % NPY)
    out.append('Definition c08_plain_writer : string := %s.' % coq_string(writer))
    out.append('Definition c08_plain_short_write : string := %s.' % coq_string(short))
    direct = wc.body[wc.body.index(plain[0]) + 1:]
    dcalls = [ast.unparse(n.func) for st in direct for n in ast.walk(st) if isinstance(n, ast.Call)]
    seq = [c for c in dcalls if c in ('os.open', 'os.write', 'os.ftruncate', 'os.rename', 'os.unlink')]
    out.append('Definition c08_direct_calls : list string := %s.' % coq_strings(seq))
    checked = False
    for n in ast.walk(wc):
        body = getattr(n, 'body', None)
        if not isinstance(body, list):
            continue
        for a, b in zip(body, body[1:]):
            if (isinstance(a, ast.Assign) and isinstance(a.value, ast.Call) and ast.unparse(a.value.func) == 'os.write'
                    and isinstance(a.targets[0], ast.Name) and isinstance(b, ast.If) and not b.orelse
                    and ast.unparse(b.test) in ('%s < size' % a.targets[0].id, '%s != size' % a.targets[0].id,
                                                 'size > %s' % a.targets[0].id)
                    and len(b.body) == 1 and isinstance(b.body[0], ast.Raise)
                    and isinstance(b.body[0].exc, ast.Call) and ast.unparse(b.body[0].exc.func) in ('OSError', 'IOError')):
                checked = True
    out.append('Definition c08_direct_short_write_checked : bool := %s.' % ('true' if checked else 'false'))


def item_c08_checks(repo, out):
    """The dtype/shape test after decoding in the three get_chunk methods, and how vis_flags_weights
    asks for missing chunks to be handled."""
    rows = []
    for rel, cls in ((NPY, 'NpyFileChunkStore'), (DICT, 'DictChunkStore'), (S3, 'S3ChunkStore')):
        tree = _parse(repo, rel)
        env = _imports(tree, rel)
        get = _func(_class(tree, cls, rel), 'get_chunk', rel)
        ifs = [n for n in get.body if isinstance(n, ast.If)]
        if len(ifs) != 1 or ifs[0].orelse:
            raise TranslateError('%s: get_chunk: expected exactly one top-level if' % rel)
        i = get.body.index(ifs[0])
        last = get.body[-1]
        if not (i == len(get.body) - 2 and isinstance(last, ast.Return) and isinstance(last.value, ast.Name)
                and last.value.id == 'chunk'):
            raise TranslateError('%s: get_chunk: the check is not immediately before `return chunk`' % rel)
        test = ifs[0].test
        if not (isinstance(test, ast.BoolOp) and isinstance(test.op, ast.Or)):
            raise TranslateError('%s: get_chunk: check is not a disjunction' % rel)
        attrs = []
        for c in test.values:
            s = ast.unparse(c)
            if s == 'chunk.shape != shape':
                attrs.append('shape')
            elif s == 'chunk.dtype != dtype':
                attrs.append('dtype')
            else:
                raise TranslateError('%s: get_chunk: unknown disjunct %s' % (rel, s))
        body = ifs[0].body
        if not (len(body) == 1 and isinstance(body[0], ast.Raise) and isinstance(body[0].exc, ast.Call)):
            raise TranslateError('%s: get_chunk: check does not raise' % rel)
        raised = _resolve(body[0].exc.func, env, 'get_chunk check')
        rows.append('(%s, (%s, %s))' % (coq_string(cls), coq_strings(attrs), coq_string(raised)))
    out.append('Definition c08_decoded_checks : list (string * (list string * string)) :=\n  [%s].' % ';\n   '.join(rows))
    # vis_flags_weights: errors = DATA_LOST if array == 'flags' else 'placeholder'
    tree = _parse(repo, VFW)
    init = _func(_class(tree, 'ChunkStoreVisFlagsWeights', VFW), '__init__', VFW)
    v = _local_assign(init, 'errors', VFW)
    if not (isinstance(v, ast.IfExp) and ast.unparse(v.test) == "array == 'flags'"
            and isinstance(v.body, ast.Name) and isinstance(v.orelse, ast.Constant)):
        raise TranslateError('%s: errors = ... clause not recognised' % VFW)
    out.append('Definition c08_vfw_errors : string * string := (%s, %s).'
               % (coq_string(v.body.id), coq_string(v.orelse.value)))
    # get_dask_array: which getter each `errors` value selects
    tree = _parse(repo, CS)
    gda = _func(_class(tree, 'ChunkStore', CS), 'get_dask_array', CS)
    sel = [n for n in gda.body if isinstance(n, ast.If) and 'errors' in ast.unparse(n.test)]
    if len(sel) != 1:
        raise TranslateError('%s: get_dask_array: getter selection not found' % CS)
    rows = []
    node = sel[0]
    while True:
        getters = [ast.unparse(a.value) for a in node.body if isinstance(a, ast.Assign)
                   and ast.unparse(a.targets[0]) == 'getter']
        rows.append((ast.unparse(node.test), getters[0] if getters else 'raise'))
        if len(node.orelse) == 1 and isinstance(node.orelse[0], ast.If):
            node = node.orelse[0]
            continue
        getters = [ast.unparse(a.value) for a in node.orelse if isinstance(a, ast.Assign)
                   and ast.unparse(a.targets[0]) == 'getter']
        rows.append(('else', getters[0] if getters else 'raise'))
        break
    out.append('Definition c08_getter_selection : list (string * string) := %s.' % _coq_pairs(rows))
    # the keyword arguments handed to the selected getter: getter_kwargs[<key>] = <expr>; the dict must start empty
    # and nothing else may touch it before it is splatted into _ArrayLikeGetter
    init_kw = [n for n in gda.body if isinstance(n, ast.Assign) and ast.unparse(n.targets[0]) == 'getter_kwargs']
    if len(init_kw) != 1 or ast.unparse(init_kw[0].value) != '{}':
        raise TranslateError('%s: get_dask_array: `getter_kwargs = {}` not found' % CS)
    kws = []
    for n in ast.walk(gda):
        if isinstance(n, ast.Assign) and isinstance(n.targets[0], ast.Subscript) \
                and ast.unparse(n.targets[0].value) == 'getter_kwargs':
            key = n.targets[0].slice
            if not (isinstance(key, ast.Constant) and isinstance(key.value, str)):
                raise TranslateError('%s: get_dask_array: getter_kwargs key %s' % (CS, ast.unparse(key)))
            kws.append((key.value, ast.unparse(n.value)))
    uses = [n for n in ast.walk(gda) if isinstance(n, ast.Name) and n.id == 'getter_kwargs']
    if len(uses) != len(kws) + 2:     # the initialisation, one per key, the ** splat
        raise TranslateError('%s: get_dask_array: getter_kwargs is used in an unexpected way' % CS)
    out.append('Definition c08_getter_kwargs : list (string * string) := %s.' % _coq_pairs(kws))
    # get_chunk_or_placeholder(..., dryrun=False): `if not dryrun:` guards the read
    gp = _func(_class(tree, 'ChunkStore', CS), 'get_chunk_or_placeholder', CS)
    dflt = [ast.unparse(d) for d in gp.args.defaults]
    first = [st for st in gp.body if not (isinstance(st, ast.Expr) and isinstance(st.value, ast.Constant))][0]
    if not (gp.args.args[-1].arg == 'dryrun' and dflt[-1:] == ['False'] and isinstance(first, ast.If)
            and ast.unparse(first.test) == 'not dryrun' and not first.orelse):
        raise TranslateError('%s: get_chunk_or_placeholder: dryrun protocol not recognised' % CS)
    out.append('Definition c08_placeholder_reads_unless : string := %s.' % coq_string('dryrun'))


def _flatten(stmts, depth, out, what):
    """Statements -> one line per simple statement / compound-statement header, indented by nesting depth.
    Only for / if / else / plain statements are accepted (anything else: fail closed)."""
    for st in stmts:
        pad = '  ' * depth
        if isinstance(st, ast.For):
            if st.orelse:
                raise TranslateError('%s: for/else' % what)
            out.append('%sfor %s in %s:' % (pad, ast.unparse(st.target), ast.unparse(st.iter)))
            _flatten(st.body, depth + 1, out, what)
        elif isinstance(st, ast.If):
            out.append('%sif %s:' % (pad, ast.unparse(st.test)))
            _flatten(st.body, depth + 1, out, what)
            if st.orelse:
                out.append('%selse:' % pad)
                _flatten(st.orelse, depth + 1, out, what)
        elif isinstance(st, (ast.Assign, ast.AugAssign, ast.Expr, ast.Continue, ast.Return)):
            if isinstance(st, ast.Expr) and isinstance(st.value, ast.Constant) and isinstance(st.value.value, str):
                continue      # docstring
            line = ast.unparse(st)
            if '\n' in line:
                raise TranslateError('%s: multi-line statement %r' % (what, line[:60]))
            out.append(pad + line)
        else:
            raise TranslateError('%s: unexpected %s statement' % (what, type(st).__name__))


def item_c08_lostmap(repo, out):
    """How ChunkStoreVisFlagsWeights.__init__ decides WHERE data_lost is set for a missing chunk of another array:
    the statements from `lost_map = ...` to the `dsk = {...}` that wires _apply_data_lost into the flags graph, the
    zero-fill loop that follows, and the bodies of _apply_data_lost / _default_zero, as normalised source lines.
    The model (Model/VfwDamage.v) compares them with the lines it was written against."""
    tree = _parse(repo, VFW)
    init = _func(_class(tree, 'ChunkStoreVisFlagsWeights', VFW), '__init__', VFW)
    body = init.body

    def is_assign_to(st, name):
        return (isinstance(st, ast.Assign) and len(st.targets) == 1 and isinstance(st.targets[0], ast.Name)
                and st.targets[0].id == name)

    starts = [i for i, st in enumerate(body) if is_assign_to(st, 'lost_map')]
    if len(starts) != 1:
        raise TranslateError('%s: expected exactly one top-level `lost_map = ...` in __init__' % VFW)
    dsks = [i for i, st in enumerate(body) if is_assign_to(st, 'dsk') and i > starts[0]]
    if not dsks:
        raise TranslateError('%s: `dsk = ...` after the lost map not found' % VFW)
    # every use of lost_map must be inside the translated region
    region = body[starts[0]:dsks[0] + 1]
    inside = sum(1 for st in region for n in ast.walk(st) if isinstance(n, ast.Name) and n.id == 'lost_map')
    total = sum(1 for n in ast.walk(init) if isinstance(n, ast.Name) and n.id == 'lost_map')
    if inside != total:
        raise TranslateError('%s: lost_map is used outside the lost-map section of __init__' % VFW)
    lines = []
    _flatten(region, 0, lines, VFW + ':lost_map')
    out.append('Definition c08_lostmap_src : list string :=\n  [%s].' % ';\n   '.join(coq_string(x) for x in lines))
    # the zero-fill loop: the next `for array_name, array in darray.items()` after the flags array is replaced
    fills = [st for st in body[dsks[0] + 1:] if isinstance(st, ast.For)
             and ast.unparse(st.iter) == 'darray.items()']
    if len(fills) != 1:
        raise TranslateError('%s: expected exactly one zero-fill loop over darray.items()' % VFW)
    lines = []
    _flatten([fills[0]], 0, lines, VFW + ':fill')
    out.append('Definition c08_fill_src : list string :=\n  [%s].' % ';\n   '.join(coq_string(x) for x in lines))
    for fn in ('_apply_data_lost', '_default_zero'):
        found = [n for n in tree.body if isinstance(n, ast.FunctionDef) and n.name == fn]
        if len(found) != 1:
            raise TranslateError('%s: function %s not found' % (VFW, fn))
        lines = ['def %s(%s):' % (fn, ast.unparse(found[0].args))]
        _flatten(found[0].body, 1, lines, VFW + ':' + fn)
        out.append('Definition c08%s_src : list string :=\n  [%s].' % (fn, ';\n   '.join(coq_string(x) for x in lines)))


# ------------------------------------------------------------------------------------------------
# S3 wire level: the truncation detector of the read path, the status handling of request(), the PUT side.
# Templates ignore docstrings, comments, logging calls and the texts of exception messages; they pin classes,
# guards and statement order.

_LOG_ROOTS = ('logger', 'logging', 'log', 'warnings', '_logger', 'LOGGER')


def _is_docstring(st):
    return isinstance(st, ast.Expr) and isinstance(st.value, ast.Constant) and isinstance(st.value.value, str)


def _is_logging(st):
    if not (isinstance(st, ast.Expr) and isinstance(st.value, ast.Call)):
        return False
    f = st.value.func
    while isinstance(f, ast.Attribute):
        f = f.value
    return isinstance(f, ast.Name) and f.id in _LOG_ROOTS


def _real(body):
    """Statements that do something: no docstrings, no logging calls, no `pass`."""
    return [st for st in body if not (_is_docstring(st) or _is_logging(st) or isinstance(st, ast.Pass))]


def _norm_lines(stmts, depth, out, what):
    """Normalised source: one line per simple statement / compound header, two spaces per nesting level.
    `raise C(<anything>) [from x]` becomes `raise C(...)`; an assert loses its message; docstrings, logging calls
    and `pass` are dropped.  Unknown statement kinds fail closed."""
    for st in _real(stmts):
        pad = '  ' * depth
        if isinstance(st, ast.If):
            node, kw = st, 'if'
            while True:
                out.append('%s%s %s:' % (pad, kw, ast.unparse(node.test)))
                _norm_lines(node.body, depth + 1, out, what)
                if len(node.orelse) == 1 and isinstance(node.orelse[0], ast.If):
                    node, kw = node.orelse[0], 'elif'
                    continue
                if node.orelse:
                    out.append('%selse:' % pad)
                    _norm_lines(node.orelse, depth + 1, out, what)
                break
        elif isinstance(st, (ast.For, ast.While)):
            if st.orelse:
                raise TranslateError('%s: loop with else' % what)
            head = ('for %s in %s:' % (ast.unparse(st.target), ast.unparse(st.iter)) if isinstance(st, ast.For)
                    else 'while %s:' % ast.unparse(st.test))
            out.append(pad + head)
            _norm_lines(st.body, depth + 1, out, what)
        elif isinstance(st, ast.With):
            out.append('%swith %s:' % (pad, ', '.join(ast.unparse(i) for i in st.items)))
            _norm_lines(st.body, depth + 1, out, what)
        elif isinstance(st, ast.Try):
            out.append(pad + 'try:')
            _norm_lines(st.body, depth + 1, out, what)
            for h in st.handlers:
                out.append('%sexcept %s%s:' % (pad, ast.unparse(h.type) if h.type is not None else '',
                                               ' as ' + h.name if h.name else ''))
                _norm_lines(h.body, depth + 1, out, what)
            if st.orelse:
                out.append(pad + 'else:')
                _norm_lines(st.orelse, depth + 1, out, what)
            if st.finalbody:
                out.append(pad + 'finally:')
                _norm_lines(st.finalbody, depth + 1, out, what)
        elif isinstance(st, ast.Raise):
            if st.exc is None:
                out.append(pad + 'raise')
            elif isinstance(st.exc, ast.Call):
                out.append('%sraise %s(...)' % (pad, ast.unparse(st.exc.func)))
            else:
                out.append('%sraise %s' % (pad, ast.unparse(st.exc)))
        elif isinstance(st, ast.Assert):
            out.append('%sassert %s' % (pad, ast.unparse(st.test)))
        elif isinstance(st, (ast.Assign, ast.AugAssign, ast.AnnAssign, ast.Expr, ast.Return, ast.Continue, ast.Break)):
            line = ' '.join(ast.unparse(st).split())
            out.append(pad + line)
        else:
            raise TranslateError('%s: unexpected %s statement' % (what, type(st).__name__))


def _coq_lines(name, lines):
    return 'Definition %s : list string :=\n  [%s].' % (name, ';\n   '.join(coq_string(x) for x in lines))


def _single_raiser(body, env, what):
    """The body of a detector `if`: one statement that certainly raises -- `self._raise_incomplete_read(...)` or
    `raise <Class>(...)`."""
    body = _real(body)
    if len(body) != 1:
        raise TranslateError('%s: the guarded block is not a single raising statement' % what)
    st = body[0]
    if isinstance(st, ast.Expr) and _is_self_call(st.value, '_raise_incomplete_read'):
        return
    if isinstance(st, ast.Raise) and isinstance(st.exc, ast.Call):
        _resolve(st.exc.func, env, what)
        return
    raise TranslateError('%s: the guarded block does not raise' % what)


def _conjuncts(test):
    if isinstance(test, ast.BoolOp) and isinstance(test.op, ast.And):
        return sorted(ast.unparse(v) for v in test.values)
    return [ast.unparse(test)]


def item_c08_s3_detect(repo, out):
    """_DetectTruncation: WHEN a read of the wrapped response counts as truncated.

    read(size):     data = self._readable.read(size, ...); if <guard>: raise; return data
                    guard `data == b'' and size is not None and size > 0`                  -> "empty"
    readinto(buf):  view = memoryview(buffer); bytes_read = self._readable.readinto(view, ...);
                    if <guard>: raise; return bytes_read
                    guard `bytes_read != view.nbytes` (or `<`)                               -> "count"
    _raise_incomplete_read: no return / try, every raise is the same class, the LAST statement is an unconditional
                    raise of it.
    Any other guard (e.g. one that consults the response's own Content-Length bookkeeping) fails closed."""
    tree = _parse(repo, S3)
    env = _imports(tree, S3)
    cls = _class(tree, '_DetectTruncation', S3)
    what = '%s: _DetectTruncation' % S3
    # read
    body = _real(_func(cls, 'read', S3).body)
    ok = (len(body) == 3 and isinstance(body[0], ast.Assign) and ast.unparse(body[0].targets[0]) == 'data'
          and ast.unparse(body[0].value).startswith('self._readable.read(size')
          and isinstance(body[1], ast.If) and not body[1].orelse
          and isinstance(body[2], ast.Return) and ast.unparse(body[2].value) == 'data')
    if not ok:
        raise TranslateError('%s.read: statement shape not recognised' % what)
    conj = _conjuncts(body[1].test)
    if conj in (sorted(["data == b''", 'size is not None', 'size > 0']), sorted(['not data', 'size is not None', 'size > 0']),
                sorted(['len(data) == 0', 'size is not None', 'size > 0'])):
        rd = 'empty'
    else:
        raise TranslateError('%s.read: truncation guard not recognised: %s' % (what, ast.unparse(body[1].test)))
    _single_raiser(body[1].body, env, what + '.read')
    # readinto
    body = _real(_func(cls, 'readinto', S3).body)
    ok = (len(body) == 4 and ast.unparse(body[0]) == 'view = memoryview(buffer)'
          and isinstance(body[1], ast.Assign) and ast.unparse(body[1].targets[0]) == 'bytes_read'
          and ast.unparse(body[1].value).startswith('self._readable.readinto(view')
          and isinstance(body[2], ast.If) and not body[2].orelse
          and isinstance(body[3], ast.Return) and ast.unparse(body[3].value) == 'bytes_read')
    if not ok:
        raise TranslateError('%s.readinto: statement shape not recognised' % what)
    g = ast.unparse(body[2].test)
    if g in ('bytes_read != view.nbytes', 'view.nbytes != bytes_read', 'bytes_read < view.nbytes', 'view.nbytes > bytes_read'):
        ri = 'count'
    else:
        raise TranslateError('%s.readinto: truncation guard not recognised: %s' % (what, g))
    _single_raiser(body[2].body, env, what + '.readinto')
    # _raise_incomplete_read always raises IncompleteRead
    fn = _func(cls, '_raise_incomplete_read', S3)
    for n in ast.walk(fn):
        if isinstance(n, (ast.Return, ast.Try, ast.Yield, ast.YieldFrom)):
            raise TranslateError('%s._raise_incomplete_read: return / try / yield inside' % what)
    raises = [n for n in ast.walk(fn) if isinstance(n, ast.Raise)]
    last = _real(fn.body)[-1]
    if not (isinstance(last, ast.Raise) and isinstance(last.exc, ast.Call)):
        raise TranslateError('%s._raise_incomplete_read: does not end with an unconditional raise' % what)
    names = {(_resolve(r.exc.func, env, what) if r.exc is not None and isinstance(r.exc, ast.Call) else '?') for r in raises}
    if len(names) != 1 or '?' in names:
        raise TranslateError('%s._raise_incomplete_read: raises %s' % (what, sorted(names)))
    out.append('Definition c08_s3_read_rule : string := %s.' % coq_string(rd))
    out.append('Definition c08_s3_readinto_rule : string := %s.' % coq_string(ri))
    out.append('Definition c08_s3_incomplete_class : string := %s.' % coq_string(names.pop()))
    # read_array / _read_chunk: the statements the response-level model was written against
    for fname in ('read_array', '_read_chunk'):
        lines = []
        _norm_lines(_func(tree, fname, S3).body, 0, lines, '%s: %s' % (S3, fname))
        out.append(_coq_lines('c08_s3_%s_src' % fname.lstrip('_'), lines))
    # _request: which low-level failures of the body read are re-raised as which urllib3 class
    fn = _func(tree, '_request', S3)
    tries = [st for st in _real(fn.body) if isinstance(st, ast.Try)]
    if len(tries) != 1 or len(_real(fn.body)) != 1:
        raise TranslateError('%s: _request: body is not a single try statement' % S3)
    rows = []
    for h in tries[0].handlers:
        hb = [st for st in _real(h.body) if not isinstance(st, ast.Assign)]
        if len(hb) == 1 and isinstance(hb[0], ast.Raise) and isinstance(hb[0].exc, ast.Call):
            rows.append((_handler_names_loose(h, env), _resolve(hb[0].exc.func, env, '_request handler')))
        else:
            rows.append((_handler_names_loose(h, env), 'conditional'))
    out.append('Definition c08_s3_request_reraise : list (list string * string) := [%s].'
               % '; '.join('(%s, %s)' % (coq_strings(a), coq_string(b)) for a, b in rows))


def _handler_names_loose(h, env):
    ts = h.type.elts if isinstance(h.type, ast.Tuple) else [h.type]
    names = []
    for t in ts:
        try:
            names.append(_resolve(t, env, '_request handler'))
        except TranslateError:
            names.append(ast.unparse(t))
    return names


def _int_tuple(node, what):
    if isinstance(node, (ast.Tuple, ast.List)) and all(isinstance(e, ast.Constant) and isinstance(e.value, int)
                                                       and not isinstance(e.value, bool) for e in node.elts):
        return [e.value for e in node.elts]
    raise TranslateError('%s: expected a tuple of integer literals, got %s' % (what, ast.unparse(node)[:60]))


def _coq_Zs(l):
    return '[' + '; '.join('(%d)%%Z' % v for v in l) + ']'


def item_c08_s3_status(repo, out):
    """_raise_for_status(response, chunk_name, ignored_errors): which statuses raise what.

        status = response.status_code
        if LO <= status < HI and status not in ignored_errors:
            <statements that only build the message text: ignored>
            if status in (..): raise A(msg) elif status == N: raise B(msg) else: raise C(msg)

    plus the status force list of the store's Retry object (_DEFAULT_SERVER_GLITCHES) and request()'s body."""
    tree = _parse(repo, S3)
    env = _imports(tree, S3)
    fn = _func(tree, '_raise_for_status', S3)
    what = '%s: _raise_for_status' % S3
    if [a.arg for a in fn.args.args] != ['response', 'chunk_name', 'ignored_errors']:
        raise TranslateError('%s: parameters changed' % what)
    body = _real(fn.body)
    if not (len(body) == 2 and ast.unparse(body[0]) == 'status = response.status_code' and isinstance(body[1], ast.If)
            and not body[1].orelse):
        raise TranslateError('%s: expected `status = response.status_code` and one if statement' % what)
    test = body[1].test
    if not (isinstance(test, ast.BoolOp) and isinstance(test.op, ast.And) and len(test.values) == 2):
        raise TranslateError('%s: guard is not `LO <= status < HI and status not in ignored_errors`' % what)
    rng, ign = test.values
    if ast.unparse(ign) != 'status not in ignored_errors':
        rng, ign = ign, rng
    if not (ast.unparse(ign) == 'status not in ignored_errors' and isinstance(rng, ast.Compare) and len(rng.ops) == 2
            and isinstance(rng.ops[0], ast.LtE) and isinstance(rng.ops[1], ast.Lt)
            and isinstance(rng.left, ast.Constant) and isinstance(rng.left.value, int)
            and ast.unparse(rng.comparators[0]) == 'status'
            and isinstance(rng.comparators[1], ast.Constant) and isinstance(rng.comparators[1].value, int)):
        raise TranslateError('%s: guard is not `LO <= status < HI and status not in ignored_errors`: %s' % (what, ast.unparse(test)))
    lo, hi = rng.left.value, rng.comparators[1].value
    # inside: message construction (assignments to other names, ifs made of such assignments) then ONE raising chain
    protected = {'status', 'ignored_errors', 'response', 'chunk_name'}

    def only_message(st):
        if isinstance(st, (ast.Assign, ast.AugAssign)):
            tg = st.targets if isinstance(st, ast.Assign) else [st.target]
            return all(isinstance(t, ast.Name) and t.id not in protected for t in tg)
        if isinstance(st, ast.If):
            return all(only_message(x) for x in _real(st.body) + _real(st.orelse))
        return False
    inner = [st for st in _real(body[1].body) if not only_message(st)]
    if len(inner) != 1 or not isinstance(inner[0], ast.If) or inner[0] is not _real(body[1].body)[-1]:
        raise TranslateError('%s: expected message construction followed by one if/elif/else chain of raises' % what)
    rows = []
    node = inner[0]
    other = None
    while True:
        t = node.test
        if (isinstance(t, ast.Compare) and len(t.ops) == 1 and ast.unparse(t.left) == 'status'
                and isinstance(t.ops[0], ast.In)):
            codes_ = _int_tuple(t.comparators[0], what)
        elif (isinstance(t, ast.Compare) and len(t.ops) == 1 and ast.unparse(t.left) == 'status'
              and isinstance(t.ops[0], ast.Eq) and isinstance(t.comparators[0], ast.Constant)
              and isinstance(t.comparators[0].value, int)):
            codes_ = [t.comparators[0].value]
        else:
            raise TranslateError('%s: unknown test %s' % (what, ast.unparse(t)))

        def leaf(stmts):
            stmts = _real(stmts)
            if len(stmts) == 1 and isinstance(stmts[0], ast.Raise) and isinstance(stmts[0].exc, ast.Call):
                return _resolve(stmts[0].exc.func, env, what)
            raise TranslateError('%s: a branch of the chain is not a single `raise Class(...)`' % what)
        rows.append((codes_, leaf(node.body)))
        if len(node.orelse) == 1 and isinstance(node.orelse[0], ast.If):
            node = node.orelse[0]
            continue
        if not node.orelse:
            raise TranslateError('%s: the chain has no else branch (some error statuses would not raise)' % what)
        other = leaf(node.orelse)
        break
    out.append('Definition c08_s3_status_range : Z * Z := ((%d)%%Z, (%d)%%Z).' % (lo, hi))
    out.append('Definition c08_s3_status_rows : list (list Z * string) := [%s].'
               % '; '.join('(%s, %s)' % (_coq_Zs(c), coq_string(k)) for c, k in rows))
    out.append('Definition c08_s3_status_else : string := %s.' % coq_string(other))
    # the force list
    from vh.translate import _module_assign
    gl = _int_tuple(_module_assign(tree, '_DEFAULT_SERVER_GLITCHES', S3), '_DEFAULT_SERVER_GLITCHES')
    init = _func(_class(tree, 'S3ChunkStore', S3), '__init__', S3)
    kws = [ast.unparse(k.value) for n in ast.walk(init) if isinstance(n, ast.Call) and ast.unparse(n.func) == '_retry_object'
           for k in n.keywords if k.arg == 'status_forcelist']
    if kws != ['_DEFAULT_SERVER_GLITCHES']:
        raise TranslateError('%s: S3ChunkStore.__init__: status_forcelist of the default Retry object not recognised' % S3)
    out.append('Definition c08_s3_glitches : list Z := %s.' % _coq_Zs(gl))
    # request(): statements
    lines = []
    _norm_lines(_func(_class(tree, 'S3ChunkStore', S3), 'request', S3).body, 0, lines, '%s: request' % S3)
    out.append(_coq_lines('c08_s3_request_src', lines))


def item_c08_s3_put(repo, out):
    """The PUT side of S3ChunkStore: put_chunk, mark_complete, create_array, _create_bucket as normalised statements,
    and for each the (method, ignored_errors) of its unconditional self.request calls in order."""
    tree = _parse(repo, S3)
    cls = _class(tree, 'S3ChunkStore', S3)
    rows = []
    for name in ('put_chunk', 'mark_complete', 'create_array', '_create_bucket'):
        fn = _func(cls, name, S3)
        lines = []
        _norm_lines(fn.body, 0, lines, '%s: %s' % (S3, name))
        out.append(_coq_lines('c08_s3_%s_src' % name.lstrip('_'), lines))
        calls = []
        for st in _real(fn.body):
            for n in ast.walk(st):
                if isinstance(n, (ast.Try, ast.Lambda, ast.FunctionDef)):
                    raise TranslateError('%s: %s: try / nested function around the requests' % (S3, name))
            if isinstance(st, ast.If):
                continue            # optional extras (bucket policy, expiry): off by default, not modelled
            for n in ast.walk(st):
                if _is_self_call(n, 'request'):
                    if not (isinstance(st, ast.Expr) and st.value is n):
                        raise TranslateError('%s: %s: a request is not a plain statement' % (S3, name))
                    if not (n.args and isinstance(n.args[0], ast.Constant)):
                        raise TranslateError('%s: %s: request method is not a literal' % (S3, name))
                    ign = [k.value for k in n.keywords if k.arg == 'ignored_errors']
                    if any(k.arg is None for k in n.keywords) or len(n.args) > 2:
                        raise TranslateError('%s: %s: request called with * / ** arguments' % (S3, name))
                    calls.append((n.args[0].value, _int_tuple(ign[0], name) if ign else []))
        rows.append((name, calls))
    out.append('Definition c08_s3_put_requests : list (string * list (string * list Z)) := [%s].'
               % '; '.join('(%s, [%s])' % (coq_string(nm), '; '.join('(%s, %s)' % (coq_string(m), _coq_Zs(i)) for m, i in cs))
                           for nm, cs in rows))
    # ChunkStore.put_dask_array maps _put_map_blocks over the blocks; _put_map_blocks stores with put_chunk_noraise
    tree = _parse(repo, CS)
    lines = []
    _norm_lines(_func(tree, '_put_map_blocks', CS).body, 0, lines, '%s: _put_map_blocks' % CS)
    out.append(_coq_lines('c08_put_map_blocks_src', lines))
    pda = _func(_class(tree, 'ChunkStore', CS), 'put_dask_array', CS)
    rets = [st for st in _real(pda.body) if isinstance(st, ast.Return)]
    if not (len(rets) == 1 and isinstance(rets[0].value, ast.Call) and ast.unparse(rets[0].value.func) == 'da.map_blocks'
            and rets[0].value.args and ast.unparse(rets[0].value.args[0]) == '_put_map_blocks'
            and [ast.unparse(k.value) for k in rets[0].value.keywords if k.arg == 'store'] == ['self']):
        raise TranslateError('%s: put_dask_array does not return da.map_blocks(_put_map_blocks, ..., store=self)' % CS)
    out.append('Definition c08_put_dask_array_maps : string := %s.' % coq_string('_put_map_blocks'))


ITEMS = [item_c08_error_maps, item_c08_classes, item_c08_absorb, item_c08_npy_protocol, item_c08_checks, item_c08_lostmap,
         item_c08_s3_detect, item_c08_s3_status, item_c08_s3_put]
