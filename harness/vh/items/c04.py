"""C04 has no translator items: its theorems mention no constant, table or decision expression of /repo;
the hand-written models of lazy_indexer.py are tied by the behavioural correspondence (harness/props/c04.py),
including direct differentials of _range_to_slice and _simplify_index."""
ITEMS = []
