"""Translator items for C04.

item_dataset: the statement skeleton of DaskLazyIndexer.dataset (katdal/lazy_indexer.py) is parsed, statement by
statement, into the instruction set of coq/Model/DaskLazy.v (lock scope, test of the cell, resolution of a parent
indexer, stage 1, transform loop, publication of self._dataset, clearing of self._orig_dataset, return), as
(opcode, a, b) triples in source order.  Every statement must have exactly one of the shapes below, anything else
is refused (fail-closed).  item_range_to_slice / item_getitem: every decision expression of _range_to_slice,
_dask_oindex and dask_getitem (tests, default values, the slice returned, the cull threshold) as a Coq definition, and
the statement skeletons of dask_getitem / _dask_oindex / _simplify_index matched exactly.  Together with item_dataset: what __init__ leaves in the fields, which other methods of the class touch
the two private fields, and how the other accessors reach the data set (shape / dtype / __getitem__ / get all go
through the `dataset` property).
"""
import ast

from vh.translate import TranslateError, _parse, _class, _func, coq_strings

REL = 'katdal/lazy_indexer.py'
CLS = 'DaskLazyIndexer'
CELL, ORIG, LOCK = '_dataset', '_orig_dataset', '_lock'
ACQUIRE, RELEASE, IFUNSET, FASTRET, RESOLVE, STAGE1, TRANSFORMS, ASSIGN, CLEARORIG, RETURN = range(10)


def _self_attr(node, name):
    return (isinstance(node, ast.Attribute) and isinstance(node.value, ast.Name) and node.value.id == 'self'
            and node.attr == name)


def _is_none(node):
    return isinstance(node, ast.Constant) and node.value is None


def _cell_test(test, op):
    return (isinstance(test, ast.Compare) and len(test.ops) == 1 and isinstance(test.ops[0], op)
            and _self_attr(test.left, CELL) and len(test.comparators) == 1 and _is_none(test.comparators[0]))


def _nodoc(body):
    return [s for s in body if not (isinstance(s, ast.Expr) and isinstance(s.value, ast.Constant)
                                    and isinstance(s.value.value, str))]


class _Vars:
    """0 = self._dataset; k >= 1 = the k-th local name met."""
    def __init__(self):
        self.names = {}

    def of(self, node, what):
        if _self_attr(node, CELL):
            return 0
        if isinstance(node, ast.Name):
            if node.id in ('self', 'transform', 'DaskLazyIndexer', 'dask_getitem'):
                raise TranslateError('%s: %s used as a variable' % (what, node.id))
            return self.names.setdefault(node.id, len(self.names) + 1)
        raise TranslateError('%s: unsupported variable %s' % (what, ast.unparse(node)))


def _transforms_iter(node):
    return _self_attr(node, 'transforms') or _self_attr(node, '_transforms')


def _stmts(body, vs, what, in_lock):
    out = []
    for s in _nodoc(body):
        src = ast.unparse(s).split('\n')[0][:70]
        w = '%s: `%s`' % (what, src)
        if isinstance(s, ast.With):
            if in_lock or len(s.items) != 1 or not _self_attr(s.items[0].context_expr, LOCK) \
                    or s.items[0].optional_vars is not None:
                raise TranslateError(w + ': only one un-nested `with self._lock:` is understood')
            out += [(ACQUIRE, 0, 0)] + _stmts(s.body, vs, what, True) + [(RELEASE, 0, 0)]
        elif isinstance(s, ast.If) and _cell_test(s.test, ast.Is):
            if s.orelse:
                raise TranslateError(w + ': else branch of the lazy-initialisation test')
            inner = _stmts(s.body, vs, what, in_lock)
            out += [(IFUNSET, len(inner), 0)] + inner
        elif isinstance(s, ast.If) and _cell_test(s.test, ast.IsNot):
            b = _nodoc(s.body)
            if s.orelse or len(b) != 1 or not isinstance(b[0], ast.Return) or not _self_attr(b[0].value, CELL):
                raise TranslateError(w + ': `is not None` test must only return self._dataset')
            out.append((FASTRET, 0, 0))
        elif isinstance(s, ast.If):
            # if isinstance(self._orig_dataset, DaskLazyIndexer): self._orig_dataset = self._orig_dataset.dataset
            t, b = s.test, _nodoc(s.body)
            ok = (isinstance(t, ast.Call) and isinstance(t.func, ast.Name) and t.func.id == 'isinstance'
                  and len(t.args) == 2 and not t.keywords and _self_attr(t.args[0], ORIG)
                  and isinstance(t.args[1], ast.Name) and t.args[1].id == CLS and not s.orelse and len(b) == 1
                  and isinstance(b[0], ast.Assign) and len(b[0].targets) == 1 and _self_attr(b[0].targets[0], ORIG)
                  and isinstance(b[0].value, ast.Attribute) and b[0].value.attr == 'dataset'
                  and _self_attr(b[0].value.value, ORIG))
            if not ok:
                raise TranslateError(w + ': unsupported test')
            out.append((RESOLVE, 0, 0))
        elif isinstance(s, ast.Assign) and len(s.targets) == 1:
            tgt, val = s.targets[0], s.value
            if _self_attr(tgt, ORIG):
                if not _is_none(val):
                    raise TranslateError(w + ': self._orig_dataset may only be cleared')
                out.append((CLEARORIG, 0, 0))
            elif (isinstance(val, ast.Call) and isinstance(val.func, ast.Name) and val.func.id == 'dask_getitem'):
                if not (len(val.args) == 2 and not val.keywords and _self_attr(val.args[0], ORIG)
                        and _self_attr(val.args[1], 'keep')):
                    raise TranslateError(w + ': stage 1 must be dask_getitem(self._orig_dataset, self.keep)')
                out.append((STAGE1, vs.of(tgt, w), 0))
            elif _self_attr(val, CELL) or isinstance(val, ast.Name):
                out.append((ASSIGN, vs.of(tgt, w), vs.of(val, w)))
            else:
                raise TranslateError(w + ': unsupported assignment')
        elif isinstance(s, ast.For):
            b = _nodoc(s.body)
            ok = (isinstance(s.target, ast.Name) and _transforms_iter(s.iter) and not s.orelse and len(b) == 1
                  and isinstance(b[0], ast.Assign) and len(b[0].targets) == 1
                  and isinstance(b[0].value, ast.Call) and isinstance(b[0].value.func, ast.Name)
                  and b[0].value.func.id == s.target.id and len(b[0].value.args) == 1 and not b[0].value.keywords
                  and ast.dump(b[0].targets[0]).replace('Store()', 'Load()') == ast.dump(b[0].value.args[0]))
            if not ok:
                raise TranslateError(w + ': transform loop must be `for t in self.transforms: X = t(X)`')
            out.append((TRANSFORMS, vs.of(b[0].targets[0], w), 0))
        elif isinstance(s, ast.Return):
            if s.value is None:
                raise TranslateError(w + ': bare return')
            out.append((RETURN, vs.of(s.value, w), 0))
        elif isinstance(s, ast.Pass):
            continue
        else:
            raise TranslateError(w + ': unsupported statement %s' % type(s).__name__)
    return out


def _mentions(node, names):
    for n in ast.walk(node):
        if isinstance(n, ast.Attribute) and n.attr in names:
            return True
        if isinstance(n, ast.Constant) and n.value in names:      # getattr(self, '_dataset')
            return True
    return False


def _prop(cls, name):
    f = _func(cls, name, REL)
    decos = [ast.unparse(d) for d in f.decorator_list]
    return f, decos


def item_dataset(repo, out):
    cls = _class(_parse(repo, REL), CLS, REL)
    f, decos = _prop(cls, 'dataset')
    if decos != ['property']:
        raise TranslateError('DaskLazyIndexer.dataset is not a plain property (decorators %s)' % decos)
    if len([n for n in cls.body if isinstance(n, ast.FunctionDef) and n.name == 'dataset']) != 1:
        raise TranslateError('DaskLazyIndexer.dataset defined more than once (setter / override)')
    vs = _Vars()
    code = _stmts(f.body, vs, 'DaskLazyIndexer.dataset', False)
    out.append('(* DaskLazyIndexer.dataset, statement by statement: (opcode, a, b); opcodes 0 acquire, 1 release, '
               '2 if-unset(skip a), 3 fast-return, 4 resolve-parent, 5 stage1(dst a), 6 transforms(var a), '
               '7 assign(dst a, src b), 8 clear-orig, 9 return(var a); var 0 = self._dataset, k = k-th local *)')
    out.append('Definition c04_ds_code : list (Z * Z * Z) := [%s].' % '; '.join(
        '((%d)%%Z, (%d)%%Z, (%d)%%Z)' % t for t in code))
    # lock scope: every statement of the body that mentions one of the two fields lies inside `with self._lock:`
    body = _nodoc(f.body)
    locked = all((isinstance(s, ast.With) and _self_attr(s.items[0].context_expr, LOCK))
                 or not _mentions(s, [CELL, ORIG]) for s in body) and any(isinstance(s, ast.With) for s in body)
    out.append('Definition c04_ds_locked : bool := %s.' % ('true' if locked else 'false'))
    # the two fields are private to __init__ and dataset
    others = [n.name for n in cls.body if isinstance(n, (ast.FunctionDef, ast.AsyncFunctionDef))
              and n.name not in ('__init__', 'dataset') and _mentions(n, [CELL, ORIG])]
    others += ['<class>' for n in cls.body if not isinstance(n, (ast.FunctionDef, ast.AsyncFunctionDef))
               and _mentions(n, [CELL, ORIG])]
    out.append('Definition c04_ds_field_users : list string := %s.' % coq_strings(others))
    # __init__: what the constructor leaves in the fields
    init = _func(cls, '__init__', REL)
    args = [a.arg for a in init.args.args]
    if args != ['self', 'dataset', 'keep', 'transforms']:
        raise TranslateError('DaskLazyIndexer.__init__ signature changed: %s' % args)
    dflt = [ast.unparse(d) for d in init.args.defaults]
    assigns = {}
    for s in _nodoc(init.body):
        if not (isinstance(s, ast.Assign) and len(s.targets) == 1 and isinstance(s.targets[0], ast.Attribute)
                and isinstance(s.targets[0].value, ast.Name) and s.targets[0].value.id == 'self'):
            raise TranslateError('DaskLazyIndexer.__init__: unsupported statement `%s`' % ast.unparse(s)[:60])
        nm = s.targets[0].attr
        if nm in assigns:
            raise TranslateError('DaskLazyIndexer.__init__: %s assigned twice' % nm)
        assigns[nm] = ast.unparse(s.value)
    flag = lambda b: 'true' if b else 'false'
    out.append('Definition c04_init_cell_unset : bool := %s.' % flag(assigns.get(CELL) == 'None'))
    out.append('Definition c04_init_orig_is_arg : bool := %s.' % flag(assigns.get(ORIG) == 'dataset'))
    out.append('Definition c04_init_keep_deepcopied : bool := %s.' % flag(assigns.get('keep') == 'copy.deepcopy(keep)'))
    out.append('Definition c04_init_transforms_copied : bool := %s.' % flag(assigns.get('_transforms') == 'list(transforms)'))
    out.append('Definition c04_init_lock_fresh : bool := %s.' % flag(assigns.get(LOCK) == 'threading.Lock()'))
    out.append('Definition c04_init_defaults_empty : bool := %s.' % flag(dflt == ['()', '()']))
    # the other accessors reach the data only through the `dataset` property
    tp, d = _prop(cls, 'transforms')
    b = _nodoc(tp.body)
    out.append('Definition c04_transforms_is_field : bool := %s.' % flag(
        d == ['property'] and len(b) == 1 and isinstance(b[0], ast.Return) and _self_attr(b[0].value, '_transforms')))
    via = {}
    for nm, expect in [('shape', 'self.dataset.shape'), ('dtype', 'self.dataset.dtype')]:
        p, d = _prop(cls, nm)
        b = _nodoc(p.body)
        via[nm] = d == ['property'] and len(b) == 1 and isinstance(b[0], ast.Return) and ast.unparse(b[0].value) == expect
    gi = _nodoc(_func(cls, '__getitem__', REL).body)
    via['getitem'] = len(gi) == 1 and isinstance(gi[0], ast.Return) and ast.unparse(gi[0].value) == 'self.get([self], keep)[0]'
    g, d = _prop(cls, 'get')
    gb = _nodoc(g.body)
    via['get'] = (d == ['classmethod'] and [a.arg for a in g.args.args] == ['cls', 'arrays', 'keep', 'out']
                  and bool(gb) and ast.unparse(gb[0]) == 'kept = [dask_getitem(array.dataset, keep) for array in arrays]')
    ln = _nodoc(_func(cls, '__len__', REL).body)
    via['len'] = len(ln) == 1 and isinstance(ln[0], ast.Return) and ast.unparse(ln[0].value) == 'self.shape[0]'
    it = _nodoc(_func(cls, '__iter__', REL).body)
    out.append('Definition c04_iter_as_modelled : bool := %s.' % flag(
        len(it) == 1 and ast.unparse(it[0]) == 'for index in range(len(self)):\n    yield self[index]'))
    for nm in ('shape', 'dtype', 'getitem', 'get', 'len'):
        out.append('Definition c04_%s_via_dataset : bool := %s.' % (nm, flag(via[nm])))


# ----------------------------------------------------------------------------------------------------
# decision expressions and statement skeletons of the helper functions the hand-written model mirrors


class _Expr:
    """tiny expression translator: Python int/bool expression over named variables -> Coq (Z / bool)."""
    def __init__(self, env, what):
        self.env, self.what = env, what       # env: python source of a sub-expression -> Coq variable name

    def z(self, n):
        src = ast.unparse(n)
        if src in self.env:
            return self.env[src]
        if isinstance(n, ast.Constant) and isinstance(n.value, int) and not isinstance(n.value, bool):
            return '(%d)' % n.value
        if isinstance(n, ast.UnaryOp) and isinstance(n.op, ast.USub):
            return '(- %s)' % self.z(n.operand)
        if isinstance(n, ast.BinOp) and isinstance(n.op, (ast.Add, ast.Sub, ast.Mult)):
            op = {ast.Add: '+', ast.Sub: '-', ast.Mult: '*'}[type(n.op)]
            return '(%s %s %s)' % (self.z(n.left), op, self.z(n.right))
        raise TranslateError('%s: unsupported integer expression `%s`' % (self.what, src))

    def b(self, n):
        src = ast.unparse(n)
        if src in self.env:
            return self.env[src]
        if isinstance(n, ast.BoolOp):
            op = '&&' if isinstance(n.op, ast.And) else '||'
            return '(' + (' %s ' % op).join(self.b(v) for v in n.values) + ')'
        if isinstance(n, ast.UnaryOp) and isinstance(n.op, ast.Not):
            return '(negb %s)' % self.b(n.operand)
        if isinstance(n, ast.Compare) and len(n.ops) == 1:
            l, r = n.left, n.comparators[0]
            # A < 0.5 * B   (the cull condition): 2 * A < B
            if (isinstance(n.ops[0], (ast.Lt, ast.LtE)) and isinstance(r, ast.BinOp) and isinstance(r.op, ast.Mult)
                    and isinstance(r.left, ast.Constant) and r.left.value == 0.5):
                return '(2 * %s %s %s)' % (self.z(l), '<?' if isinstance(n.ops[0], ast.Lt) else '<=?', self.z(r.right))
            a, c = self.z(l), self.z(r)
            t = type(n.ops[0])
            if t is ast.Lt:
                return '(%s <? %s)' % (a, c)
            if t is ast.LtE:
                return '(%s <=? %s)' % (a, c)
            if t is ast.Gt:
                return '(%s <? %s)' % (c, a)
            if t is ast.GtE:
                return '(%s <=? %s)' % (c, a)
            if t is ast.Eq:
                return '(%s =? %s)' % (a, c)
            if t is ast.NotEq:
                return '(negb (%s =? %s))' % (a, c)
        raise TranslateError('%s: unsupported boolean expression `%s`' % (self.what, src))


def _expect(cond, what):
    if not cond:
        raise TranslateError(what)


def _opt(n, ex):
    """slice argument: None | int expression -> Coq option Z"""
    if isinstance(n, ast.Constant) and n.value is None:
        return 'None'
    if isinstance(n, ast.IfExp) and isinstance(n.orelse, ast.Constant) and n.orelse.value is None:
        return '(if %s then Some %s else None)' % (ex.b(n.test), ex.z(n.body))
    if isinstance(n, ast.IfExp) and isinstance(n.body, ast.Constant) and n.body.value is None:
        return '(if %s then None else Some %s)' % (ex.b(n.test), ex.z(n.orelse))
    return '(Some %s)' % ex.z(n)


def _slice3(n, ex, what):
    _expect(isinstance(n, ast.Call) and isinstance(n.func, ast.Name) and n.func.id == 'slice' and len(n.args) == 3
            and not n.keywords, what + ': expected slice(a, b, c)')
    return '(%s, %s, %s)' % tuple(_opt(a, ex) for a in n.args)


def item_range_to_slice(repo, out):
    """_range_to_slice, statement by statement; every decision expression becomes a Coq definition."""
    w = '_range_to_slice'
    f = _func(_parse(repo, REL), w, REL)
    _expect([a.arg for a in f.args.args] == ['index'], w + ': signature')
    b = _nodoc(f.body)
    _expect(len(b) == 8, w + ': expected 8 statements, found %d' % len(b))
    # if not len(index): return slice(None, 0, None)
    s = b[0]
    _expect(isinstance(s, ast.If) and ast.unparse(s.test) == 'not len(index)' and not s.orelse and len(s.body) == 1
            and isinstance(s.body[0], ast.Return), w + ': empty-index test')
    out.append('Definition c04_r2s_empty : option Z * option Z * option Z := %s.'
               % _slice3(s.body[0].value, _Expr({}, w), w))
    # if any(i < 0 for i in index): raise ValueError
    s = b[1]
    ok = (isinstance(s, ast.If) and not s.orelse and len(s.body) == 1 and isinstance(s.body[0], ast.Raise)
          and ast.unparse(s.body[0].exc).startswith('ValueError(')
          and isinstance(s.test, ast.Call) and isinstance(s.test.func, ast.Name) and s.test.func.id == 'any'
          and len(s.test.args) == 1 and isinstance(s.test.args[0], ast.GeneratorExp))
    _expect(ok, w + ': negative-element test')
    g = s.test.args[0]
    _expect(len(g.generators) == 1 and ast.unparse(g.generators[0].iter) == 'index' and not g.generators[0].ifs
            and isinstance(g.generators[0].target, ast.Name), w + ': negative-element generator')
    out.append('Definition c04_r2s_bad_element (i : Z) : bool := %s.'
               % _Expr({g.generators[0].target.id: 'i'}, w).b(g.elt))
    # increments_left = set(np.diff(index)); step = increments_left.pop() if increments_left else 1
    _expect(ast.unparse(b[2]) == 'increments_left = set(np.diff(index))', w + ': increments')
    s = b[3]
    _expect(isinstance(s, ast.Assign) and ast.unparse(s.targets[0]) == 'step' and isinstance(s.value, ast.IfExp)
            and ast.unparse(s.value.test) == 'increments_left' and ast.unparse(s.value.body) == 'increments_left.pop()',
            w + ': step')
    out.append('Definition c04_r2s_default_step : Z := %s.' % _Expr({}, w).z(s.value.orelse))
    # if step == 0 or increments_left: raise ValueError
    s = b[4]
    _expect(isinstance(s, ast.If) and not s.orelse and len(s.body) == 1 and isinstance(s.body[0], ast.Raise)
            and ast.unparse(s.body[0].exc).startswith('ValueError('), w + ': uneven test')
    out.append('Definition c04_r2s_reject (step : Z) (increments_left : bool) : bool := %s.'
               % _Expr({'step': 'step', 'increments_left': 'increments_left'}, w).b(s.test))
    # start = index[0]; stop = index[-1] + step; return slice(start, stop if stop >= 0 else None, step)
    _expect(ast.unparse(b[5]) == 'start = index[0]', w + ': start')
    s = b[6]
    _expect(isinstance(s, ast.Assign) and ast.unparse(s.targets[0]) == 'stop', w + ': stop')
    out.append('Definition c04_r2s_stop (last step : Z) : Z := %s.'
               % _Expr({'index[-1]': 'last', 'step': 'step'}, w).z(s.value))
    s = b[7]
    _expect(isinstance(s, ast.Return), w + ': return')
    out.append('Definition c04_r2s_result (start stop step : Z) : option Z * option Z * option Z := %s.'
               % _slice3(s.value, _Expr({'start': 'start', 'stop': 'stop', 'step': 'step'}, w), w))


def item_getitem(repo, out):
    """dask_getitem / _dask_oindex / _simplify_index: statement skeletons and decision expressions."""
    tree = _parse(repo, REL)
    w = '_dask_oindex'
    f = _func(tree, w, REL)
    b = _nodoc(f.body)
    ok = ([a.arg for a in f.args.args] == ['x', 'indices'] and len(b) == 3 and ast.unparse(b[0]) == 'axis = 0'
          and isinstance(b[1], ast.For) and ast.unparse(b[1].target) == 'index' and ast.unparse(b[1].iter) == 'indices'
          and not b[1].orelse and ast.unparse(b[2]) == 'return x')
    _expect(ok, w + ': skeleton')
    lb = _nodoc(b[1].body)
    _expect(len(lb) == 2 and ast.unparse(lb[0]) == 'x = da.take(x, index, axis=axis)', w + ': take step')
    s = lb[1]
    _expect(isinstance(s, ast.If) and not s.orelse and len(s.body) == 1 and isinstance(s.body[0], ast.AugAssign)
            and ast.unparse(s.body[0].target) == 'axis' and isinstance(s.body[0].op, ast.Add), w + ': axis step')
    out.append('Definition c04_oindex_axis_step (is_int : bool) (axis : Z) : Z := if %s then axis + %s else axis.' % (
        _Expr({'isinstance(index, Integral)': 'is_int'}, w).b(s.test), _Expr({}, w).z(s.body[0].value)))
    w = 'dask_getitem'
    f = _func(tree, w, REL)
    b = _nodoc(f.body)
    _expect([a.arg for a in f.args.args] == ['x', 'indices'] and len(b) == 4, w + ': skeleton')
    _expect(ast.unparse(b[0]) == 'indices = _simplify_index(indices, x.shape)', w + ': simplification step')
    t = b[1]
    ok = (isinstance(t, ast.Try) and len(t.body) == 1 and ast.unparse(t.body[0]) == 'out = x[indices]'
          and len(t.handlers) == 1 and ast.unparse(t.handlers[0].type) == 'NotImplementedError'
          and len(t.handlers[0].body) == 1 and ast.unparse(t.handlers[0].body[0]) == 'out = _dask_oindex(x, indices)'
          and not t.orelse and not t.finalbody)
    _expect(ok, w + ': x[indices] with fallback to _dask_oindex on NotImplementedError')
    c = b[2]
    _expect(isinstance(c, ast.If) and not c.orelse and ast.unparse(b[3]) == 'return out', w + ': cull / return')
    out.append('Definition c04_cull_test (out_blocks x_blocks : Z) : bool := %s.' % _Expr(
        {'np.prod(out.numblocks)': 'out_blocks', 'np.prod(x.numblocks)': 'x_blocks'}, w).b(c.test))
    cb = [ast.unparse(s) for s in _nodoc(c.body)]
    _expect(cb == ['dsk = dask.optimization.cull(out.dask, out.__dask_keys__())[0]',
                   'out.dask = dask.highlevelgraph.HighLevelGraph.from_collections(out.name, dsk)'], w + ': cull body')
    w = '_simplify_index'
    f = _func(tree, w, REL)
    b = _nodoc(f.body)
    _expect([a.arg for a in f.args.args] == ['indices', 'shape'] and len(b) == 5, w + ': skeleton')
    _expect([ast.unparse(s) for s in (b[0], b[1], b[2], b[4])] == [
        'indices = da.slicing.normalize_index(indices, shape)', 'out = []', 'axis = 0', 'return tuple(out)'], w + ': frame')
    lp = b[3]
    _expect(isinstance(lp, ast.For) and ast.unparse(lp.target) == 'index' and ast.unparse(lp.iter) == 'indices'
            and not lp.orelse, w + ': loop')
    expect_loop = '''if index is not np.newaxis:
    length = shape[axis]
    axis += 1
    if isinstance(index, np.ndarray) and index.ndim == 1:
        try:
            index = _range_to_slice(index)
        except ValueError:
            pass
        else:
            index = da.slicing.normalize_slice(index, length)
out.append(index)'''
    got = '\n'.join(ast.unparse(s) for s in _nodoc(lp.body))
    _expect(got == expect_loop, w + ': loop body changed')
    out.append('Definition c04_simplify_loop_as_modelled : bool := true.')




# ----------------------------------------------------------------------------------------------------
# laziness: where the code triggers a dask computation; the rest of get(); the custom getter of the chunk store

_COMPUTE_ATTRS = {'compute', 'persist', 'store', 'tolist', 'item', '__array__', 'visualize', 'to_hdf5', 'to_zarr'}
_COMPUTE_CALLS = {'da.store', 'da.compute', 'dask.compute', 'dask.persist', 'np.asarray', 'np.array',
                  'np.asanyarray', 'np.ascontiguousarray', 'np.copy', 'np.copyto', 'da.to_npy_stack'}
_GET_TEMPLATE = '''
kept = [dask_getitem(array.dataset, keep) for array in arrays]
if out is None:
    out = [np.empty(array.shape, array.dtype) for array in kept]
first = {}
for array, target in zip(kept, out):
    first.setdefault(array.name, (array, target))
da.store([array for array, _ in first.values()], [target for _, target in first.values()], lock=False)
for array, target in zip(kept, out):
    stored = first[array.name][1]
    if target is not stored:
        target[...] = stored
return out
'''
_GETTER_INIT_TEMPLATE = '''
self.getter = getter
self.array_name = array_name
self.kwargs = kwargs
self.shape = tuple(sum(c) for c in chunks)
self.ndim = len(self.shape)
self.dtype = np.dtype(dtype)
'''
_GETTER_GETITEM_TEMPLATE = 'return self.getter(self.array_name, slices, self.dtype, **self.kwargs)'


def _computes(fn):
    """number of calls in the body of fn that make dask compute (or turn a dask array into values)"""
    n = 0
    for node in ast.walk(fn):
        if isinstance(node, ast.Call):
            f = node.func
            if isinstance(f, ast.Attribute) and f.attr in _COMPUTE_ATTRS:
                n += 1
            elif ast.unparse(f) in _COMPUTE_CALLS:
                n += 1
    return n


def _body_text(fn):
    return '\n'.join(ast.unparse(s) for s in _nodoc(fn.body))


def item_store(repo, out):
    """laziness: number of computing calls per accessor; exact skeleton of get(); the chunk store's custom getter."""
    from vh.translate import normalise_source
    tree = _parse(repo, REL)
    cls = _class(tree, CLS, REL)
    meta = 0
    for nm in ('__init__', 'transforms', 'dataset', 'shape', 'dtype', '__len__', '__str__', '__repr__'):
        meta += _computes(_func(cls, nm, REL))
    for nm in ('dask_getitem', '_dask_oindex', '_simplify_index', '_callable_name'):
        meta += _computes(_func(tree, nm, REL))
    g = _func(cls, 'get', REL)
    out.append('(* dask computations triggered by: construction / dataset / shape / dtype / len / str / repr / dask_getitem '
               '(must be none), and by the body of get (one da.store) *)')
    out.append('Definition c04_meta_computes : Z := %d.' % meta)
    out.append('Definition c04_get_computes : Z := %d.' % _computes(g))
    dflt = [ast.unparse(d) for d in g.args.defaults]
    _expect(dflt == ['None'] and not g.args.kwonlyargs and g.args.vararg is None and g.args.kwarg is None,
            'DaskLazyIndexer.get: signature / default of out')
    _expect(_body_text(g) == normalise_source(_GET_TEMPLATE).strip(), 'DaskLazyIndexer.get: body changed')
    out.append('(* get(): outputs allocated from the advertised shape/dtype of the selected arrays when out is None; ONE '
               'da.store of the distinct dask names (lock=False); repeats copied from the stored output *)')
    out.append('Definition c04_get_as_modelled : bool := true.')
    rel = 'katdal/chunkstore.py'
    ctree = _parse(repo, rel)
    gcls = _class(ctree, '_ArrayLikeGetter', rel)
    gi = _func(gcls, '__init__', rel)
    _expect([a.arg for a in gi.args.args] == ['self', 'getter', 'array_name', 'chunks', 'dtype']
            and gi.args.kwarg is not None and gi.args.kwarg.arg == 'kwargs'
            and _body_text(gi) == normalise_source(_GETTER_INIT_TEMPLATE).strip(), '_ArrayLikeGetter.__init__ changed')
    gg = _func(gcls, '__getitem__', rel)
    _expect([a.arg for a in gg.args.args] == ['self', 'slices', 'asarray', 'lock']
            and [ast.unparse(d) for d in gg.args.defaults] == ['False', 'None']
            and _body_text(gg) == normalise_source(_GETTER_GETITEM_TEMPLATE).strip(),
            '_ArrayLikeGetter.__getitem__ changed')
    out.append('(* _ArrayLikeGetter: shape = per-axis sum of the chunk sizes; __getitem__ hands the slices of the block to '
               'the chunk getter unchanged (no fusion, no offset) *)')
    out.append('Definition c04_getter_passes_slices : bool := true.')


def dataset_code(repo):
    """the (opcode, a, b) triples of DaskLazyIndexer.dataset in the given tree, or None when it is refused"""
    try:
        cls = _class(_parse(repo, REL), CLS, REL)
        return [list(t) for t in _stmts(_func(cls, 'dataset', REL).body, _Vars(), 'DaskLazyIndexer.dataset', False)]
    except TranslateError:
        return None


ITEMS = [item_dataset, item_range_to_slice, item_getitem, item_store]
