"""Translator items for C16 (v4 flag derivation chain), fail-closed:

* item_v4_indexers  -- katdal/visdatav4.py VisibilityDataV4._set_keep: what each public indexer (vis, weights,
  raw_flags, flags) is built on, the first-stage index, and the flag transform chain (bitwise_and with a copy of
  the selection mask - skipped exactly when the mask is all ones - followed by the bool view); and
  VisibilityDataV4.__init__: which kernel corrects which stored array and in which order the corrected arrays are
  packed into `self._corrected`.  raw_flags depending on anything but `self._corrected.flags` and the first-stage
  index (e.g. on `self._flags_select`) does not have the expected shape and breaks the tie.
* item_v4_flag_consts -- the flag constant OR-ed in where chunks are lost (vis_flags_weights._apply_data_lost), the
  fill value of a lost flags chunk, and the constant OR-ed in by applycal.apply_flags_correction, each with the
  name it is imported under from .flags.
"""
import ast

from vh.translate import TranslateError, _class, _func, _parse, coq_string, coq_strings
from vh.translate import NORMALISE      # a handler that only warns is `pass` after _parse unless VERIF_TRANSLATE_RAW=1
_WARN = 'pass' if NORMALISE else 'logger.warning(%W)'


def _norm(node):
    return ast.unparse(node).replace(' ', '').replace('\n', '')


def _self_assigns(fn, attr):
    """All assignments anywhere in `fn` that have self.<attr> among their targets, except `... = None`."""
    out = []
    for n in ast.walk(fn):
        if isinstance(n, ast.Assign):
            hit = any(isinstance(t, ast.Attribute) and isinstance(t.value, ast.Name) and t.value.id == 'self'
                      and t.attr == attr for t in n.targets)
            if hit and not (isinstance(n.value, ast.Constant) and n.value.value is None):
                out.append(n)
        elif isinstance(n, (ast.AugAssign, ast.AnnAssign)):
            t = n.target
            if isinstance(t, ast.Attribute) and isinstance(t.value, ast.Name) and t.value.id == 'self' and t.attr == attr:
                out.append(n)
    return out


def _single_toplevel_assign(fn, attr, rel):
    found = _self_assigns(fn, attr)
    if len(found) != 1 or found[0] not in fn.body or not isinstance(found[0], ast.Assign) or len(found[0].targets) != 1:
        raise TranslateError('%s:%s: expected exactly one unconditional assignment to self.%s (besides `= None`), '
                             'found %d' % (rel, fn.name, attr, len(found)))
    return found[0]


def _self_chain(node):
    """self.a.b -> 'a.b' ; anything else -> None."""
    parts = []
    while isinstance(node, ast.Attribute):
        parts.append(node.attr)
        node = node.value
    if isinstance(node, ast.Name) and node.id == 'self' and parts:
        return '.'.join(reversed(parts))
    return None


def item_v4_indexers(repo, out):
    rel = 'katdal/visdatav4.py'
    tree = _parse(repo, rel)
    cls = _class(tree, 'VisibilityDataV4', rel)
    fn = _func(cls, '_set_keep', rel)
    # ---- first-stage index
    st = [n for n in fn.body if isinstance(n, ast.Assign) and _norm(n.targets[0]) == 'stage1']
    if len(st) != 1 or _norm(st[0].value) != '(self._time_keep,self._freq_keep,self._corrprod_keep)':
        raise TranslateError('%s:_set_keep: stage1 is not (self._time_keep, self._freq_keep, self._corrprod_keep)' % rel)
    if sum(1 for n in ast.walk(fn) if isinstance(n, ast.Name) and n.id == 'stage1' and isinstance(n.ctx, ast.Store)) != 1:
        raise TranslateError('%s:_set_keep: stage1 is assigned more than once' % rel)
    # ---- vis / weights / raw_flags: DaskLazyIndexer(self._corrected.<x>, stage1), nothing else
    srcs = []
    for attr in ('_vis', '_weights', '_raw_flags'):
        a = _single_toplevel_assign(fn, attr, rel)
        v = a.value
        if not (isinstance(v, ast.Call) and _norm(v.func) == 'DaskLazyIndexer' and len(v.args) == 2 and not v.keywords
                and _norm(v.args[1]) == 'stage1'):
            raise TranslateError('%s:_set_keep: self.%s is not DaskLazyIndexer(<array>, stage1)' % (rel, attr))
        chain = _self_chain(v.args[0])
        if chain is None:
            raise TranslateError('%s:_set_keep: self.%s is not built directly on an attribute of self (%s)'
                                 % (rel, attr, _norm(v.args[0])[:60]))
        srcs.append((attr[1:], chain))
    # ---- flags: DaskLazyIndexer(self._raw_flags, transforms=flag_transforms)
    a = _single_toplevel_assign(fn, '_flags', rel)
    if _norm(a.value) != 'DaskLazyIndexer(self._raw_flags,transforms=flag_transforms)':
        raise TranslateError('%s:_set_keep: self._flags is not DaskLazyIndexer(self._raw_flags, '
                             'transforms=flag_transforms)' % rel)
    srcs.append(('flags', '_raw_flags'))
    # ---- the transform chain
    ft = [n for n in ast.walk(fn) if isinstance(n, ast.Assign) and _norm(n.targets[0]) == 'flag_transforms']
    if len(ft) != 1 or ft[0] not in fn.body or _norm(ft[0].value) != '[]':
        raise TranslateError('%s:_set_keep: flag_transforms does not start as one empty list' % rel)
    appends = sorted((n for n in ast.walk(fn) if isinstance(n, ast.Call) and _norm(n.func).startswith('flag_transforms.')),
                     key=lambda n: (n.lineno, n.col_offset))
    if [_norm(n) for n in appends] != ['flag_transforms.append(bitwise_and)', 'flag_transforms.append(view_as_bool)']:
        raise TranslateError('%s:_set_keep: flag_transforms is not [bitwise_and, view_as_bool]' % rel)
    others = [n for n in ast.walk(fn) if isinstance(n, ast.Name) and n.id == 'flag_transforms'
              and not isinstance(n.ctx, ast.Store)]
    if len(others) != 3:    # two appends + the use in DaskLazyIndexer
        raise TranslateError('%s:_set_keep: flag_transforms is used in an unexpected way' % rel)
    ifs = [n for n in fn.body if isinstance(n, ast.If) and any(m is appends[0] for m in ast.walk(n))]
    if len(ifs) != 1 or ifs[0].orelse or _norm(ifs[0].test) != '~self._flags_select!=0':
        raise TranslateError('%s:_set_keep: bitwise_and is not guarded by `if ~self._flags_select != 0`' % rel)
    body = [_norm(s) for s in ifs[0].body]
    if body != ['select=self._flags_select.copy()', 'defbitwise_and(flags):returnda.bitwise_and(select,flags)',
                'flag_transforms.append(bitwise_and)']:
        raise TranslateError('%s:_set_keep: the bitwise_and branch is not select = mask.copy(); '
                             'da.bitwise_and(select, flags); append' % rel)
    vb = [n for n in fn.body if isinstance(n, ast.FunctionDef) and n.name == 'view_as_bool']
    if len(vb) != 1 or _norm(vb[0]) != 'defview_as_bool(flags):returnflags.view(bool)':
        raise TranslateError('%s:_set_keep: view_as_bool is not flags.view(bool)' % rel)
    if not any(isinstance(n, ast.Expr) and n.value is appends[1] for n in fn.body):
        raise TranslateError('%s:_set_keep: view_as_bool is not appended unconditionally' % rel)
    out.append('Definition v4_indexer_src : list (string * string) := [%s].'
               % '; '.join('(%s, %s)' % (coq_string(k), coq_string(v)) for k, v in srcs))
    out.append('Definition v4_flag_transforms : list string := %s.' % coq_strings(['bitwise_and', 'view_as_bool']))
    out.append('Definition v4_and_skipped_iff_all_ones : bool := true.')
    # ---- __init__: self._corrected
    init = _func(cls, '__init__', rel)
    cor = _self_assigns(init, '_corrected')
    vals = sorted(_norm(a.value) for a in cor if isinstance(a, ast.Assign))
    want = sorted(['self.source.data', 'self.source.data',
                   'VisFlagsWeights(corrected_vis,corrected_flags,corrected_weights,unscaled_weights)'])
    if len(cor) != 3 or vals != want:
        raise TranslateError('%s:__init__: self._corrected is not source.data | VisFlagsWeights(corrected_vis, '
                             'corrected_flags, corrected_weights, unscaled_weights)' % rel)
    kern = {}
    for name in ('corrected_vis', 'corrected_flags', 'corrected_weights'):
        asg = [n for n in ast.walk(init) if isinstance(n, ast.Assign) and _norm(n.targets[0]) == name]
        if len(asg) != 1:
            raise TranslateError('%s:__init__: %s assigned %d times' % (rel, name, len(asg)))
        v = asg[0].value
        if not (isinstance(v, ast.Call) and _norm(v.func) == 'self._make_corrected' and len(v.args) == 2
                and isinstance(v.args[0], ast.Name) and _self_chain(v.args[1])):
            raise TranslateError('%s:__init__: %s is not self._make_corrected(<kernel>, self.source.data.<x>)'
                                 % (rel, name))
        kern[name] = (v.args[0].id, _self_chain(v.args[1]))
    mk = _func(cls, '_make_corrected', rel)
    if [_norm(s) for s in mk.body] != ['returnda.core.elemwise(apply_correction,data,self._corrections,dtype=data.dtype)']:
        raise TranslateError('%s:_make_corrected is not elemwise(apply_correction, data, self._corrections)' % rel)
    out.append('Definition v4_corrected_src : list (string * (string * string)) := [%s].'
               % '; '.join('(%s, (%s, %s))' % (coq_string(k.split('_')[1]), coq_string(kern[k][0]), coq_string(kern[k][1]))
                           for k in ('corrected_vis', 'corrected_flags', 'corrected_weights')))


def _flags_import(tree, const, rel):
    imported = [a.name for n in tree.body if isinstance(n, ast.ImportFrom) and n.module == 'flags' and n.level == 1
                for a in n.names if (a.asname or a.name) == const]
    if len(imported) != 1:
        raise TranslateError('%s: %s is not imported (once) from .flags' % (rel, const))
    return imported[0].lower()


def item_v4_flag_consts(repo, out):
    # ---- data_lost: vis_flags_weights._apply_data_lost and the fill value of a lost flags chunk
    rel = 'katdal/vis_flags_weights.py'
    tree = _parse(repo, rel)
    fns = [n for n in tree.body if isinstance(n, ast.FunctionDef) and n.name == '_apply_data_lost']
    if len(fns) != 1:
        raise TranslateError('%s: expected one function _apply_data_lost' % rel)
    aug = [n for n in ast.walk(fns[0]) if isinstance(n, ast.AugAssign)]
    if not (len(aug) == 1 and isinstance(aug[0].op, ast.BitOr) and _norm(aug[0].target) == 'flags[slices]'
            and isinstance(aug[0].value, ast.Name)):
        raise TranslateError('%s: _apply_data_lost does not do exactly one `flags[slices] |= <NAME>`' % rel)
    # (round 3) the constant enters the flags nowhere else: one use of the name in the whole function (so no
    # `orig_flags | <NAME>` on a path that bypasses the slices of the lost map), and the sliced array is a local
    uses = [n for n in ast.walk(fns[0]) if isinstance(n, ast.Name) and n.id == aug[0].value.id]
    if len(uses) != 1:
        raise TranslateError('%s: _apply_data_lost uses %s %d times, not only in `flags[slices] |= %s`'
                             % (rel, aug[0].value.id, len(uses), aug[0].value.id))
    others = [n for n in ast.walk(fns[0]) if isinstance(n, ast.BinOp) and isinstance(n.op, (ast.BitOr, ast.Add))
              or isinstance(n, ast.AugAssign) and n is not aug[0]]
    if others:
        raise TranslateError('%s: _apply_data_lost combines flags in another way than the one `flags[slices] |= %s`: %s'
                             % (rel, aug[0].value.id, ast.unparse(others[0])[:60]))
    lost = _flags_import(tree, aug[0].value.id, rel)
    cls = _class(tree, 'ChunkStoreVisFlagsWeights', rel)
    init = _func(cls, '__init__', rel)
    err = [n for n in ast.walk(init) if isinstance(n, ast.Assign) and _norm(n.targets[0]) == 'errors']
    if len(err) != 1 or not isinstance(err[0].value, ast.IfExp):
        raise TranslateError('%s: ChunkStoreVisFlagsWeights: `errors = <NAME> if array == \'flags\' else ...` not found' % rel)
    ife = err[0].value
    if not (_norm(ife.test) == "array=='flags'" and isinstance(ife.body, ast.Name) and _norm(ife.orelse) == "'placeholder'"):
        raise TranslateError('%s: ChunkStoreVisFlagsWeights: unexpected `errors` expression %s' % (rel, _norm(ife)[:80]))
    fill = _flags_import(tree, ife.body.id, rel)
    # ---- postproc: applycal.apply_flags_correction
    rel2 = 'katdal/applycal.py'
    tree2 = _parse(repo, rel2)
    fns = [n for n in tree2.body if isinstance(n, ast.FunctionDef) and n.name == 'apply_flags_correction']
    if len(fns) != 1:
        raise TranslateError('%s: expected one function apply_flags_correction' % rel2)
    aug = [n for n in ast.walk(fns[0]) if isinstance(n, ast.AugAssign)]
    if not (len(aug) == 1 and isinstance(aug[0].op, ast.BitOr) and _norm(aug[0].target) == 'out[i,j,k]'
            and isinstance(aug[0].value, ast.Name)):
        raise TranslateError('%s: apply_flags_correction does not do exactly one `out[i, j, k] |= <NAME>`' % rel2)
    cal = _flags_import(tree2, aug[0].value.id, rel2)
    out.append('Definition v4_lost_flag_name : string := %s.' % coq_string(lost))
    out.append('Definition v4_lost_fill_name : string := %s.' % coq_string(fill))
    out.append('Definition v4_cal_flag_name : string := %s.' % coq_string(cal))


# ---------------------------------------------------------------------------------------------------------------
# selection plumbing: how a flags= / weights= argument travels from select() to the masks of a data set and of the
# members of a concatenated data set
# ---------------------------------------------------------------------------------------------------------------
def _guard_kind(test, param, where):
    """`<param> is not None` -> is_not_none ; `<param>` -> truthy ; anything else is not understood."""
    t = _norm(test)
    if t == '%sisnotNone' % param:
        return 'is_not_none'
    if t == param:
        return 'truthy'
    raise TranslateError('%s: guard `%s` of the assignment from %s is neither `%s is not None` nor `%s`'
                         % (where, ast.unparse(test)[:60], param, param, param))


def item_ds_set_keep(repo, out):
    """katdal/dataset.py DataSet._set_keep: `if <guard>: self._weights_keep = weights_keep` and the same for flags
    (each once, at top level, nothing else in the branch); DataSet.__init__: both start as 'all', _selection = {}."""
    rel = 'katdal/dataset.py'
    tree = _parse(repo, rel)
    cls = _class(tree, 'DataSet', rel)
    fn = _func(cls, '_set_keep', rel)
    params = [a.arg for a in fn.args.args]
    if params != ['self', 'time_keep', 'freq_keep', 'corrprod_keep', 'weights_keep', 'flags_keep'] \
            or [_norm(d) for d in fn.args.defaults] != ['None'] * 5 or fn.args.vararg or fn.args.kwarg or fn.args.kwonlyargs:
        raise TranslateError('%s:DataSet._set_keep: unexpected parameter list %s' % (rel, params))
    guards = []
    for what in ('weights', 'flags'):
        attr, param = '_%s_keep' % what, '%s_keep' % what
        found = _self_assigns(fn, attr)
        if len(found) != 1:
            raise TranslateError('%s:DataSet._set_keep: self.%s assigned %d times' % (rel, attr, len(found)))
        ifs = [n for n in fn.body if isinstance(n, ast.If) and any(m is found[0] for m in ast.walk(n))]
        if len(ifs) != 1 or ifs[0].orelse or len(ifs[0].body) != 1 or ifs[0].body[0] is not found[0] \
                or _norm(found[0]) != 'self.%s=%s' % (attr, param):
            raise TranslateError('%s:DataSet._set_keep: self.%s is not set by a plain top-level '
                                 '`if <guard>: self.%s = %s`' % (rel, attr, attr, param))
        guards.append((what, _guard_kind(ifs[0].test, param, '%s:DataSet._set_keep' % rel)))
        stores = [n for n in ast.walk(fn) if isinstance(n, ast.Name) and n.id == param and isinstance(n.ctx, ast.Store)]
        if stores:
            raise TranslateError('%s:DataSet._set_keep: parameter %s is rebound' % (rel, param))
    out.append('Definition ds_set_keep_guards : list (string * string) := [%s].'
               % '; '.join('(%s, %s)' % (coq_string(k), coq_string(v)) for k, v in guards))
    init = _func(cls, '__init__', rel)
    inits = []
    for attr in ('_weights_keep', '_flags_keep'):
        found = _self_assigns(init, attr)
        if len(found) != 1 or found[0] not in init.body or not isinstance(found[0], ast.Assign) \
                or not isinstance(found[0].value, ast.Constant) or not isinstance(found[0].value.value, str):
            raise TranslateError('%s:DataSet.__init__: self.%s is not initialised once with a string literal' % (rel, attr))
        inits.append((attr, found[0].value.value))
    sel = _self_assigns(init, '_selection')
    if len(sel) != 1 or _norm(sel[0].value) != '{}':
        raise TranslateError('%s:DataSet.__init__: self._selection does not start as {}' % rel)
    out.append('Definition ds_init_keeps : list (string * string) := [%s].'
               % '; '.join('(%s, %s)' % (coq_string(k), coq_string(v)) for k, v in inits))


def _const_str_list(fn, name, rel):
    asg = [n for n in ast.walk(fn) if isinstance(n, ast.Assign) and _norm(n.targets[0]) == name]
    if len(asg) != 1 or not isinstance(asg[0].value, ast.List) \
            or not all(isinstance(e, ast.Constant) and isinstance(e.value, str) for e in asg[0].value.elts):
        raise TranslateError('%s:select: %s is not one list of string literals' % (rel, name))
    return [e.value for e in asg[0].value.elts]


def _pop_helper_ok(fn, loop, lists):
    """The loop `for key in <p>: self._selection.pop(key, None)` is the whole body of a local helper `def h(<p>)` of
    select() that is only ever CALLED, each time with one of the literal selector lists (a behaviour-preserving
    refactoring of the three inline loops, e.g. /verif/benign/C02-1)."""
    for h in ast.walk(fn):
        if not (isinstance(h, ast.FunctionDef) and h is not fn):
            continue
        body = [s for s in h.body if not (isinstance(s, ast.Expr) and isinstance(s.value, ast.Constant))]
        a = h.args
        if len(body) != 1 or body[0] is not loop or [x.arg for x in a.args] != [_norm(loop.iter)] or a.defaults \
                or a.vararg or a.kwarg or a.kwonlyargs or a.posonlyargs or h.decorator_list:
            continue
        uses = [n for n in ast.walk(fn) if isinstance(n, ast.Name) and n.id == h.name]
        calls = [n for n in ast.walk(fn) if isinstance(n, ast.Call) and isinstance(n.func, ast.Name) and n.func.id == h.name]
        if len(uses) == len(calls) and calls and all(len(c.args) == 1 and not c.keywords and _norm(c.args[0]) in lists
                                                     for c in calls):
            return True
    return False


def item_ds_select_keeps(repo, out):
    """katdal/dataset.py DataSet.select: the keyword arguments are merged into self._selection (which only ever
    loses time / frequency / product selectors), the loop over self._selection assigns `self._weights_keep = v` for
    k == 'weights' and `self._flags_keep = v` for k == 'flags' (nowhere else), and the call ends with
    self._set_keep(self._time_keep, self._freq_keep, self._corrprod_keep, self._weights_keep, self._flags_keep)."""
    rel = 'katdal/dataset.py'
    tree = _parse(repo, rel)
    fn = _func(_class(tree, 'DataSet', rel), 'select', rel)
    upd = [n for n in fn.body if isinstance(n, ast.Expr) and _norm(n.value) == 'self._selection.update(kwargs)']
    loops = [n for n in fn.body if isinstance(n, ast.For) and _norm(n.iter) == 'self._selection.items()'
             and _norm(n.target) == '(k,v)']
    if len(upd) != 1 or len(loops) != 1 or fn.body.index(upd[0]) > fn.body.index(loops[0]):
        raise TranslateError('%s:select: `self._selection.update(kwargs)` followed by one loop over '
                             'self._selection.items() not found' % rel)
    # keys removed from self._selection: only through `for key in <X>_selectors: self._selection.pop(key, None)`
    lists = {n: _const_str_list(fn, n, rel) for n in ('time_selectors', 'freq_selectors', 'corrprod_selectors')}
    for n in ast.walk(fn):
        if isinstance(n, ast.Call) and _norm(n.func).startswith('self._selection.') \
                and _norm(n.func) not in ('self._selection.update', 'self._selection.items'):
            if _norm(n) != 'self._selection.pop(key,None)':
                raise TranslateError('%s:select: unexpected use of self._selection: %s' % (rel, ast.unparse(n)[:60]))
    for n in ast.walk(fn):
        if isinstance(n, ast.For) and any(isinstance(m, ast.Call) and _norm(m) == 'self._selection.pop(key,None)'
                                          for m in ast.walk(n)):
            if _norm(n.target) != 'key' or len(n.body) != 1 \
                    or not (_norm(n.iter) in lists or _pop_helper_ok(fn, n, lists)):
                raise TranslateError('%s:select: self._selection.pop outside a loop over a selector list' % rel)
    for n in ast.walk(fn):
        if isinstance(n, (ast.Assign, ast.AugAssign, ast.Delete)) and 'self._selection' in _norm(n) \
                and not isinstance(n, ast.Assign):
            raise TranslateError('%s:select: self._selection is modified in an unexpected way' % rel)
        if isinstance(n, ast.Assign) and any(_norm(t).startswith('self._selection') for t in n.targets):
            raise TranslateError('%s:select: self._selection is (re)assigned' % rel)
    for name, lst in lists.items():
        if 'flags' in lst or 'weights' in lst:
            raise TranslateError('%s:select: %s contains flags / weights (they would be forgotten on reset)' % (rel, name))
    # the if / elif chain of the loop
    keeps = []
    for what in ('weights', 'flags'):
        attr = '_%s_keep' % what
        found = _self_assigns(fn, attr)
        if len(found) != 1 or _norm(found[0]) != 'self.%s=v' % attr:
            raise TranslateError('%s:select: self.%s is not assigned exactly once as `self.%s = v`' % (rel, attr, attr))
        node, chain_ok = loops[0].body[0] if len(loops[0].body) == 1 else None, False
        while isinstance(node, ast.If):
            if any(m is found[0] for m in node.body):
                chain_ok = _norm(node.test) == "k=='%s'" % what and len(node.body) == 1
                break
            node = node.orelse[0] if len(node.orelse) == 1 else None
        if not chain_ok:
            raise TranslateError("%s:select: `self.%s = v` is not the whole branch `k == '%s'` of the loop over "
                                 "self._selection" % (rel, attr, what))
        keeps.append((what, attr))
    calls = [n for n in ast.walk(fn) if isinstance(n, ast.Call) and _norm(n.func) == 'self._set_keep']
    if len(calls) != 1 or not any(isinstance(s, ast.Expr) and s.value is calls[0] for s in fn.body) \
            or calls[0].keywords or fn.body.index([s for s in fn.body if isinstance(s, ast.Expr) and s.value is calls[0]][0]) \
            < fn.body.index(loops[0]):
        raise TranslateError('%s:select: one unconditional positional self._set_keep(...) call after the loop not found' % rel)
    args = []
    for a in calls[0].args:
        c = _self_chain(a)
        if c is None:
            raise TranslateError('%s:select: argument %s of self._set_keep is not an attribute of self' % (rel, _norm(a)[:40]))
        args.append(c)
    out.append('Definition ds_select_keeps : list (string * string) := [%s].'
               % '; '.join('(%s, %s)' % (coq_string(k), coq_string(v)) for k, v in keeps))
    out.append('Definition ds_select_final_set_keep : list string := %s.' % coq_strings(args))


def item_concat_set_keep(repo, out):
    """katdal/concatdata.py ConcatenatedDataSet: _flags_keep / _weights_keep are plain attributes (no property),
    _set_keep = super()._set_keep(<the five parameters>) + one d._set_keep(<keywords>) per member; flags / weights /
    vis are ConcatenatedLazyIndexer([d.<x> for d in self.datasets]); __init__ ends with select(spw=0, subarray=0)."""
    rel = 'katdal/concatdata.py'
    tree = _parse(repo, rel)
    cls = _class(tree, 'ConcatenatedDataSet', rel)
    for n in cls.body:
        if isinstance(n, ast.FunctionDef) and n.name in ('_flags_keep', '_weights_keep', '_flags_select'):
            raise TranslateError('%s: ConcatenatedDataSet defines %s (expected a plain attribute)' % (rel, n.name))
    if [_norm(b) for b in cls.bases] != ['DataSet']:
        raise TranslateError('%s: ConcatenatedDataSet is not a direct subclass of DataSet' % rel)
    fn = _func(cls, '_set_keep', rel)
    body = [s for s in fn.body if not (isinstance(s, ast.Expr) and isinstance(s.value, ast.Constant))]
    if len(body) != 2 or not (isinstance(body[0], ast.Expr) and isinstance(body[0].value, ast.Call)
                              and _norm(body[0].value.func) == 'super()._set_keep' and not body[0].value.keywords):
        raise TranslateError('%s:_set_keep: not `super()._set_keep(...)` followed by one loop' % rel)
    sup = [_norm(a) for a in body[0].value.args]
    loop = body[1]
    if not (isinstance(loop, ast.For) and _norm(loop.iter) == 'enumerate(self.datasets)' and _norm(loop.target) == '(n,d)'
            and len(loop.body) == 1 and isinstance(loop.body[0], ast.Expr) and isinstance(loop.body[0].value, ast.Call)
            and _norm(loop.body[0].value.func) == 'd._set_keep' and not loop.body[0].value.args):
        raise TranslateError('%s:_set_keep: the loop is not `for n, d in enumerate(self.datasets): d._set_keep(<kw>)`' % rel)
    kws = []
    for k in loop.body[0].value.keywords:
        if k.arg is None:
            raise TranslateError('%s:_set_keep: **kwargs passed to the members' % rel)
        kws.append((k.arg, _norm(k.value)))
    for what in ('weights_keep', 'flags_keep'):
        v = dict(kws).get(what)
        if v not in (None, 'self._' + what, what):
            raise TranslateError('%s:_set_keep: members get %s=%s (expected self._%s)' % (rel, what, v, what))
    out.append('Definition concat_super_set_keep_args : list string := %s.' % coq_strings(sup))
    # the only other override of _set_keep (VisibilityDataV4) hands all five parameters to DataSet._set_keep first
    overriding = []
    for rel2, cname in (('katdal/visdatav4.py', 'VisibilityDataV4'), ('katdal/h5datav3.py', 'H5DataV3'),
                        ('katdal/h5datav2.py', 'H5DataV2')):
        c2 = _class(_parse(repo, rel2), cname, rel2)
        fns = [n for n in c2.body if isinstance(n, ast.FunctionDef) and n.name == '_set_keep']
        if not fns:
            continue
        b2 = [s for s in fns[0].body if not (isinstance(s, ast.Expr) and isinstance(s.value, ast.Constant))]
        if not b2 or _norm(b2[0]) != 'super()._set_keep(time_keep,freq_keep,corrprod_keep,weights_keep,flags_keep)' \
                or [a.arg for a in fns[0].args.args] != ['self', 'time_keep', 'freq_keep', 'corrprod_keep', 'weights_keep', 'flags_keep']:
            raise TranslateError('%s:%s._set_keep does not start with super()._set_keep(<its five parameters>)' % (rel2, cname))
        for n in ast.walk(fns[0]):
            if isinstance(n, ast.Name) and n.id in ('flags_keep', 'weights_keep') and isinstance(n.ctx, ast.Store):
                raise TranslateError('%s:%s._set_keep rebinds %s' % (rel2, cname, n.id))
        overriding.append(cname)
    out.append('Definition set_keep_overridden_by : list string := %s.' % coq_strings(overriding))
    out.append('Definition concat_member_keep_args : list (string * string) := [%s].'
               % '; '.join('(%s, %s)' % (coq_string(k), coq_string(v)) for k, v in kws if k in ('weights_keep', 'flags_keep')))
    props = []
    for name in ('vis', 'weights', 'flags'):
        p = _func(cls, name, rel)
        stmts = [s for s in p.body if not (isinstance(s, ast.Expr) and isinstance(s.value, ast.Constant))]
        if [_norm(d) for d in p.decorator_list] != ['property'] or len(stmts) != 1 \
                or _norm(stmts[0]) != 'returnConcatenatedLazyIndexer([d.%sfordinself.datasets])' % name:
            raise TranslateError('%s: ConcatenatedDataSet.%s is not ConcatenatedLazyIndexer([d.%s for d in '
                                 'self.datasets])' % (rel, name, name))
        props.append(name)
    out.append('Definition concat_data_from_members : list string := %s.' % coq_strings(props))
    init = _func(cls, '__init__', rel)
    last = init.body[-1]
    if _norm(last) != 'self.select(spw=0,subarray=0)':
        raise TranslateError('%s: ConcatenatedDataSet.__init__ does not end with self.select(spw=0, subarray=0)' % rel)
    out.append('Definition concat_init_ends_with_select : bool := true.')


def _strip_noise(stmts):
    """drop docstrings, asserts, comments-only and logger.warning statements (also `if c: logger.warning(...)`)."""
    out = []
    for s in stmts:
        if isinstance(s, ast.Assert) or (isinstance(s, ast.Expr) and isinstance(s.value, ast.Constant)):
            continue
        if isinstance(s, ast.Expr) and isinstance(s.value, ast.Call) and _norm(s.value.func) == 'logger.warning':
            continue
        if isinstance(s, ast.If) and not s.orelse and not _strip_noise(s.body):
            continue
        out.append(s)
    return out


def _prop_funcs(cls, name, rel):
    get = [n for n in cls.body if isinstance(n, ast.FunctionDef) and n.name == name
           and [_norm(d) for d in n.decorator_list] == ['property']]
    put = [n for n in cls.body if isinstance(n, ast.FunctionDef) and n.name == name
           and [_norm(d) for d in n.decorator_list] == ['%s.setter' % name]]
    if len(get) != 1 or len(put) != 1:
        raise TranslateError('%s: %s.%s is not one property with one setter' % (rel, cls.name, name))
    return get[0], put[0]


def item_flag_setters(repo, out):
    """The `_flags_keep` property of the three formats: setter = _selection_to_list(names, all=KNOWN), zeros(8),
    selection[KNOWN.index(name)] = 1 (ValueError -> warning), packbits(flipud(selection)) [v3, v4] or
    packbits(selection) [v2]; getter = names of KNOWN where (flipud(unpackbits(mask)) | unpackbits(mask)) is set.
    h5 formats: KNOWN = [row[0] for row in self._flags_description], which defaults to zip(FLAG_NAMES, ...) when the
    file has no table.  Also dataset._selection_to_list and the h5 `_weights_keep` property + WEIGHT_NAMES."""
    flips, wnames = [], []
    for fmt, rel, cname, known in (('v4', 'katdal/visdatav4.py', 'VisibilityDataV4', 'FLAG_NAMES'),
                                   ('v3', 'katdal/h5datav3.py', 'H5DataV3', 'known_flags'),
                                   ('v2', 'katdal/h5datav2.py', 'H5DataV2', 'known_flags')):
        tree = _parse(repo, rel)
        if _flags_import_as(tree, 'FLAG_NAMES', rel) != 'NAMES':
            raise TranslateError('%s: FLAG_NAMES is not flags.NAMES' % rel)
        cls = _class(tree, cname, rel)
        get, put = _prop_funcs(cls, '_flags_keep', rel)
        g = [_norm(s) for s in _strip_noise(get.body)]
        p = [_norm(s) for s in _strip_noise(put.body)]
        pre_g, pre_p = [], []
        if known == 'known_flags':
            pre_g = ["ifnothasattr(self,'_flags_description'):return[]",
                     'known_flags=[row[0]forrowinself._flags_description]']
            pre_p = ["ifnothasattr(self,'_flags_description'):self._flags_select=np.array([0],dtype=np.uint8)return",
                     'known_flags=[row[0]forrowinself._flags_description]']
        flip = {}
        for which, got, pre, tmpl in (
                ('getter', g, pre_g, ['selection=%s', 'return[nameforname,bitinzip(' + known + ',selection)ifbit]']),
                ('setter', p, pre_p, ['names=_selection_to_list(names,all=' + known + ')', 'selection=np.zeros(8,dtype=np.uint8)',
                                      'fornameinnames:try:selection[' + known + '.index(name)]=1exceptValueError:' + _WARN,
                                      'flagmask=%s', 'self._flags_select=flagmask'])):
            got = [_per_name_form(s, known)[0] for s in got]       # the shape of the loop is item_setter_shape's
            # the warning call inside the try/except is kept by _strip_noise (it is the handler body): normalise it
            got = [__import__('re').sub(r'logger\.warning\(.*\)$', 'logger.warning(%W)', s) if s.startswith('fornameinnames') else s
                   for s in got]
            want_flip = pre + [t % ('np.flipud(np.unpackbits(self._flags_select))' if which == 'getter'
                                    else 'np.packbits(np.flipud(selection))') if '%s' in t else t for t in tmpl]
            want_plain = pre + [t % ('np.unpackbits(self._flags_select)' if which == 'getter'
                                     else 'np.packbits(selection)') if '%s' in t else t for t in tmpl]
            if got == want_flip:
                flip[which] = True
            elif got == want_plain:
                flip[which] = False
            else:
                raise TranslateError('%s: %s._flags_keep %s has an unexpected body' % (rel, cname, which))
        flips.append((fmt, flip['setter'], flip['getter']))
        if known == 'known_flags':
            init = _func(cls, '__init__', rel)
            fd = _self_assigns(init, '_flags_description')
            if len(fd) != 1 or not isinstance(fd[0].value, ast.IfExp) \
                    or _norm(fd[0].value.orelse) != 'np.array(list(zip(FLAG_NAMES,FLAG_DESCRIPTIONS)))':
                raise TranslateError('%s: default of self._flags_description is not zip(FLAG_NAMES, FLAG_DESCRIPTIONS)' % rel)
            wn = _module_assign_local(tree, 'WEIGHT_NAMES', rel)
            if not (isinstance(wn, ast.Tuple) and all(isinstance(e, ast.Constant) and isinstance(e.value, str) for e in wn.elts)):
                raise TranslateError('%s: WEIGHT_NAMES is not a tuple of strings' % rel)
            wd = _self_assigns(init, '_weights_description')
            if len(wd) != 1 or not isinstance(wd[0].value, ast.IfExp) \
                    or _norm(wd[0].value.orelse) != 'np.array(list(zip(WEIGHT_NAMES,WEIGHT_DESCRIPTIONS)))':
                raise TranslateError('%s: default of self._weights_description is not zip(WEIGHT_NAMES, ...)' % rel)
            wg, wp = _prop_funcs(cls, '_weights_keep', rel)
            kw = "known_weights=[row[0]forrowingetattr(self,'_weights_description',[])]"
            if [_norm(s) for s in _strip_noise(wg.body)] != [kw, 'return[known_weights[ind]forindinself._weights_select]']:
                raise TranslateError('%s: %s._weights_keep getter has an unexpected body' % (rel, cname))
            got = [__import__('re').sub(r'logger\.warning\(.*\)$', 'logger.warning(%W)', _norm(s)) for s in _strip_noise(wp.body)]
            if got != [kw, 'names=_selection_to_list(names,all=known_weights)', 'selection=[]',
                       'fornameinnames:try:selection.append(known_weights.index(name))exceptValueError:' + _WARN,
                       'self._weights_select=selection']:
                raise TranslateError('%s: %s._weights_keep setter has an unexpected body' % (rel, cname))
            wnames.append((fmt, [e.value for e in wn.elts]))
        else:
            for n in cls.body:
                if isinstance(n, ast.FunctionDef) and n.name == '_weights_keep':
                    raise TranslateError('%s: VisibilityDataV4 defines _weights_keep (expected a plain attribute)' % rel)
    rel = 'katdal/dataset.py'
    tree = _parse(repo, rel)
    fns = [n for n in tree.body if isinstance(n, ast.FunctionDef) and n.name == '_selection_to_list']
    want = ['ifisinstance(names,str):ifnotnames:return[]elifnamesingroups:returnlist(groups[names])'
            "else:return[name.strip()fornameinnames.split(',')]"
            'elifis_iterable(names):returnlist(names)else:return[names]']
    if len(fns) != 1 or [_canon_split(_norm(s))[0] for s in _strip_noise(fns[0].body)] != want:
        raise TranslateError('%s: _selection_to_list has an unexpected body' % rel)
    b = lambda x: 'true' if x else 'false'   # noqa: E731
    out.append('Definition flag_setter_flip : list (string * (bool * bool)) := [%s].'
               % '; '.join('(%s, (%s, %s))' % (coq_string(f), b(s), b(g)) for f, s, g in flips))
    out.append('Definition ds_weight_names : list (string * list string) := [%s].'
               % '; '.join('(%s, %s)' % (coq_string(f), coq_strings(w)) for f, w in wnames))


_LOOP_PER_NAME = 'for name in names:\n    try:\n        selection[%s.index(name)] = 1\n    except ValueError:\n        logger.warning("x")\n'
_LOOP_WHOLE = 'try:\n    for name in names:\n        selection[%s.index(name)] = 1\nexcept ValueError:\n    logger.warning("x")\n'


def _tmpl(text):
    """A template written as Python source, in the translator's normal form (docstrings, comments, logging calls and
    message texts do not matter), compared without blanks."""
    from vh.translate import normalise_source
    return normalise_source(text).replace(' ', '').replace('\n', '')


def _per_name_form(stmt, known):
    """(statement in the per-name form, shape): the marking loop of a `_flags_keep` setter either handles the
    ValueError of an unknown name PER NAME (`for name: try: ... except ValueError: warn`, shape 'per_name': the loop
    goes on with the next name) or around the WHOLE loop (`try: for name: ... except ValueError: warn`, shape
    'whole_loop': the first unknown name ends the loop and every name after it is dropped).  Other statements are
    returned unchanged with shape None."""
    import re
    stmt = re.sub(r'logger\.warning\(.*\)$', 'pass' if NORMALISE else 'logger.warning(%W)', stmt) \
        if stmt.startswith(('fornameinnames', 'try:fornameinnames')) else stmt
    per, whole = _tmpl(_LOOP_PER_NAME % known), _tmpl(_LOOP_WHOLE % known)
    canon = 'fornameinnames:try:selection[' + known + '.index(name)]=1exceptValueError:' + _WARN
    if re.sub(r'logger\.warning\(.*\)$', 'pass', stmt) in (per, re.sub(r'logger\.warning\(.*\)$', 'pass', per)) or stmt == canon:
        return canon, 'per_name'
    if re.sub(r'logger\.warning\(.*\)$', 'pass', stmt) in (whole, re.sub(r'logger\.warning\(.*\)$', 'pass', whole)):
        return canon, 'whole_loop'
    return stmt, None


def item_setter_shape(repo, out):
    """Where the `except ValueError` of the marking loop sits in the `_flags_keep` setter of each format (per name /
    around the whole loop): the model (Model/FlagsArg.v selection_bits_src) follows either shape, the theorems need
    'per_name'."""
    shapes = []
    for fmt, rel, cname, known in (('v4', 'katdal/visdatav4.py', 'VisibilityDataV4', 'FLAG_NAMES'),
                                   ('v3', 'katdal/h5datav3.py', 'H5DataV3', 'known_flags'),
                                   ('v2', 'katdal/h5datav2.py', 'H5DataV2', 'known_flags')):
        cls = _class(_parse(repo, rel), cname, rel)
        _get, put = _prop_funcs(cls, '_flags_keep', rel)
        found = [sh for sh in (_per_name_form(_norm(s), known)[1] for s in _strip_noise(put.body)) if sh]
        if len(found) != 1:
            raise TranslateError('%s: %s._flags_keep setter: the loop `for name in names: selection[%s.index(name)] = 1` '
                                 'with its ValueError handler was not found exactly once' % (rel, cname, known))
        shapes.append((fmt, found[0]))
    out.append('Definition flag_setter_loop : list (string * string) := [%s].'
               % '; '.join('(%s, %s)' % (coq_string(k), coq_string(v)) for k, v in shapes))


_SPLIT_RE = r"return\[name(\.strip\(\)|\.lstrip\(\)|\.rstrip\(\)|)fornameinnames\.split\('(.)'\)\]"


def _canon_split(stmt):
    """(statement with the comprehension of the split branch in its canonical form, (strip method, separator) | None)"""
    import re
    m = re.search(_SPLIT_RE, stmt)
    if not m:
        return stmt, None
    return stmt[:m.start()] + "return[name.strip()fornameinnames.split(',')]" + stmt[m.end():], \
        ((m.group(1) or '.none()')[1:-2], m.group(2))


_SEL_TO_LIST = """
if isinstance(names, str):
    if not names:
        return []
    elif names in groups:
        return list(groups[names])
    else:
        return [name.strip() for name in names.split(',')]
elif is_iterable(names):
    return list(names)
else:
    return [names]
"""


def item_selection_to_list(repo, out):
    """katdal/dataset.py `_selection_to_list(names, **groups)`: order of the tests (string: empty -> [], group name ->
    the group, else split + strip; other iterables as they are; a scalar -> [scalar]), and the two constants of the
    split branch, which the model uses: the separator and the strip method applied to EVERY field (so also to the
    first and the last one, i.e. to the ends of the whole string)."""
    rel = 'katdal/dataset.py'
    tree = _parse(repo, rel)
    fns = [n for n in tree.body if isinstance(n, ast.FunctionDef) and n.name == '_selection_to_list']
    if len(fns) != 1:
        raise TranslateError('%s: _selection_to_list not found once' % rel)
    fn = fns[0]
    if [a.arg for a in fn.args.args] != ['names'] or fn.args.vararg or fn.args.kwonlyargs or fn.args.defaults \
            or not fn.args.kwarg or fn.args.kwarg.arg != 'groups':
        raise TranslateError('%s: _selection_to_list: signature is not (names, **groups)' % rel)
    body = ''.join(_norm(s) for s in _strip_noise(fn.body))
    canon, consts = _canon_split(body)
    if consts is None or canon != _tmpl(_SEL_TO_LIST):
        raise TranslateError('%s: _selection_to_list has an unexpected body' % rel)
    out.append('Definition sel_to_list_strip : string := %s.' % coq_string(consts[0]))
    out.append('Definition sel_to_list_sep : string := %s.' % coq_string(consts[1]))
    # the keyword under which each setter hands its known names to _selection_to_list (the group name of "everything")
    keys = []
    for fmt, rel2, cname in (('v4', 'katdal/visdatav4.py', 'VisibilityDataV4'), ('v3', 'katdal/h5datav3.py', 'H5DataV3'),
                             ('v2', 'katdal/h5datav2.py', 'H5DataV2')):
        _get, put = _prop_funcs(_class(_parse(repo, rel2), cname, rel2), '_flags_keep', rel2)
        calls = [n for n in ast.walk(put) if isinstance(n, ast.Call) and _norm(n.func) == '_selection_to_list']
        if len(calls) != 1 or len(calls[0].args) != 1 or _norm(calls[0].args[0]) != 'names' or len(calls[0].keywords) != 1 \
                or calls[0].keywords[0].arg is None:
            raise TranslateError('%s: %s._flags_keep setter: not one call _selection_to_list(names, <group>=<known>)' % (rel2, cname))
        keys.append((fmt, calls[0].keywords[0].arg))
    out.append('Definition flag_setter_group_key : list (string * string) := [%s].'
               % '; '.join('(%s, %s)' % (coq_string(k), coq_string(v)) for k, v in keys))


def item_h5_flag_table(repo, out):
    """H5DataV3 / H5DataV2 __init__: the flag table of the FILE (`flags_description`, when the file has one) - is it
    decoded to str (`to_str(<group>['flags_description'][:])`; h5py delivers fixed-length strings as bytes, and a
    bytes name never equals the str a user asks for) or used as read; the number of rows the setter / getter insist
    on (their assert against the 8 entries of `selection`)."""
    res = []
    for fmt, rel, cname in (('v3', 'katdal/h5datav3.py', 'H5DataV3'), ('v2', 'katdal/h5datav2.py', 'H5DataV2')):
        cls = _class(_parse(repo, rel), cname, rel)
        init = _func(cls, '__init__', rel)
        fd = _self_assigns(init, '_flags_description')
        if len(fd) != 1 or not isinstance(fd[0].value, ast.IfExp):
            raise TranslateError('%s: self._flags_description is not assigned once by a conditional expression' % rel)
        v = fd[0].value
        import re
        m = re.fullmatch(r"'flags_description'in(\w+)", _norm(v.test))
        if not m:
            raise TranslateError("%s: self._flags_description: test is not `'flags_description' in <group>`" % rel)
        g = m.group(1)
        if _norm(v.body) == "to_str(%s['flags_description'][:])" % g:
            dec = True
        elif _norm(v.body) in ("%s['flags_description']" % g, "%s['flags_description'][:]" % g):
            dec = False
        else:
            raise TranslateError('%s: self._flags_description: unexpected value for a file with its own table' % rel)
        imp = [a for n in ast.walk(_parse(repo, rel)) if isinstance(n, ast.ImportFrom) and n.module == 'sensordata'
               for a in n.names if (a.asname or a.name) == 'to_str' and a.name == 'to_str']
        if dec and len(imp) != 1:
            raise TranslateError('%s: to_str is not sensordata.to_str' % rel)
        res.append((fmt, dec))
    out.append('Definition h5_flag_table_decoded : list (string * bool) := [%s].'
               % '; '.join('(%s, %s)' % (coq_string(k), 'true' if v else 'false') for k, v in res))


def _flags_import_as(tree, alias, rel):
    imported = [a.name for n in tree.body if isinstance(n, ast.ImportFrom) and n.module == 'flags' and n.level == 1
                for a in n.names if (a.asname or a.name) == alias]
    if len(imported) != 1:
        raise TranslateError('%s: %s is not imported (once) from .flags' % (rel, alias))
    return imported[0]


def _module_assign_local(tree, name, rel):
    found = [n for n in tree.body if isinstance(n, ast.Assign) and len(n.targets) == 1
             and isinstance(n.targets[0], ast.Name) and n.targets[0].id == name]
    if len(found) != 1:
        raise TranslateError('%s:%s: expected exactly one module-level assignment' % (rel, name))
    return found[0].value


def item_h5_flag_transform(repo, out):
    """h5datav3 / h5datav2 `flags` property: the mask in force when the indexer is obtained, np.bool_(np.bitwise_and(
    mask, flags)) on the stored bytes (self._flags)."""
    res = []
    for fmt, rel, cname in (('v3', 'katdal/h5datav3.py', 'H5DataV3'), ('v2', 'katdal/h5datav2.py', 'H5DataV2')):
        tree = _parse(repo, rel)
        fn = _func(_class(tree, cname, rel), 'flags', rel)
        got = [_norm(s) for s in _strip_noise(fn.body)]
        # the docstring of the inner function is an Expr inside the FunctionDef: strip it
        inner = [n for n in fn.body if isinstance(n, ast.FunctionDef) and n.name == 'transform']
        # flags_select is the one-element uint8 array self._flags_select: since katdal fix 418701b its element is used
        # (`flags_select[0]`, so that a scalar selection keeps 0 dimensions); the older whole-array form is the same mask
        if len(inner) != 1 or [_norm(s) for s in _strip_noise(inner[0].body)] not in (
                ['returnnp.bool_(np.bitwise_and(flags_select[0],flags))'], ['returnnp.bool_(np.bitwise_and(flags_select,flags))']) \
                or [a.arg for a in inner[0].args.args] != ['flags', 'keep']:
            raise TranslateError('%s: %s.flags: transform is not np.bool_(np.bitwise_and(flags_select, flags))' % (rel, cname))
        rest = [_norm(s) for s in _strip_noise(fn.body) if s is not inner[0]]
        if rest != ['flags_select=self._flags_select', "extract=LazyTransform('extract_flags',transform,dtype=bool)",
                    'returnself._vislike_indexer(self._flags,extract)']:
            raise TranslateError('%s: %s.flags has an unexpected body' % (rel, cname))
        res.append((fmt, 'bool(and(mask,stored))'))
    out.append('Definition h5_flag_transform : list (string * string) := [%s].'
               % '; '.join('(%s, %s)' % (coq_string(k), coq_string(v)) for k, v in res))



ITEMS = [item_v4_indexers, item_v4_flag_consts, item_ds_set_keep, item_ds_select_keeps, item_concat_set_keep,
         item_flag_setters, item_h5_flag_transform, item_setter_shape, item_selection_to_list, item_h5_flag_table]
