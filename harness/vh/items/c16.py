"""Translator items for C16 (v4 flag derivation chain), fail-closed:

* item_v4_indexers  -- katdal/visdatav4.py VisibilityDataV4._set_keep: what each public indexer (vis, weights,
  raw_flags, flags) is built on, the first-stage index, and the flag transform chain (bitwise_and with a copy of
  the selection mask - skipped exactly when the mask is all ones - followed by the bool view); and
  VisibilityDataV4.__init__: which kernel corrects which stored array and in which order the corrected arrays are
  packed into `self._corrected`.  raw_flags depending on anything but `self._corrected.flags` and the first-stage
  index (e.g. on `self._flags_select`) does not have the expected shape and breaks the tie.
* item_v4_flag_consts -- the flag constant OR-ed in where chunks are lost (vis_flags_weights._apply_data_lost), the
  fill value of a lost flags chunk, and the constant OR-ed in by applycal.apply_flags_correction, each with the
  name it is imported under from .flags.
"""
import ast

from vh.translate import TranslateError, _class, _func, _parse, coq_string, coq_strings


def _norm(node):
    return ast.unparse(node).replace(' ', '').replace('\n', '')


def _self_assigns(fn, attr):
    """All assignments anywhere in `fn` that have self.<attr> among their targets, except `... = None`."""
    out = []
    for n in ast.walk(fn):
        if isinstance(n, ast.Assign):
            hit = any(isinstance(t, ast.Attribute) and isinstance(t.value, ast.Name) and t.value.id == 'self'
                      and t.attr == attr for t in n.targets)
            if hit and not (isinstance(n.value, ast.Constant) and n.value.value is None):
                out.append(n)
        elif isinstance(n, (ast.AugAssign, ast.AnnAssign)):
            t = n.target
            if isinstance(t, ast.Attribute) and isinstance(t.value, ast.Name) and t.value.id == 'self' and t.attr == attr:
                out.append(n)
    return out


def _single_toplevel_assign(fn, attr, rel):
    found = _self_assigns(fn, attr)
    if len(found) != 1 or found[0] not in fn.body or not isinstance(found[0], ast.Assign) or len(found[0].targets) != 1:
        raise TranslateError('%s:%s: expected exactly one unconditional assignment to self.%s (besides `= None`), '
                             'found %d' % (rel, fn.name, attr, len(found)))
    return found[0]


def _self_chain(node):
    """self.a.b -> 'a.b' ; anything else -> None."""
    parts = []
    while isinstance(node, ast.Attribute):
        parts.append(node.attr)
        node = node.value
    if isinstance(node, ast.Name) and node.id == 'self' and parts:
        return '.'.join(reversed(parts))
    return None


def item_v4_indexers(repo, out):
    rel = 'katdal/visdatav4.py'
    tree = _parse(repo, rel)
    cls = _class(tree, 'VisibilityDataV4', rel)
    fn = _func(cls, '_set_keep', rel)
    # ---- first-stage index
    st = [n for n in fn.body if isinstance(n, ast.Assign) and _norm(n.targets[0]) == 'stage1']
    if len(st) != 1 or _norm(st[0].value) != '(self._time_keep,self._freq_keep,self._corrprod_keep)':
        raise TranslateError('%s:_set_keep: stage1 is not (self._time_keep, self._freq_keep, self._corrprod_keep)' % rel)
    if sum(1 for n in ast.walk(fn) if isinstance(n, ast.Name) and n.id == 'stage1' and isinstance(n.ctx, ast.Store)) != 1:
        raise TranslateError('%s:_set_keep: stage1 is assigned more than once' % rel)
    # ---- vis / weights / raw_flags: DaskLazyIndexer(self._corrected.<x>, stage1), nothing else
    srcs = []
    for attr in ('_vis', '_weights', '_raw_flags'):
        a = _single_toplevel_assign(fn, attr, rel)
        v = a.value
        if not (isinstance(v, ast.Call) and _norm(v.func) == 'DaskLazyIndexer' and len(v.args) == 2 and not v.keywords
                and _norm(v.args[1]) == 'stage1'):
            raise TranslateError('%s:_set_keep: self.%s is not DaskLazyIndexer(<array>, stage1)' % (rel, attr))
        chain = _self_chain(v.args[0])
        if chain is None:
            raise TranslateError('%s:_set_keep: self.%s is not built directly on an attribute of self (%s)'
                                 % (rel, attr, _norm(v.args[0])[:60]))
        srcs.append((attr[1:], chain))
    # ---- flags: DaskLazyIndexer(self._raw_flags, transforms=flag_transforms)
    a = _single_toplevel_assign(fn, '_flags', rel)
    if _norm(a.value) != 'DaskLazyIndexer(self._raw_flags,transforms=flag_transforms)':
        raise TranslateError('%s:_set_keep: self._flags is not DaskLazyIndexer(self._raw_flags, '
                             'transforms=flag_transforms)' % rel)
    srcs.append(('flags', '_raw_flags'))
    # ---- the transform chain
    ft = [n for n in ast.walk(fn) if isinstance(n, ast.Assign) and _norm(n.targets[0]) == 'flag_transforms']
    if len(ft) != 1 or ft[0] not in fn.body or _norm(ft[0].value) != '[]':
        raise TranslateError('%s:_set_keep: flag_transforms does not start as one empty list' % rel)
    appends = sorted((n for n in ast.walk(fn) if isinstance(n, ast.Call) and _norm(n.func).startswith('flag_transforms.')),
                     key=lambda n: (n.lineno, n.col_offset))
    if [_norm(n) for n in appends] != ['flag_transforms.append(bitwise_and)', 'flag_transforms.append(view_as_bool)']:
        raise TranslateError('%s:_set_keep: flag_transforms is not [bitwise_and, view_as_bool]' % rel)
    others = [n for n in ast.walk(fn) if isinstance(n, ast.Name) and n.id == 'flag_transforms'
              and not isinstance(n.ctx, ast.Store)]
    if len(others) != 3:    # two appends + the use in DaskLazyIndexer
        raise TranslateError('%s:_set_keep: flag_transforms is used in an unexpected way' % rel)
    ifs = [n for n in fn.body if isinstance(n, ast.If) and any(m is appends[0] for m in ast.walk(n))]
    if len(ifs) != 1 or ifs[0].orelse or _norm(ifs[0].test) != '~self._flags_select!=0':
        raise TranslateError('%s:_set_keep: bitwise_and is not guarded by `if ~self._flags_select != 0`' % rel)
    body = [_norm(s) for s in ifs[0].body]
    if body != ['select=self._flags_select.copy()', 'defbitwise_and(flags):returnda.bitwise_and(select,flags)',
                'flag_transforms.append(bitwise_and)']:
        raise TranslateError('%s:_set_keep: the bitwise_and branch is not select = mask.copy(); '
                             'da.bitwise_and(select, flags); append' % rel)
    vb = [n for n in fn.body if isinstance(n, ast.FunctionDef) and n.name == 'view_as_bool']
    if len(vb) != 1 or _norm(vb[0]) != 'defview_as_bool(flags):returnflags.view(bool)':
        raise TranslateError('%s:_set_keep: view_as_bool is not flags.view(bool)' % rel)
    if not any(isinstance(n, ast.Expr) and n.value is appends[1] for n in fn.body):
        raise TranslateError('%s:_set_keep: view_as_bool is not appended unconditionally' % rel)
    out.append('Definition v4_indexer_src : list (string * string) := [%s].'
               % '; '.join('(%s, %s)' % (coq_string(k), coq_string(v)) for k, v in srcs))
    out.append('Definition v4_flag_transforms : list string := %s.' % coq_strings(['bitwise_and', 'view_as_bool']))
    out.append('Definition v4_and_skipped_iff_all_ones : bool := true.')
    # ---- __init__: self._corrected
    init = _func(cls, '__init__', rel)
    cor = _self_assigns(init, '_corrected')
    vals = sorted(_norm(a.value) for a in cor if isinstance(a, ast.Assign))
    want = sorted(['self.source.data', 'self.source.data',
                   'VisFlagsWeights(corrected_vis,corrected_flags,corrected_weights,unscaled_weights)'])
    if len(cor) != 3 or vals != want:
        raise TranslateError('%s:__init__: self._corrected is not source.data | VisFlagsWeights(corrected_vis, '
                             'corrected_flags, corrected_weights, unscaled_weights)' % rel)
    kern = {}
    for name in ('corrected_vis', 'corrected_flags', 'corrected_weights'):
        asg = [n for n in ast.walk(init) if isinstance(n, ast.Assign) and _norm(n.targets[0]) == name]
        if len(asg) != 1:
            raise TranslateError('%s:__init__: %s assigned %d times' % (rel, name, len(asg)))
        v = asg[0].value
        if not (isinstance(v, ast.Call) and _norm(v.func) == 'self._make_corrected' and len(v.args) == 2
                and isinstance(v.args[0], ast.Name) and _self_chain(v.args[1])):
            raise TranslateError('%s:__init__: %s is not self._make_corrected(<kernel>, self.source.data.<x>)'
                                 % (rel, name))
        kern[name] = (v.args[0].id, _self_chain(v.args[1]))
    mk = _func(cls, '_make_corrected', rel)
    if [_norm(s) for s in mk.body] != ['returnda.core.elemwise(apply_correction,data,self._corrections,dtype=data.dtype)']:
        raise TranslateError('%s:_make_corrected is not elemwise(apply_correction, data, self._corrections)' % rel)
    out.append('Definition v4_corrected_src : list (string * (string * string)) := [%s].'
               % '; '.join('(%s, (%s, %s))' % (coq_string(k.split('_')[1]), coq_string(kern[k][0]), coq_string(kern[k][1]))
                           for k in ('corrected_vis', 'corrected_flags', 'corrected_weights')))


def _flags_import(tree, const, rel):
    imported = [a.name for n in tree.body if isinstance(n, ast.ImportFrom) and n.module == 'flags' and n.level == 1
                for a in n.names if (a.asname or a.name) == const]
    if len(imported) != 1:
        raise TranslateError('%s: %s is not imported (once) from .flags' % (rel, const))
    return imported[0].lower()


def item_v4_flag_consts(repo, out):
    # ---- data_lost: vis_flags_weights._apply_data_lost and the fill value of a lost flags chunk
    rel = 'katdal/vis_flags_weights.py'
    tree = _parse(repo, rel)
    fns = [n for n in tree.body if isinstance(n, ast.FunctionDef) and n.name == '_apply_data_lost']
    if len(fns) != 1:
        raise TranslateError('%s: expected one function _apply_data_lost' % rel)
    aug = [n for n in ast.walk(fns[0]) if isinstance(n, ast.AugAssign)]
    if not (len(aug) == 1 and isinstance(aug[0].op, ast.BitOr) and _norm(aug[0].target) == 'flags[slices]'
            and isinstance(aug[0].value, ast.Name)):
        raise TranslateError('%s: _apply_data_lost does not do exactly one `flags[slices] |= <NAME>`' % rel)
    lost = _flags_import(tree, aug[0].value.id, rel)
    cls = _class(tree, 'ChunkStoreVisFlagsWeights', rel)
    init = _func(cls, '__init__', rel)
    err = [n for n in ast.walk(init) if isinstance(n, ast.Assign) and _norm(n.targets[0]) == 'errors']
    if len(err) != 1 or not isinstance(err[0].value, ast.IfExp):
        raise TranslateError('%s: ChunkStoreVisFlagsWeights: `errors = <NAME> if array == \'flags\' else ...` not found' % rel)
    ife = err[0].value
    if not (_norm(ife.test) == "array=='flags'" and isinstance(ife.body, ast.Name) and _norm(ife.orelse) == "'placeholder'"):
        raise TranslateError('%s: ChunkStoreVisFlagsWeights: unexpected `errors` expression %s' % (rel, _norm(ife)[:80]))
    fill = _flags_import(tree, ife.body.id, rel)
    # ---- postproc: applycal.apply_flags_correction
    rel2 = 'katdal/applycal.py'
    tree2 = _parse(repo, rel2)
    fns = [n for n in tree2.body if isinstance(n, ast.FunctionDef) and n.name == 'apply_flags_correction']
    if len(fns) != 1:
        raise TranslateError('%s: expected one function apply_flags_correction' % rel2)
    aug = [n for n in ast.walk(fns[0]) if isinstance(n, ast.AugAssign)]
    if not (len(aug) == 1 and isinstance(aug[0].op, ast.BitOr) and _norm(aug[0].target) == 'out[i,j,k]'
            and isinstance(aug[0].value, ast.Name)):
        raise TranslateError('%s: apply_flags_correction does not do exactly one `out[i, j, k] |= <NAME>`' % rel2)
    cal = _flags_import(tree2, aug[0].value.id, rel2)
    out.append('Definition v4_lost_flag_name : string := %s.' % coq_string(lost))
    out.append('Definition v4_lost_fill_name : string := %s.' % coq_string(fill))
    out.append('Definition v4_cal_flag_name : string := %s.' % coq_string(cal))


ITEMS = [item_v4_indexers, item_v4_flag_consts]
