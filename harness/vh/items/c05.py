"""Translator items for C05: the dense-selection decision of LazyIndexer.__getitem__.

The source must contain exactly one test of the shape
    len(dim_keep) > <float> * dim_len and len(segments) > <int>
inside LazyIndexer.__getitem__; the float is emitted as an exact fraction num/den and the
integer as the minimum number of segments.  Any other shape is a broken tie."""
import ast
from fractions import Fraction

from vh.translate import TranslateError, _parse, _class, _func


def _is_len_of(node, name):
    return (isinstance(node, ast.Call) and isinstance(node.func, ast.Name) and node.func.id == 'len'
            and len(node.args) == 1 and isinstance(node.args[0], ast.Name) and node.args[0].id == name)


def item_lazy_threshold(repo, out):
    rel = 'katdal/lazy_indexer.py'
    tree = _parse(repo, rel)
    fn = _func(_class(tree, 'LazyIndexer', rel), '__getitem__', rel)
    found = []
    for n in ast.walk(fn):
        if isinstance(n, ast.If) and isinstance(n.test, ast.BoolOp) and isinstance(n.test.op, ast.And) \
                and len(n.test.values) == 2:
            a, b = n.test.values
            if not (isinstance(a, ast.Compare) and len(a.ops) == 1 and _is_len_of(a.left, 'dim_keep')):
                continue
            found.append((a, b))
    if len(found) != 1:
        raise TranslateError('%s: LazyIndexer.__getitem__: expected exactly one dense-selection test, found %d'
                             % (rel, len(found)))
    a, b = found[0]
    rhs = a.comparators[0]
    if not (isinstance(a.ops[0], ast.Gt) and isinstance(rhs, ast.BinOp) and isinstance(rhs.op, ast.Mult)
            and isinstance(rhs.left, ast.Constant) and isinstance(rhs.left.value, (int, float))
            and not isinstance(rhs.left.value, bool)
            and isinstance(rhs.right, ast.Name) and rhs.right.id == 'dim_len'):
        raise TranslateError('%s: dense-selection test is not `len(dim_keep) > c * dim_len`: %s'
                             % (rel, ast.dump(a)[:160]))
    if not (isinstance(b, ast.Compare) and len(b.ops) == 1 and isinstance(b.ops[0], ast.Gt)
            and _is_len_of(b.left, 'segments') and isinstance(b.comparators[0], ast.Constant)
            and isinstance(b.comparators[0].value, int) and not isinstance(b.comparators[0].value, bool)):
        raise TranslateError('%s: dense-selection test is not `... and len(segments) > k`: %s'
                             % (rel, ast.dump(b)[:160]))
    fr = Fraction(repr(rhs.left.value))
    if fr < 0:
        raise TranslateError('%s: negative dense-selection threshold' % rel)
    out.append('(* katdal/lazy_indexer.py LazyIndexer.__getitem__: len(dim_keep) > %r * dim_len and len(segments) > %d *)'
               % (rhs.left.value, b.comparators[0].value))
    out.append('Definition lazy_dense_num : Z := (%d)%%Z.' % fr.numerator)
    out.append('Definition lazy_dense_den : Z := (%d)%%Z.' % fr.denominator)
    out.append('Definition lazy_dense_min_segments : Z := (%d)%%Z.' % b.comparators[0].value)


ITEMS = [item_lazy_threshold]
