"""Translator items for C05 (katdal/lazy_indexer.py LazyTransform / LazyIndexer, katdal/concatdata.py
ConcatenatedLazyIndexer), fail-closed.

Every function the model mirrors is matched, statement by statement, against a template (c05_templates.py): same
statements in the same order, same operators, constants, default arguments.  The small decision expressions of those
functions are holes of the templates; what stands there in the source is translated into Gallina definitions
(integer / boolean expressions: + - * %, max / min, comparisons incl. chains, and / or / not, conditional expressions,
np.where)
that the model USES:

  lazy_diff_rejected d              np.any(np.diff(dim_keep) <= 0)          -> LazyIdx.sorted_ok
  lazy_out_of_range first last n    dim_keep[0] < 0 or dim_keep[-1] >= n    -> LazyIdx.adv_plan
  lazy_jump d                       np.diff(dim_keep) > 1                   -> LazyIdx.runs
  lazy_dense_num/den/min_segments   len(dim_keep) > 0.2 * dim_len and len(segments) > 1 -> LazyIdx.dense
  lazy_dtype_step declared dtype    transform.dtype if ... is not None else dtype       -> LazyIdx.tr_dtype
  concat_part_kept len0             indexer.shape[0] (truthiness)           -> ConcatIdx.c_mk
  concat_searchsorted_before, concat_find_indexer       searchsorted(index, side='right') - 1 -> ConcatIdx.find_indexer
  concat_norm_scalar, concat_scalar_rejected, concat_local_scalar           -> ConcatIdx.c_head (scalar head)
  concat_stride_rejected, concat_slice_stop, concat_first_indexer, concat_end_indexer, concat_chunk_start,
  concat_chunk_stop, concat_chunk_skipped                                                      -> ConcatIdx.c_head (slice head)
  concat_norm_list, concat_local_list                                       -> ConcatIdx.c_head (integer-sequence head)

An edit of the source therefore either changes a generated definition (the theorems are re-checked against it) or is
refused here (broken tie)."""
import ast
from fractions import Fraction

from vh.translate import TranslateError, _parse, _class, _func
from vh.items import c05_templates as T


# ----------------------------------------------------------------------------- template matching

def _strip_doc(fn):
    if fn.body and isinstance(fn.body[0], ast.Expr) and isinstance(fn.body[0].value, ast.Constant) \
            and isinstance(fn.body[0].value.value, str):
        fn.body = fn.body[1:]
    return fn


def _unify(t, a, holes, where):
    """structural equality of template node t and actual node a; Name('__Hn__') binds, Name('__ANY__') matches anything"""
    if isinstance(t, ast.Name) and t.id.startswith('__') and t.id.endswith('__'):
        if t.id != '__ANY__':
            if t.id in holes:
                raise TranslateError('%s: hole %s used twice' % (where, t.id))
            holes[t.id] = a
        return
    if type(t) is not type(a):
        raise TranslateError('%s: expected `%s`, found `%s`' % (where, _short(t), _short(a)))
    for f in t._fields:
        tv, av = getattr(t, f, None), getattr(a, f, None)
        if isinstance(tv, list):
            if not isinstance(av, list) or len(tv) != len(av):
                raise TranslateError('%s: expected %d item(s) in `%s`, found `%s`'
                                     % (where, len(tv), _short(t), _short(a)))
            for x, y in zip(tv, av):
                _unify_any(x, y, holes, where)
        else:
            _unify_any(tv, av, holes, where)


def _unify_any(x, y, holes, where):
    if isinstance(x, ast.AST):
        if not isinstance(y, ast.AST):
            raise TranslateError('%s: expected `%s`' % (where, _short(x)))
        _unify(x, y, holes, where)
    elif x != y or type(x) is not type(y):
        raise TranslateError('%s: expected %r, found %r' % (where, x, y))


def _short(n):
    try:
        s = ast.unparse(n)
    except Exception:
        s = ast.dump(n)
    s = ' '.join(s.split())
    return s[:140]


def _match(repo, rel, cls, name, template):
    tree = _parse(repo, rel)
    fn = _strip_doc(_func(_class(tree, cls, rel), name, rel))
    tn = [n for n in ast.parse(template).body if isinstance(n, ast.FunctionDef)]
    holes = {}
    _unify(tn[0], fn, holes, '%s:%s.%s' % (rel, cls, name))
    return holes


# ----------------------------------------------------------------------------- expressions -> Gallina

_CMP = {ast.Lt: lambda a, b: '(%s <? %s)' % (a, b), ast.LtE: lambda a, b: '(%s <=? %s)' % (a, b),
        ast.Gt: lambda a, b: '(%s <? %s)' % (b, a), ast.GtE: lambda a, b: '(%s <=? %s)' % (b, a),
        ast.Eq: lambda a, b: '(%s =? %s)' % (a, b), ast.NotEq: lambda a, b: 'negb (%s =? %s)' % (a, b)}
_BIN = {ast.Add: '+', ast.Sub: '-', ast.Mult: '*', ast.Mod: 'mod'}


def _truthy(e):
    txt, typ = e
    return txt if typ == 'bool' else 'negb (%s =? 0)' % txt


def _expr(node, env, where):
    """(Gallina text, 'Z' | 'bool') of a Python integer / boolean expression over the atoms of env"""
    key = ast.unparse(node)
    if key in env:
        return env[key]
    if isinstance(node, ast.Constant) and isinstance(node.value, int) and not isinstance(node.value, bool):
        return ('(%d)' % node.value, 'Z')
    if isinstance(node, ast.UnaryOp) and isinstance(node.op, ast.USub):
        t, ty = _expr(node.operand, env, where)
        if ty == 'Z':
            return ('(- %s)' % t, 'Z')
    if isinstance(node, ast.UnaryOp) and isinstance(node.op, ast.Not):
        return ('negb %s' % _paren(_truthy(_expr(node.operand, env, where))), 'bool')
    if isinstance(node, ast.BinOp) and type(node.op) in _BIN:
        (a, ta), (b, tb) = _expr(node.left, env, where), _expr(node.right, env, where)
        if ta == tb == 'Z':
            return ('(%s %s %s)' % (a, _BIN[type(node.op)], b), 'Z')
    if isinstance(node, ast.Compare) and all(type(o) in _CMP for o in node.ops):
        terms = [_expr(x, env, where) for x in [node.left] + node.comparators]
        if all(t[1] == 'Z' for t in terms):
            parts = [_CMP[type(o)](terms[i][0], terms[i + 1][0]) for i, o in enumerate(node.ops)]
            return (parts[0] if len(parts) == 1 else '(' + ' && '.join(parts) + ')', 'bool')
    if isinstance(node, ast.BoolOp):
        parts = [_paren(_truthy(_expr(v, env, where))) for v in node.values]
        return ('(' + (' && ' if isinstance(node.op, ast.And) else ' || ').join(parts) + ')', 'bool')
    if isinstance(node, ast.IfExp):
        c = _truthy(_expr(node.test, env, where))
        (a, ta), (b, tb) = _expr(node.body, env, where), _expr(node.orelse, env, where)
        if ta == tb:
            return ('(if %s then %s else %s)' % (c, a, b), ta)
    if isinstance(node, ast.Call) and isinstance(node.func, ast.Name) and node.func.id in ('max', 'min') \
            and len(node.args) == 2 and not node.keywords:
        (a, ta), (b, tb) = _expr(node.args[0], env, where), _expr(node.args[1], env, where)
        if ta == tb == 'Z':
            return ('(Z.%s %s %s)' % (node.func.id, a, b), 'Z')
    if isinstance(node, ast.Call) and ast.unparse(node.func) == 'np.where' and len(node.args) == 3 and not node.keywords:
        c = _truthy(_expr(node.args[0], env, where))
        (a, ta), (b, tb) = _expr(node.args[1], env, where), _expr(node.args[2], env, where)
        if ta == tb:
            return ('(if %s then %s else %s)' % (c, a, b), ta)
    raise TranslateError('%s: expression `%s` is outside the translated fragment' % (where, _short(node)))


def _paren(s):
    return s if s.startswith('(') else '(%s)' % s


def _define(out, name, params, node, env, where, want):
    """Definition name params : want := <node>.  params = [(coq name, coq type)], env maps source atoms to them"""
    txt, typ = _expr(node, env, where)
    if want == 'bool' and typ == 'Z':
        txt, typ = _truthy((txt, typ)), 'bool'
    if typ != want:
        raise TranslateError('%s: `%s` is not of type %s' % (where, _short(node), want))
    out.append('(* %s: %s *)' % (where, _short(node)))
    out.append('Definition %s %s : %s := %s.' % (name, ' '.join('(%s : %s)' % p for p in params), want, txt))


def Z(*names):
    return [(n, 'Z') for n in names]


# ----------------------------------------------------------------------------- items

def item_lazy_indexer(repo, out):
    rel = 'katdal/lazy_indexer.py'
    for cls, nm, tpl in (('LazyTransform', '__init__', T.LAZY_TRANSFORM_INIT), ('LazyTransform', '__call__', T.LAZY_TRANSFORM_CALL),
                         ('LazyIndexer', '__init__', T.LAZY_INIT), ('LazyIndexer', '__len__', T.LAZY_LEN),
                         ('LazyIndexer', '__iter__', T.LAZY_ITER), ('LazyIndexer', 'shape', T.LAZY_SHAPE)):
        _match(repo, rel, cls, nm, tpl)
    h = _match(repo, rel, 'LazyIndexer', '__getitem__', T.LAZY_GETITEM)
    w = rel + ':LazyIndexer.__getitem__'
    part = []
    d = {'np.diff(dim_keep)': ('d', 'Z')}
    _define(part, 'lazy_diff_rejected', Z('d'), h['__H1__'], d, w, 'bool')
    _define(part, 'lazy_out_of_range', Z('first', 'last', 'dim_len'), h['__H2__'],
            {'dim_keep[0]': ('first', 'Z'), 'dim_keep[-1]': ('last', 'Z'), 'dim_len': ('dim_len', 'Z')}, w, 'bool')
    _define(part, 'lazy_jump', Z('d'), h['__H3__'], d, w, 'bool')
    _dense_threshold(part, h['__H4__'], w)
    _post_offsets(part, h['__H20__'], w)
    _effects(part, _strip_doc(_func(_class(_parse(repo, rel), 'LazyIndexer', rel), '__getitem__', rel)), w)
    # one step of the dtype fold: `transform.dtype if transform.dtype is not None else dtype`
    h5 = _match(repo, rel, 'LazyIndexer', 'dtype', T.LAZY_DTYPE)['__H5__']
    w5 = rel + ':LazyIndexer.dtype'
    if not (isinstance(h5, ast.IfExp) and isinstance(h5.test, ast.Compare) and len(h5.test.ops) == 1
            and isinstance(h5.test.ops[0], (ast.IsNot, ast.Is)) and ast.unparse(h5.test.left) == 'transform.dtype'
            and isinstance(h5.test.comparators[0], ast.Constant) and h5.test.comparators[0].value is None):
        raise TranslateError('%s: step `%s` is not `<a> if transform.dtype is [not] None else <b>`' % (w5, _short(h5)))
    some, none = (h5.body, h5.orelse) if isinstance(h5.test.ops[0], ast.IsNot) else (h5.orelse, h5.body)
    env = {'transform.dtype': ('declared', 'Z'), 'dtype': ('dtype', 'Z')}
    a, ta = _expr(some, env, w5)
    b, tb = _expr(none, {'dtype': ('dtype', 'Z')}, w5)
    if ta != 'Z' or tb != 'Z':
        raise TranslateError('%s: dtype step is not a choice between the declared and the incoming dtype' % w5)
    part.append('(* %s: %s *)' % (w5, _short(h5)))
    part.append('Definition lazy_dtype_step (declared : option Z) (dtype : Z) : Z := '
                'match declared with Some declared => %s | None => %s end.' % (a, b))
    out += part


_UFUNC = {'np.subtract': ast.Sub, 'np.add': ast.Add, 'np.multiply': ast.Mult}


def _post_offsets(out, node, where):
    """post-selection of the dense strategy: `dim_keep - dim_keep[0]` (a NEW array).  The forms that compute it inside the
    memory of dim_keep - which may be a view of self._lookup or the caller's own index array - are recognised too:
    `np.subtract(dim_keep, dim_keep[0], out=dim_keep)`; they set lazy_post_inplace, against which the state theorem
    (Props/C05.v: C05_reads_preserve_state) is checked."""
    inplace = False
    if isinstance(node, ast.Call) and ast.unparse(node.func) in _UFUNC and len(node.args) == 2 \
            and [k.arg for k in node.keywords] == ['out']:
        if ast.unparse(node.keywords[0].value) != 'dim_keep':
            raise TranslateError('%s: post-selection written into `%s`' % (where, _short(node.keywords[0].value)))
        inplace = True
        node = ast.BinOp(left=node.args[0], op=_UFUNC[ast.unparse(node.func)](), right=node.args[1])
    _define(out, 'lazy_post_offset', Z('x', 'first'), node, {'dim_keep': ('x', 'Z'), 'dim_keep[0]': ('first', 'Z')},
            where, 'Z')
    out.append('Definition lazy_post_inplace : bool := %s.' % ('true' if inplace else 'false'))


_MUTATORS = {'sort', 'fill', 'resize', 'put', 'itemset', 'setfield', 'partition', 'byteswap', 'setflags',
             'extend', 'insert', 'pop', 'remove', 'clear', 'reverse', 'update', 'setdefault'}
_NP_MUTATORS = {'np.put', 'np.place', 'np.copyto', 'np.putmask', 'np.put_along_axis'}
# objects of __getitem__: 0 the pre-allocated output buffer, 1 local bookkeeping lists (selection, segment_sizes),
# 2 index arrays (may live in self._lookup or belong to the caller), 3 the indexer itself, 4 a chunk read from the dataset
_OBJ = {'out_data': 0, 'selection': 1, 'segment_sizes': 1, 'dim_keep': 2, 'keep': 2, 'dkeep': 2, 'dlookup': 2,
        'original_keep': 2, 'self': 3, 'chunk': 4}


def _root(n):
    while isinstance(n, (ast.Subscript, ast.Attribute)):
        n = n.value
    return n.id if isinstance(n, ast.Name) else None


def _effects(out, fn, where):
    """every store THROUGH an object (subscript / attribute assignment, augmented assignment, out= keyword, mutating
    method) of LazyIndexer.__getitem__, as codes of the object written; and where the returned out_data comes from"""
    writes, sources = [], []

    def note(target, what):
        r = _root(target)
        if r not in _OBJ:
            raise TranslateError('%s: %s through unknown object `%s`' % (where, what, _short(target)))
        writes.append(_OBJ[r])
    for n in ast.walk(fn):
        if isinstance(n, (ast.Assign, ast.AnnAssign, ast.AugAssign)):
            tgts = n.targets if isinstance(n, ast.Assign) else [n.target]
            flat = []
            for t in tgts:
                flat += list(t.elts) if isinstance(t, (ast.Tuple, ast.List)) else [t]
            for t in flat:
                if isinstance(t, (ast.Subscript, ast.Attribute)):
                    note(t, 'store')
                elif isinstance(n, ast.AugAssign):
                    note(t, 'augmented assignment')      # `x -= y` works inside the memory of an ndarray x
                if isinstance(t, ast.Name) and t.id == 'out_data' and isinstance(n, ast.Assign):
                    v = ast.unparse(n.value)
                    sources.append(0 if v.startswith('np.empty(') else
                                   1 if v == 'self.dataset[tuple([select[0][0] for select in selection])]' else 2)
        elif isinstance(n, ast.Delete):
            for t in n.targets:
                note(t, 'del')
        elif isinstance(n, ast.Call):
            f = ast.unparse(n.func)
            for k in n.keywords:
                if k.arg == 'out':
                    note(k.value, 'out=')
            if f in _NP_MUTATORS and n.args:
                note(n.args[0], f)
            if isinstance(n.func, ast.Attribute) and (n.func.attr in _MUTATORS or n.func.attr == 'append'):
                note(n.func.value, '.%s()' % n.func.attr)
    out.append('(* %s: objects written through (0 output buffer, 1 local lists, 2 index arrays / lookup, 3 self, 4 chunk) *)'
               % where)
    out.append('Definition lazy_getitem_writes : list Z := [%s]%%Z.' % '; '.join(str(c) for c in sorted(set(writes))))
    out.append('(* %s: what out_data is bound to (0 np.empty, 1 one element read with scalars, 2 anything else) *)' % where)
    out.append('Definition lazy_result_sources : list Z := [%s]%%Z.' % '; '.join(str(c) for c in sorted(set(sources))))


def _dense_threshold(out, test, where):
    """len(dim_keep) > <float> * dim_len and len(segments) > <int>  ->  exact fraction and minimum number of segments"""
    def is_len_of(node, name):
        return (isinstance(node, ast.Call) and isinstance(node.func, ast.Name) and node.func.id == 'len'
                and len(node.args) == 1 and isinstance(node.args[0], ast.Name) and node.args[0].id == name)
    if not (isinstance(test, ast.BoolOp) and isinstance(test.op, ast.And) and len(test.values) == 2):
        raise TranslateError('%s: dense-selection test is not `... and ...`: %s' % (where, _short(test)))
    a, b = test.values
    if not (isinstance(a, ast.Compare) and len(a.ops) == 1 and is_len_of(a.left, 'dim_keep')):
        raise TranslateError('%s: dense-selection test does not start with len(dim_keep): %s' % (where, _short(test)))
    rhs = a.comparators[0]
    if not (isinstance(a.ops[0], ast.Gt) and isinstance(rhs, ast.BinOp) and isinstance(rhs.op, ast.Mult)
            and isinstance(rhs.left, ast.Constant) and isinstance(rhs.left.value, (int, float))
            and not isinstance(rhs.left.value, bool)
            and isinstance(rhs.right, ast.Name) and rhs.right.id == 'dim_len'):
        raise TranslateError('%s: dense-selection test is not `len(dim_keep) > c * dim_len`: %s' % (where, _short(a)))
    if not (isinstance(b, ast.Compare) and len(b.ops) == 1 and isinstance(b.ops[0], ast.Gt)
            and is_len_of(b.left, 'segments') and isinstance(b.comparators[0], ast.Constant)
            and isinstance(b.comparators[0].value, int) and not isinstance(b.comparators[0].value, bool)):
        raise TranslateError('%s: dense-selection test is not `... and len(segments) > k`: %s' % (where, _short(b)))
    fr = Fraction(repr(rhs.left.value))
    if fr < 0:
        raise TranslateError('%s: negative dense-selection threshold' % where)
    out.append('(* %s: len(dim_keep) > %r * dim_len and len(segments) > %d *)'
               % (where, rhs.left.value, b.comparators[0].value))
    out.append('Definition lazy_dense_num : Z := (%d)%%Z.' % fr.numerator)
    out.append('Definition lazy_dense_den : Z := (%d)%%Z.' % fr.denominator)
    out.append('Definition lazy_dense_min_segments : Z := (%d)%%Z.' % b.comparators[0].value)


def item_concat_indexer(repo, out):
    rel = 'katdal/concatdata.py'
    cls = 'ConcatenatedLazyIndexer'
    _match(repo, rel, cls, '_initial_shape', T.CONCAT_INITIAL_SHAPE)
    _match(repo, rel, cls, '_initial_dtype', T.CONCAT_INITIAL_DTYPE)
    part = []
    h = _match(repo, rel, cls, '__init__', T.CONCAT_INIT)
    _define(part, 'concat_part_kept', Z('len0'), h['__H6__'], {'indexer.shape[0]': ('len0', 'Z')},
            rel + ':%s.__init__' % cls, 'bool')
    h = _match(repo, rel, cls, '__getitem__', T.CONCAT_GETITEM)
    w = rel + ':%s.__getitem__' % cls
    # find_indexer: indexer_starts.searchsorted(index, side=<'right'|'left'>) combined with integers
    calls = [n for n in ast.walk(h['__H7__']) if isinstance(n, ast.Call)]
    if not (len(calls) == 1 and ast.unparse(calls[0].func) == 'indexer_starts.searchsorted'
            and [ast.unparse(a) for a in calls[0].args] == ['index'] and len(calls[0].keywords) <= 1
            and all(k.arg == 'side' and isinstance(k.value, ast.Constant) and k.value.value in ('left', 'right')
                    for k in calls[0].keywords)):
        raise TranslateError('%s: find_indexer is not built on indexer_starts.searchsorted(index, side=...): %s'
                             % (w, _short(h['__H7__'])))
    side = calls[0].keywords[0].value.value if calls[0].keywords else 'left'
    part.append("(* %s: searchsorted(index, side='%s') counts the starts s with s %s index *)"
                % (w, side, '<=' if side == 'right' else '<'))
    part.append('Definition concat_searchsorted_before (s index : Z) : bool := (s %s index).'
                % ('<=?' if side == 'right' else '<?'))
    _define(part, 'concat_find_indexer', Z('count'), h['__H7__'], {ast.unparse(calls[0]): ('count', 'Z')}, w, 'Z')
    head = {'keep_head': ('z', 'Z'), 'len(self)': ('total', 'Z'), 'indexer_starts[ind]': ('off', 'Z'),
            'indexer_starts[indexers]': ('off', 'Z')}
    _define(part, 'concat_norm_scalar', Z('total', 'z'), h['__H8__'], head, w, 'Z')
    _define(part, 'concat_scalar_rejected', Z('total', 'z'), h['__H9__'], head, w, 'bool')
    _define(part, 'concat_local_scalar', Z('z', 'off'), h['__H10__'], head, w, 'Z')
    sl = {'start': ('start', 'Z'), 'stop': ('stop', 'Z'), 'stride': ('stride', 'Z'), 'indexer_starts[ind]': ('off', 'Z')}
    _define(part, 'concat_stride_rejected', Z('stride'), h['__H11__'], sl, w, 'bool')
    # repair of F10: the stop of a slice that ends before it starts is raised to its start
    _define(part, 'concat_slice_stop', Z('start', 'stop'), h['__H19__'], sl, w, 'Z')
    fi = {'find_indexer(start)': ('ind_start', 'Z'), 'find_indexer(stop)': ('ind_stop', 'Z')}
    _define(part, 'concat_first_indexer', Z('ind_start', 'ind_stop'), h['__H12__'], fi, w, 'Z')
    _define(part, 'concat_end_indexer', Z('ind_start', 'ind_stop'), h['__H13__'], fi, w, 'Z')
    _define(part, 'concat_chunk_start', Z('start', 'stop', 'off', 'stride'), h['__H14__'], sl, w, 'Z')
    _define(part, 'concat_chunk_stop', Z('start', 'stop', 'off', 'stride'), h['__H15__'], sl, w, 'Z')
    _define(part, 'concat_chunk_skipped', [('have_chunks', 'bool')] + Z('chunk_start', 'chunk_stop'), h['__H16__'],
            {'chunks': ('have_chunks', 'bool'), 'chunk_start': ('chunk_start', 'Z'), 'chunk_stop': ('chunk_stop', 'Z')},
            w, 'bool')
    _define(part, 'concat_norm_list', Z('total', 'z'), h['__H17__'], head, w, 'Z')
    _define(part, 'concat_local_list', Z('z', 'off'), h['__H18__'], head, w, 'Z')
    out += part


ITEMS = [item_lazy_indexer, item_concat_indexer]
