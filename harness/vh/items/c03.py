"""Translator items for C03: the skeleton of the generators DataSet.scans() / DataSet.compscans() (katdal/dataset.py).

The statements of each generator are looked up by shape (Python ast, fail-closed).  Expected skeleton:

    <indices> = self.<field>_indices[:]
    preselection = dict(...self._selection.items()...)
    preselection['reset'] = <FINAL_RESET literal>
    old_timekeep = self._time_keep.copy()
    [state_data = self.sensor.get(<NAME_SENSOR>)]
    for <v> in <indices>:
        self.select(<KEY>=<v>, reset=<YIELD_RESET literal>)
        [label_data = self.sensor.get(<NAME_SENSOR>)]
        <name> = <data>.unique_values[<data>.indices[<v>]]
        target = self.catalogue.targets[self.target_indices[0]]
        yield <v>, <name>, target
        self._set_keep(old_timekeep.copy())
        self._selection.pop(<POP_KEY>, None)
    self.select(**preselection)

Emitted into coq/Gen/Generated.v, for X in {scans, compscans}:
  it_X_field        : string   attribute the indices are copied from (scan_indices / compscan_indices)
  it_X_key          : string   keyword of the select() call of the loop
  it_X_yield_reset  : string   its reset argument
  it_X_pop          : string   key popped from _selection after the yield
  it_X_final_reset  : string   reset of the final re-select
  it_X_name_sensor  : string   sensor whose unique_values[indices[v]] is yielded
The model (coq/Model/Scans.v) USES these constants; the theorems of Props/C03.v are re-checked against them.
"""
import ast

from vh.translate import TranslateError, _class, _func, _parse, coq_string

REL = 'katdal/dataset.py'


def _self_attr(node, attr=None):
    ok = isinstance(node, ast.Attribute) and isinstance(node.value, ast.Name) and node.value.id == 'self'
    if ok and (attr is None or node.attr == attr):
        return node.attr
    return None


def _str(node, what):
    if isinstance(node, ast.Constant) and isinstance(node.value, str):
        return node.value
    raise TranslateError('%s: expected a string literal' % what)


def _is_call(node, attr):
    return isinstance(node, ast.Call) and isinstance(node.func, ast.Attribute) and node.func.attr == attr


def _sensor_get(stmt, what):
    """<x> = self.sensor.get('<name>') -> (x, name)"""
    if (isinstance(stmt, ast.Assign) and len(stmt.targets) == 1 and isinstance(stmt.targets[0], ast.Name)
            and _is_call(stmt.value, 'get') and _self_attr(stmt.value.func.value, 'sensor')
            and len(stmt.value.args) == 1 and not stmt.value.keywords):
        return stmt.targets[0].id, _str(stmt.value.args[0], what)
    return None


def _generator(cls, name):
    what = 'DataSet.%s' % name
    fn = _func(cls, name, REL)
    body = [s for s in fn.body if not (isinstance(s, ast.Expr) and isinstance(s.value, ast.Constant))]   # docstring
    loops = [i for i, s in enumerate(body) if isinstance(s, ast.For)]
    if len(loops) != 1 or loops[0] != len(body) - 2:
        raise TranslateError('%s: expected <setup>; one for loop; one final statement' % what)
    setup, loop, final = body[:-2], body[-2], body[-1]
    # ---- setup
    if len(setup) not in (4, 5):
        raise TranslateError('%s: unexpected number of set-up statements (%d)' % (what, len(setup)))
    s0 = setup[0]
    if not (isinstance(s0, ast.Assign) and len(s0.targets) == 1 and isinstance(s0.targets[0], ast.Name)
            and isinstance(s0.value, ast.Subscript) and isinstance(s0.value.slice, ast.Slice)
            and s0.value.slice.lower is None and s0.value.slice.upper is None and s0.value.slice.step is None
            and _self_attr(s0.value.value)):
        raise TranslateError('%s: first statement is not <x> = self.<field>[:]' % what)
    indices_var, field = s0.targets[0].id, _self_attr(s0.value.value)
    s1 = setup[1]
    if not (isinstance(s1, ast.Assign) and len(s1.targets) == 1 and isinstance(s1.targets[0], ast.Name)
            and s1.targets[0].id == 'preselection' and isinstance(s1.value, ast.Call)
            and isinstance(s1.value.func, ast.Name) and s1.value.func.id == 'dict' and len(s1.value.args) == 1
            and not s1.value.keywords):
        raise TranslateError('%s: preselection = dict(...) not found' % what)
    inner = s1.value.args[0]
    if isinstance(inner, ast.Call) and isinstance(inner.func, ast.Name) and inner.func.id == 'list' and len(inner.args) == 1:
        inner = inner.args[0]
    if not (_is_call(inner, 'items') and _self_attr(inner.func.value, '_selection') and not inner.args):
        raise TranslateError('%s: preselection is not a copy of self._selection.items()' % what)
    s2 = setup[2]
    if not (isinstance(s2, ast.Assign) and len(s2.targets) == 1 and isinstance(s2.targets[0], ast.Subscript)
            and isinstance(s2.targets[0].value, ast.Name) and s2.targets[0].value.id == 'preselection'
            and _str(s2.targets[0].slice, what) == 'reset'):
        raise TranslateError("%s: preselection['reset'] = ... not found" % what)
    final_reset = _str(s2.value, what + ' final reset')
    s3 = setup[3]
    if not (isinstance(s3, ast.Assign) and len(s3.targets) == 1 and isinstance(s3.targets[0], ast.Name)
            and s3.targets[0].id == 'old_timekeep' and _is_call(s3.value, 'copy')
            and _self_attr(s3.value.func.value, '_time_keep')):
        raise TranslateError('%s: old_timekeep = self._time_keep.copy() not found' % what)
    data = None
    if len(setup) == 5:
        data = _sensor_get(setup[4], what)
        if data is None:
            raise TranslateError('%s: fifth set-up statement is not <x> = self.sensor.get(<name>)' % what)
    # ---- loop
    if not (isinstance(loop.target, ast.Name) and isinstance(loop.iter, ast.Name) and loop.iter.id == indices_var
            and not loop.orelse):
        raise TranslateError('%s: loop does not run over the copied indices' % what)
    v = loop.target.id
    lb = list(loop.body)
    if len(lb) not in (6, 7):
        raise TranslateError('%s: unexpected number of loop statements (%d)' % (what, len(lb)))
    c = lb[0]
    if not (isinstance(c, ast.Expr) and _is_call(c.value, 'select') and isinstance(c.value.func.value, ast.Name)
            and c.value.func.value.id == 'self' and not c.value.args and len(c.value.keywords) == 2):
        raise TranslateError('%s: first loop statement is not self.select(<key>=<v>, reset=<str>)' % what)
    k0, k1 = c.value.keywords
    if not (isinstance(k0.value, ast.Name) and k0.value.id == v and k1.arg == 'reset'):
        raise TranslateError('%s: select() of the loop has an unexpected shape' % what)
    key, yield_reset = k0.arg, _str(k1.value, what + ' yield reset')
    rest = lb[1:]
    if len(lb) == 7:
        if data is not None:
            raise TranslateError('%s: name sensor fetched twice' % what)
        data = _sensor_get(rest[0], what)
        rest = rest[1:]
    if data is None:
        raise TranslateError('%s: name sensor not fetched' % what)
    dvar, name_sensor = data
    n = rest[0]
    ok = (isinstance(n, ast.Assign) and len(n.targets) == 1 and isinstance(n.targets[0], ast.Name)
          and isinstance(n.value, ast.Subscript) and isinstance(n.value.value, ast.Attribute)
          and n.value.value.attr == 'unique_values' and isinstance(n.value.value.value, ast.Name)
          and n.value.value.value.id == dvar and isinstance(n.value.slice, ast.Subscript)
          and isinstance(n.value.slice.value, ast.Attribute) and n.value.slice.value.attr == 'indices'
          and isinstance(n.value.slice.value.value, ast.Name) and n.value.slice.value.value.id == dvar
          and isinstance(n.value.slice.slice, ast.Name) and n.value.slice.slice.id == v)
    if not ok:
        raise TranslateError('%s: <name> = <data>.unique_values[<data>.indices[<v>]] not found' % what)
    name_var = n.targets[0].id
    t = rest[1]
    ok = (isinstance(t, ast.Assign) and len(t.targets) == 1 and isinstance(t.targets[0], ast.Name)
          and isinstance(t.value, ast.Subscript) and isinstance(t.value.value, ast.Attribute)
          and t.value.value.attr == 'targets' and _self_attr(t.value.value.value, 'catalogue')
          and isinstance(t.value.slice, ast.Subscript) and _self_attr(t.value.slice.value, 'target_indices')
          and isinstance(t.value.slice.slice, ast.Constant) and t.value.slice.slice.value == 0)
    if not ok:
        raise TranslateError('%s: target = self.catalogue.targets[self.target_indices[0]] not found' % what)
    y = rest[2]
    if not (isinstance(y, ast.Expr) and isinstance(y.value, ast.Yield) and isinstance(y.value.value, ast.Tuple)
            and [getattr(e, 'id', None) for e in y.value.value.elts] == [v, name_var, t.targets[0].id]):
        raise TranslateError('%s: yield <v>, <name>, target not found' % what)
    r = rest[3]
    if not (isinstance(r, ast.Expr) and _is_call(r.value, '_set_keep') and len(r.value.args) == 1
            and not r.value.keywords and _is_call(r.value.args[0], 'copy')
            and isinstance(r.value.args[0].func.value, ast.Name) and r.value.args[0].func.value.id == 'old_timekeep'):
        raise TranslateError('%s: self._set_keep(old_timekeep.copy()) not found after the yield' % what)
    p = rest[4]
    if not (isinstance(p, ast.Expr) and _is_call(p.value, 'pop') and _self_attr(p.value.func.value, '_selection')
            and len(p.value.args) == 2 and isinstance(p.value.args[1], ast.Constant) and p.value.args[1].value is None):
        raise TranslateError('%s: self._selection.pop(<key>, None) not found after the yield' % what)
    pop_key = _str(p.value.args[0], what + ' pop key')
    # ---- final
    if not (isinstance(final, ast.Expr) and _is_call(final.value, 'select') and not final.value.args
            and len(final.value.keywords) == 1 and final.value.keywords[0].arg is None
            and isinstance(final.value.keywords[0].value, ast.Name)
            and final.value.keywords[0].value.id == 'preselection'):
        raise TranslateError('%s: final self.select(**preselection) not found' % what)
    return dict(field=field, key=key, yield_reset=yield_reset, pop=pop_key, final_reset=final_reset,
                name_sensor=name_sensor)


def item_iterators(repo, out):
    tree = _parse(repo, REL)
    cls = _class(tree, 'DataSet', REL)
    for name in ('scans', 'compscans'):
        g = _generator(cls, name)
        for k in ('field', 'key', 'yield_reset', 'pop', 'final_reset', 'name_sensor'):
            out.append('Definition it_%s_%s : string := %s.' % (name, k, coq_string(g[k])))


ITEMS = [item_iterators]
