"""Translator items for C03: the skeleton of the generators DataSet.scans() / DataSet.compscans() (katdal/dataset.py).

The statements of each generator are looked up by shape (Python ast, fail-closed).  Expected skeleton:

    <indices> = self.<field>_indices[:]
    preselection = dict(...self._selection.items()...)
    preselection['reset'] = <FINAL_RESET literal>
    old_timekeep = self._time_keep.copy()
    [state_data = self.sensor.get(<NAME_SENSOR>)]
    for <v> in <indices>:
        self.select(<KEY>=<v>, reset=<YIELD_RESET literal>)
        [label_data = self.sensor.get(<NAME_SENSOR>)]
        <name> = <data>.unique_values[<data>.indices[<v>]]
        target = self.catalogue.targets[self.target_indices[0]]      ("lowest")
              or self.catalogue.targets[self.sensor[<TARGET_SENSOR>][0]] ("first": first dump of the selection)
        yield <v>, <name>, target
        self._set_keep(old_timekeep.copy())
        self._selection.pop(<POP_KEY>, None)
    self.select(**preselection)

Emitted into coq/Gen/Generated.v, for X in {scans, compscans}:
  it_X_field        : string   attribute the indices are copied from (scan_indices / compscan_indices)
  it_X_key          : string   keyword of the select() call of the loop
  it_X_yield_reset  : string   its reset argument
  it_X_pop          : string   key popped from _selection after the yield
  it_X_final_reset  : string   reset of the final re-select
  it_X_name_sensor  : string   sensor whose unique_values[indices[v]] is yielded
  it_X_target_pick  : string   "lowest" / "first": how the yielded target is picked
  it_X_target_src   : string   the attribute ("target_indices") resp. the per-dump sensor it is picked from
The model (coq/Model/Scans.v) USES these constants; the theorems of Props/C03.v are re-checked against them.

Second item: the run-on numbering of scans / compound scans in ConcatenatedDataSet.__init__ (katdal/concatdata.py).
Expected skeleton (fail-closed):

    decorated_datasets = [(d.<SORT_KEY>, d) for d in datasets]
    decorated_datasets.sort()
    self.datasets = datasets = [d[-1] for d in decorated_datasets]
    ...
    <S1>, <S2> = <START1 int>, <START2 int>
    for n, d in enumerate(datasets):
        ...
        <V> = d.sensor.get(<SENSOR>)                                  } for SENSOR in Observation/scan_index,
        <V>.unique_values = [index + <S> for index in <V>.unique_values]   } Observation/compscan_index, each with its
        <S> += len(<V>.unique_values)                                 } own running offset <S>, assigned nowhere else
        d.sensor[<SENSOR>] = <V>                                      }

Emitted: cc_sort_key, and for X in {scan, compscan}: cc_X_sensor, cc_X_start (Z), cc_X_shift ("index+start"),
cc_X_advance ("len(unique_values)").  The model coq/Model/ScansConcat.v USES cc_X_start and cc_X_advance.
"""
import ast

from vh.translate import TranslateError, _class, _func, _parse, coq_string, coq_strings, coq_Z

REL = 'katdal/dataset.py'


def _self_attr(node, attr=None):
    ok = isinstance(node, ast.Attribute) and isinstance(node.value, ast.Name) and node.value.id == 'self'
    if ok and (attr is None or node.attr == attr):
        return node.attr
    return None


def _str(node, what):
    if isinstance(node, ast.Constant) and isinstance(node.value, str):
        return node.value
    raise TranslateError('%s: expected a string literal' % what)


def _is_call(node, attr):
    return isinstance(node, ast.Call) and isinstance(node.func, ast.Attribute) and node.func.attr == attr


def _sensor_get(stmt, what):
    """<x> = self.sensor.get('<name>') -> (x, name)"""
    if (isinstance(stmt, ast.Assign) and len(stmt.targets) == 1 and isinstance(stmt.targets[0], ast.Name)
            and _is_call(stmt.value, 'get') and _self_attr(stmt.value.func.value, 'sensor')
            and len(stmt.value.args) == 1 and not stmt.value.keywords):
        return stmt.targets[0].id, _str(stmt.value.args[0], what)
    return None


def _generator(cls, name):
    what = 'DataSet.%s' % name
    fn = _func(cls, name, REL)
    body = [s for s in fn.body if not (isinstance(s, ast.Expr) and isinstance(s.value, ast.Constant))]   # docstring
    loops = [i for i, s in enumerate(body) if isinstance(s, ast.For)]
    if len(loops) != 1 or loops[0] != len(body) - 2:
        raise TranslateError('%s: expected <setup>; one for loop; one final statement' % what)
    setup, loop, final = body[:-2], body[-2], body[-1]
    # ---- setup
    if len(setup) not in (4, 5):
        raise TranslateError('%s: unexpected number of set-up statements (%d)' % (what, len(setup)))
    s0 = setup[0]
    if not (isinstance(s0, ast.Assign) and len(s0.targets) == 1 and isinstance(s0.targets[0], ast.Name)
            and isinstance(s0.value, ast.Subscript) and isinstance(s0.value.slice, ast.Slice)
            and s0.value.slice.lower is None and s0.value.slice.upper is None and s0.value.slice.step is None
            and _self_attr(s0.value.value)):
        raise TranslateError('%s: first statement is not <x> = self.<field>[:]' % what)
    indices_var, field = s0.targets[0].id, _self_attr(s0.value.value)
    s1 = setup[1]
    if not (isinstance(s1, ast.Assign) and len(s1.targets) == 1 and isinstance(s1.targets[0], ast.Name)
            and s1.targets[0].id == 'preselection' and isinstance(s1.value, ast.Call)
            and isinstance(s1.value.func, ast.Name) and s1.value.func.id == 'dict' and len(s1.value.args) == 1
            and not s1.value.keywords):
        raise TranslateError('%s: preselection = dict(...) not found' % what)
    inner = s1.value.args[0]
    if isinstance(inner, ast.Call) and isinstance(inner.func, ast.Name) and inner.func.id == 'list' and len(inner.args) == 1:
        inner = inner.args[0]
    if not (_is_call(inner, 'items') and _self_attr(inner.func.value, '_selection') and not inner.args):
        raise TranslateError('%s: preselection is not a copy of self._selection.items()' % what)
    s2 = setup[2]
    if not (isinstance(s2, ast.Assign) and len(s2.targets) == 1 and isinstance(s2.targets[0], ast.Subscript)
            and isinstance(s2.targets[0].value, ast.Name) and s2.targets[0].value.id == 'preselection'
            and _str(s2.targets[0].slice, what) == 'reset'):
        raise TranslateError("%s: preselection['reset'] = ... not found" % what)
    final_reset = _str(s2.value, what + ' final reset')
    s3 = setup[3]
    if not (isinstance(s3, ast.Assign) and len(s3.targets) == 1 and isinstance(s3.targets[0], ast.Name)
            and s3.targets[0].id == 'old_timekeep' and _is_call(s3.value, 'copy')
            and _self_attr(s3.value.func.value, '_time_keep')):
        raise TranslateError('%s: old_timekeep = self._time_keep.copy() not found' % what)
    data = None
    if len(setup) == 5:
        data = _sensor_get(setup[4], what)
        if data is None:
            raise TranslateError('%s: fifth set-up statement is not <x> = self.sensor.get(<name>)' % what)
    # ---- loop
    if not (isinstance(loop.target, ast.Name) and isinstance(loop.iter, ast.Name) and loop.iter.id == indices_var
            and not loop.orelse):
        raise TranslateError('%s: loop does not run over the copied indices' % what)
    v = loop.target.id
    lb = list(loop.body)
    if len(lb) not in (6, 7):
        raise TranslateError('%s: unexpected number of loop statements (%d)' % (what, len(lb)))
    c = lb[0]
    if not (isinstance(c, ast.Expr) and _is_call(c.value, 'select') and isinstance(c.value.func.value, ast.Name)
            and c.value.func.value.id == 'self' and not c.value.args and len(c.value.keywords) == 2):
        raise TranslateError('%s: first loop statement is not self.select(<key>=<v>, reset=<str>)' % what)
    k0, k1 = c.value.keywords
    if not (isinstance(k0.value, ast.Name) and k0.value.id == v and k1.arg == 'reset'):
        raise TranslateError('%s: select() of the loop has an unexpected shape' % what)
    key, yield_reset = k0.arg, _str(k1.value, what + ' yield reset')
    rest = lb[1:]
    if len(lb) == 7:
        if data is not None:
            raise TranslateError('%s: name sensor fetched twice' % what)
        data = _sensor_get(rest[0], what)
        rest = rest[1:]
    if data is None:
        raise TranslateError('%s: name sensor not fetched' % what)
    dvar, name_sensor = data
    n = rest[0]
    ok = (isinstance(n, ast.Assign) and len(n.targets) == 1 and isinstance(n.targets[0], ast.Name)
          and isinstance(n.value, ast.Subscript) and isinstance(n.value.value, ast.Attribute)
          and n.value.value.attr == 'unique_values' and isinstance(n.value.value.value, ast.Name)
          and n.value.value.value.id == dvar and isinstance(n.value.slice, ast.Subscript)
          and isinstance(n.value.slice.value, ast.Attribute) and n.value.slice.value.attr == 'indices'
          and isinstance(n.value.slice.value.value, ast.Name) and n.value.slice.value.value.id == dvar
          and isinstance(n.value.slice.slice, ast.Name) and n.value.slice.slice.id == v)
    if not ok:
        raise TranslateError('%s: <name> = <data>.unique_values[<data>.indices[<v>]] not found' % what)
    name_var = n.targets[0].id
    t = rest[1]
    # target = self.catalogue.targets[<pick>] with <pick> one of
    #   self.target_indices[0]                         "lowest" (the attribute is sorted(set(...)), see item_index_attrs)
    #   self.sensor['Observation/target_index'][0]     "first"  (per-dump sensor of the current selection, time order)
    ok = (isinstance(t, ast.Assign) and len(t.targets) == 1 and isinstance(t.targets[0], ast.Name)
          and isinstance(t.value, ast.Subscript) and isinstance(t.value.value, ast.Attribute)
          and t.value.value.attr == 'targets' and _self_attr(t.value.value.value, 'catalogue')
          and isinstance(t.value.slice, ast.Subscript)
          and isinstance(t.value.slice.slice, ast.Constant) and type(t.value.slice.slice.value) is int
          and t.value.slice.slice.value == 0)
    pick = src = None
    if ok:
        base = t.value.slice.value
        if _self_attr(base, 'target_indices'):
            pick, src = 'lowest', 'target_indices'
        elif (isinstance(base, ast.Subscript) and _self_attr(base.value, 'sensor')
              and isinstance(base.slice, ast.Constant) and isinstance(base.slice.value, str)):
            pick, src = 'first', base.slice.value
    if pick is None:
        raise TranslateError("%s: target = self.catalogue.targets[self.target_indices[0]] (or "
                             "self.sensor['Observation/target_index'][0]) not found" % what)
    y = rest[2]
    if not (isinstance(y, ast.Expr) and isinstance(y.value, ast.Yield) and isinstance(y.value.value, ast.Tuple)
            and [getattr(e, 'id', None) for e in y.value.value.elts] == [v, name_var, t.targets[0].id]):
        raise TranslateError('%s: yield <v>, <name>, target not found' % what)
    r = rest[3]
    if not (isinstance(r, ast.Expr) and _is_call(r.value, '_set_keep') and len(r.value.args) == 1
            and not r.value.keywords and _is_call(r.value.args[0], 'copy')
            and isinstance(r.value.args[0].func.value, ast.Name) and r.value.args[0].func.value.id == 'old_timekeep'):
        raise TranslateError('%s: self._set_keep(old_timekeep.copy()) not found after the yield' % what)
    p = rest[4]
    if not (isinstance(p, ast.Expr) and _is_call(p.value, 'pop') and _self_attr(p.value.func.value, '_selection')
            and len(p.value.args) == 2 and isinstance(p.value.args[1], ast.Constant) and p.value.args[1].value is None):
        raise TranslateError('%s: self._selection.pop(<key>, None) not found after the yield' % what)
    pop_key = _str(p.value.args[0], what + ' pop key')
    # ---- final
    if not (isinstance(final, ast.Expr) and _is_call(final.value, 'select') and not final.value.args
            and len(final.value.keywords) == 1 and final.value.keywords[0].arg is None
            and isinstance(final.value.keywords[0].value, ast.Name)
            and final.value.keywords[0].value.id == 'preselection'):
        raise TranslateError('%s: final self.select(**preselection) not found' % what)
    return dict(field=field, key=key, yield_reset=yield_reset, pop=pop_key, final_reset=final_reset,
                name_sensor=name_sensor, target_pick=pick, target_src=src)


def item_iterators(repo, out):
    tree = _parse(repo, REL)
    cls = _class(tree, 'DataSet', REL)
    for name in ('scans', 'compscans'):
        g = _generator(cls, name)
        for k in ('field', 'key', 'yield_reset', 'pop', 'final_reset', 'name_sensor', 'target_pick', 'target_src'):
            out.append('Definition it_%s_%s : string := %s.' % (name, k, coq_string(g[k])))


# ---------------------------------------------------------------------------------------------------------------
# run-on numbering of a concatenation

CREL = 'katdal/concatdata.py'


def _name(node, ident=None):
    return isinstance(node, ast.Name) and (ident is None or node.id == ident)


def _attr_of(node, var, attr):
    return isinstance(node, ast.Attribute) and node.attr == attr and _name(node.value, var)


def _d_sensor(node):
    return _attr_of(node, 'd', 'sensor')


def _sort_key(body):
    what = 'ConcatenatedDataSet.__init__'
    for i, s in enumerate(body):
        if (isinstance(s, ast.Assign) and len(s.targets) == 1 and _name(s.targets[0], 'decorated_datasets')):
            break
    else:
        raise TranslateError('%s: decorated_datasets = [...] not found' % what)
    lc = s.value
    ok = (isinstance(lc, ast.ListComp) and len(lc.generators) == 1 and not lc.generators[0].ifs
          and _name(lc.generators[0].target, 'd') and _name(lc.generators[0].iter, 'datasets')
          and isinstance(lc.elt, ast.Tuple) and len(lc.elt.elts) == 2 and isinstance(lc.elt.elts[0], ast.Attribute)
          and _name(lc.elt.elts[0].value, 'd') and _name(lc.elt.elts[1], 'd'))
    if not ok:
        raise TranslateError('%s: decorated_datasets is not [(d.<key>, d) for d in datasets]' % what)
    key = lc.elt.elts[0].attr
    if len(body) < i + 3:
        raise TranslateError('%s: sort / undecorate statements missing' % what)
    s1, s2 = body[i + 1], body[i + 2]
    if not (isinstance(s1, ast.Expr) and _is_call(s1.value, 'sort') and _name(s1.value.func.value, 'decorated_datasets')
            and not s1.value.args and not s1.value.keywords):
        raise TranslateError('%s: decorated_datasets.sort() not found' % what)
    ok = (isinstance(s2, ast.Assign) and len(s2.targets) == 2 and _self_attr(s2.targets[0], 'datasets')
          and _name(s2.targets[1], 'datasets') and isinstance(s2.value, ast.ListComp)
          and len(s2.value.generators) == 1 and not s2.value.generators[0].ifs
          and _name(s2.value.generators[0].iter, 'decorated_datasets') and isinstance(s2.value.elt, ast.Subscript)
          and _name(s2.value.elt.value, s2.value.generators[0].target.id if _name(s2.value.generators[0].target) else None)
          and isinstance(s2.value.elt.slice, ast.UnaryOp) and isinstance(s2.value.elt.slice.op, ast.USub)
          and isinstance(s2.value.elt.slice.operand, ast.Constant) and s2.value.elt.slice.operand.value == 1)
    if not ok:
        raise TranslateError('%s: self.datasets = datasets = [d[-1] for d in decorated_datasets] not found' % what)
    # `datasets` must not be rebound afterwards (the loop below has to run over the sorted list)
    for s in body[i + 3:]:
        for n in ast.walk(s):
            if isinstance(n, ast.Name) and n.id == 'datasets' and isinstance(n.ctx, ast.Store):
                raise TranslateError('%s: datasets is rebound after sorting' % what)
    return key


def _run_on(fn):
    what = 'ConcatenatedDataSet.__init__'
    body = fn.body
    inits = {}
    for s in body:
        if (isinstance(s, ast.Assign) and len(s.targets) == 1 and isinstance(s.targets[0], ast.Tuple)
                and isinstance(s.value, ast.Tuple) and len(s.targets[0].elts) == len(s.value.elts)
                and all(_name(t) and t.id.endswith('_start') for t in s.targets[0].elts)):
            for t, v in zip(s.targets[0].elts, s.value.elts):
                if not (isinstance(v, ast.Constant) and isinstance(v.value, int) and not isinstance(v.value, bool)):
                    raise TranslateError('%s: initial offset of %s is not an int literal' % (what, t.id))
                if t.id in inits:
                    raise TranslateError('%s: %s initialised twice' % (what, t.id))
                inits[t.id] = v.value
    loops = [s for s in body if isinstance(s, ast.For) and isinstance(s.iter, ast.Call)
             and _name(s.iter.func, 'enumerate') and len(s.iter.args) == 1
             and _name(s.iter.args[0], 'datasets') and isinstance(s.target, ast.Tuple) and len(s.target.elts) == 2
             and _name(s.target.elts[1], 'd')]
    loops = [l for l in loops if any(isinstance(n, ast.Constant) and n.value == 'Observation/scan_index'
                                     for n in ast.walk(l))]
    if len(loops) != 1 or loops[0].orelse:
        raise TranslateError('%s: expected exactly one `for n, d in enumerate(datasets)` loop fixing the index sensors'
                             % what)
    lb = loops[0].body
    out = {}
    for x in ('scan', 'compscan'):
        sensor = 'Observation/%s_index' % x
        pos = [i for i, s in enumerate(lb) if isinstance(s, ast.Assign) and len(s.targets) == 1 and _name(s.targets[0])
               and _is_call(s.value, 'get') and _d_sensor(s.value.func.value) and len(s.value.args) == 1
               and not s.value.keywords and isinstance(s.value.args[0], ast.Constant) and s.value.args[0].value == sensor]
        if len(pos) != 1 or len(lb) < pos[0] + 4:
            raise TranslateError('%s: <v> = d.sensor.get(%r) not found exactly once' % (what, sensor))
        g, sh, adv, put = lb[pos[0]:pos[0] + 4]
        v = g.targets[0].id
        # <v>.unique_values = [index + <S> for index in <v>.unique_values]
        ok = (isinstance(sh, ast.Assign) and len(sh.targets) == 1 and _attr_of(sh.targets[0], v, 'unique_values')
              and isinstance(sh.value, ast.ListComp) and len(sh.value.generators) == 1
              and not sh.value.generators[0].ifs and _name(sh.value.generators[0].target)
              and _attr_of(sh.value.generators[0].iter, v, 'unique_values')
              and isinstance(sh.value.elt, ast.BinOp) and isinstance(sh.value.elt.op, ast.Add))
        if not ok:
            raise TranslateError('%s: %s.unique_values = [index + <start> for index in %s.unique_values] not found'
                                 % (what, v, v))
        it = sh.value.generators[0].target.id
        a, b = sh.value.elt.left, sh.value.elt.right
        if _name(a, it) and _name(b) and b.id != it:
            start = b.id
        elif _name(b, it) and _name(a) and a.id != it:
            start = a.id
        else:
            raise TranslateError('%s: shift of %s is not <index> + <start>' % (what, sensor))
        if start not in inits:
            raise TranslateError('%s: running offset %s has no int initial value' % (what, start))
        # <S> += len(<v>.unique_values)
        ok = (isinstance(adv, ast.AugAssign) and isinstance(adv.op, ast.Add) and _name(adv.target, start)
              and isinstance(adv.value, ast.Call) and _name(adv.value.func, 'len') and len(adv.value.args) == 1
              and not adv.value.keywords and _attr_of(adv.value.args[0], v, 'unique_values'))
        if not ok:
            raise TranslateError('%s: %s += len(%s.unique_values) not found (the offset must advance by the number of '
                                 '%ss the data set HAS)' % (what, start, v, x))
        # d.sensor[<SENSOR>] = <v>
        ok = (isinstance(put, ast.Assign) and len(put.targets) == 1 and isinstance(put.targets[0], ast.Subscript)
              and _d_sensor(put.targets[0].value) and isinstance(put.targets[0].slice, ast.Constant)
              and put.targets[0].slice.value == sensor and _name(put.value, v))
        if not ok:
            raise TranslateError('%s: d.sensor[%r] = %s not found' % (what, sensor, v))
        # the offset and the sensor variable are assigned nowhere else
        stores = [n for n in ast.walk(fn) if isinstance(n, ast.Name) and n.id == start and isinstance(n.ctx, ast.Store)]
        if len(stores) != 2:
            raise TranslateError('%s: %s is assigned %d times (expected initialisation + one +=)' % (what, start, len(stores)))
        vstores = [n for n in ast.walk(fn) if isinstance(n, ast.Name) and n.id == v and isinstance(n.ctx, ast.Store)]
        if len(vstores) != 1:
            raise TranslateError('%s: %s is assigned %d times' % (what, v, len(vstores)))
        out[x] = dict(sensor=sensor, start=inits[start], var=start)
    if out['scan']['var'] == out['compscan']['var']:
        raise TranslateError('%s: scans and compound scans share one running offset' % what)
    return out


def item_concat_run_on(repo, out):
    tree = _parse(repo, CREL)
    cls = _class(tree, 'ConcatenatedDataSet', CREL)
    fn = _func(cls, '__init__', CREL)
    out.append('Definition cc_sort_key : string := %s.' % coq_string(_sort_key(fn.body)))
    r = _run_on(fn)
    for x in ('scan', 'compscan'):
        out.append('Definition cc_%s_sensor : string := %s.' % (x, coq_string(r[x]['sensor'])))
        out.append('Definition cc_%s_start : Z := %s.' % (x, coq_Z(r[x]['start'])))
        out.append('Definition cc_%s_shift : string := %s.' % (x, coq_string('index+start')))
        out.append('Definition cc_%s_advance : string := %s.' % (x, coq_string('len(unique_values)')))



# ---------------------------------------------------------------------------------------------------------------
# scan_indices / compscan_indices / target_indices: the last three statements of DataSet.select()

import re

INDEX_ATTRS = ('scan_indices', 'compscan_indices', 'target_indices')
_INDEX_STMT = re.compile(r"^self\.(\w+) = sorted\(set\(self\.sensor\['(Observation/\w+)'\]\)\)$")


def index_attrs(repo):
    """[(attribute, sensor)] read from the tail of DataSet.select(): each attribute must be assigned exactly once in
    the class, as `self.<attr> = sorted(set(self.sensor['<sensor>']))`, and these must be the last statements of
    select() (so that they see the masks of the call).  Fail-closed."""
    tree = _parse(repo, REL)
    cls = _class(tree, 'DataSet', REL)
    fn = _func(cls, 'select', REL)
    tail = fn.body[-len(INDEX_ATTRS):]
    got = []
    for st in tail:
        m = _INDEX_STMT.match(ast.unparse(st)) if isinstance(st, ast.Assign) else None
        if not m:
            raise TranslateError("DataSet.select: tail statement is not self.<x>_indices = sorted(set(self.sensor[<name>])): %s"
                                 % ast.unparse(st)[:80])
        got.append((m.group(1), m.group(2)))
    if tuple(a for a, _ in got) != INDEX_ATTRS:
        raise TranslateError('DataSet.select: expected the attributes %s at the end, found %s' % (INDEX_ATTRS, [a for a, _ in got]))
    # assigned nowhere else in the class, apart from the `= []` of the constructor
    for attr in INDEX_ATTRS:
        n_other = 0
        for f in cls.body:
            for n in ast.walk(f):
                if isinstance(n, ast.Attribute) and n.attr == attr and isinstance(n.ctx, ast.Store):
                    if not (isinstance(f, ast.FunctionDef) and f.name == '__init__'):
                        n_other += 1
        if n_other != 1:
            raise TranslateError('DataSet: %s is assigned %d times outside __init__ (expected once, at the end of select())'
                                 % (attr, n_other))
    return got


def item_index_attrs(repo, out):
    got = index_attrs(repo)
    out.append('Definition sel_indices_attrs : list (string * string) := [%s].'
               % '; '.join('(%s, %s)' % (coq_string(a), coq_string(s)) for a, s in got))


# ---------------------------------------------------------------------------------------------------------------
# the segmentation pipelines of the format classes: statement by statement (ast.unparse of every statement from
# `scan = self.sensor.get(<activity>)` to `self.sensor['Observation/target_index'] = ...` must match the template of
# the format, in this order, nothing in between); numbers and strings of the decisions are captured and emitted.

_N = r'(-?\d+)'
_S = r"'([^'\\]*)'"
_DROP = (r"\n    {0}\.events, {0}\.indices = \({0}\.events\[1:\], {0}\.indices\[1:\]\)\n    {0}\.events\[0\] = 0")
T_SCAN_GET = (r"scan = self\.sensor\.get\(f'Antennas/\{self\.ref_ant\}/activity'\)", ())
T_SLEW = (r"if len\(scan\) > " + _N + r" and scan\.events\[" + _N + r"\] == " + _N + r" and \(scan\[" + _N + r"\] == " + _S
          + r"\):" + _DROP.format('scan'),
          ('slew_len_gt', 'slew_event_index', 'slew_event_value', 'slew_dump', 'slew_value'))
T_LABEL_GET_TRY = (r"try:\n    label = self\.sensor\.get\('[\w/]+'\)\nexcept KeyError:\n    label = CategoricalData\(\[''\], "
                   r"(?:all_dumps|\[0, num_dumps\])\)", ())
T_LABEL_GET_V2 = (r"label = sensor_to_categorical\(markup_group\['labels'\]\['timestamp'\], "
                  r"to_str\(markup_group\['labels'\]\['label'\]\[:\]\), data_timestamps, self\.dump_period, "
                  r"\*\*SENSOR_PROPS\['Observation/label'\]\)", ())
T_LABEL_CLEAN = (r"if len\(label\.unique_values\) > " + _N + r":\n    label\.remove\(" + _S + r"\)",
                 ('label_uv_gt', 'label_removed'))
T_UNMATCHED = (r"scan\.add_unmatched\(label\.events\)", ())
T_PUT_STATE = (r"self\.sensor\['Observation/scan_state'\] = scan", ())
T_PUT_SCAN = (r"self\.sensor\['Observation/scan_index'\] = CategoricalData\(list\(range\(len\(scan\)\)\), scan\.events\)", ())
T_LABEL_ALIGN = (r"label\.align\(scan\.events\)", ())
T_LABEL_ADD = (r"if label\.events\[0\] > " + _N + r":\n    label\.add\(" + _N + ", " + _S + r"\)",
               ('label_first_gt', 'label_add_event', 'label_add_value'))
T_PUT_LABEL = (r"self\.sensor\['Observation/label'\] = label", ())
T_PUT_CSCAN = (r"self\.sensor\['Observation/compscan_index'\] = CategoricalData\(list\(range\(len\(label\)\)\), label\.events\)", ())
T_TARGET_GET = (r"target = self\.sensor\.get\(f'Antennas/\{self\.ref_ant\}/target'\)", ())
T_NOTHING = (r"if len\(target\) > " + _N + r" and target\[" + _N + r"\] == " + _S + r":" + _DROP.format('target'),
             ('nothing_len_gt', 'nothing_dump', 'nothing_value'))
T_TARGET_ALIGN = (r"target\.align\(scan\.events\)", ())
T_TARGET_RR = (r"target\.remove_repeats\(\)", ())
T_STOP_LOOP = (r"for segment, scan_state in scan\.segments\(\):\n"
               r"    if scan_state == " + _S + r" and target\[segment\.start\] is target\[" + _N + r"\]:\n"
               r"        continue\n"
               r"    if target\[segment\.start\] is not target\[" + _N + r"\]:\n"
               r"        target\.events = target\.events\[1:\]\n"
               r"        target\.indices = target\.indices\[1:\]\n"
               r"        target\.events\[0\] = 0\n"
               r"        target\.align\(target\.events\)\n"
               r"    break", ('stop_value', 'stop_dump', 'stop_dump2'))
T_PUT_TARGET = (r"self\.sensor\['Observation/target'\] = target", ())
T_PUT_TINDEX = (r"self\.sensor\['Observation/target_index'\] = CategoricalData\(target\.indices, target\.events\)", ())

_COMMON_HEAD = [T_SCAN_GET, T_SLEW]
_COMMON_MID = [T_LABEL_CLEAN, T_UNMATCHED, T_PUT_STATE, T_PUT_SCAN, T_LABEL_ALIGN, T_LABEL_ADD, T_PUT_LABEL, T_PUT_CSCAN,
               T_TARGET_GET]
SEG_FORMATS = {
    'v4': ('katdal/visdatav4.py', 'VisibilityDataV4',
           _COMMON_HEAD + [T_LABEL_GET_TRY] + _COMMON_MID + [T_TARGET_ALIGN, T_TARGET_RR, T_STOP_LOOP, T_PUT_TARGET, T_PUT_TINDEX]),
    'v3': ('katdal/h5datav3.py', 'H5DataV3',
           _COMMON_HEAD + [T_LABEL_GET_TRY] + _COMMON_MID + [T_NOTHING, T_TARGET_ALIGN, T_PUT_TARGET, T_PUT_TINDEX]),
    'v2': ('katdal/h5datav2.py', 'H5DataV2',
           _COMMON_HEAD + [T_LABEL_GET_V2] + _COMMON_MID + [T_TARGET_ALIGN, T_PUT_TARGET, T_PUT_TINDEX]),
}
SEG_INT_KEYS = ('slew_len_gt', 'slew_event_index', 'slew_event_value', 'slew_dump', 'label_uv_gt', 'label_first_gt',
                'label_add_event', 'nothing_len_gt', 'nothing_dump', 'stop_dump')
SEG_STR_KEYS = ('slew_value', 'label_removed', 'label_add_value', 'nothing_value', 'stop_value')
# values of a format that has no such statement (emitted all the same so that the model is uniform; never used)
SEG_DEFAULTS = dict(nothing_len_gt=1, nothing_dump=0, nothing_value='', stop_dump=0, stop_value='')


def segmentation_constants(repo, fmt):
    rel, cname, templates = SEG_FORMATS[fmt]
    what = '%s.__init__ (segmentation)' % cname
    tree = _parse(repo, rel)
    fn = _func(_class(tree, cname, rel), '__init__', rel)
    texts = [ast.unparse(s) for s in fn.body]
    starts = [i for i, t in enumerate(texts) if t.startswith('scan = ')]
    if len(starts) != 1:
        raise TranslateError('%s: expected exactly one statement `scan = ...`, found %d' % (what, len(starts)))
    region = texts[starts[0]:starts[0] + len(templates)]
    if len(region) != len(templates):
        raise TranslateError('%s: segmentation block is shorter than expected' % what)
    vals = {}
    for k, ((pat, names), text) in enumerate(zip(templates, region)):
        m = re.fullmatch(pat, text)
        if not m:
            raise TranslateError('%s: statement %d of the segmentation block does not have the expected shape: %s'
                                 % (what, k, text.replace('\n', ' / ')[:160]))
        for nm, g in zip(names, m.groups()):
            vals[nm] = g
    # scan / label / target are not touched again before the selection is initialised
    for t in texts[starts[0] + len(templates):]:
        if (re.search(r'\b(scan|label|target)\.(align|add|remove|add_unmatched|remove_repeats)\(', t)
                or re.search(r'\b(scan|label|target)\.(events|indices|unique_values)(\[[^\]]*\])?(, [\w.\[\]:]+)* [-+*/|&]?= ', t)):
            raise TranslateError('%s: the segmentation sensors are modified again after the block: %s' % (what, t[:100]))
    if 'stop_dump' in vals and vals.pop('stop_dump2') != vals['stop_dump']:
        raise TranslateError('%s: the two tests of the initial-stop loop compare with different dumps' % what)
    out = dict(SEG_DEFAULTS)
    out.update(vals)
    for k in SEG_INT_KEYS:
        out[k] = int(out[k])
    return out


V1_TEMPLATE = [
    r"scan_labels = \[to_str\(s\.attrs\.get\('label', ''\)\) for s in self\._scan_groups\]",
    r"compscan_labels = \[to_str\(s\.parent\.attrs\.get\('label', ''\)\) for s in self\._scan_groups\]",
    r"scan_states = \[_labels_to_state\(s, cs\) for s, cs in zip\(scan_labels, compscan_labels\)\]",
    r"self\.sensor\['Observation/scan_state'\] = CategoricalData\(scan_states, self\._segments\)",
    r"self\.sensor\['Observation/scan_index'\] = CategoricalData\(list\(range\(len\(scan_states\)\)\), self\._segments\)",
    r"compscan = CategoricalData\(\[s\.parent\.name for s in self\._scan_groups\], self\._segments\)",
    r"compscan\.remove_repeats\(\)",
    r"label = CategoricalData\(compscan_labels, self\._segments\)",
    r"label\.align\(compscan\.events\)",
    r"self\.sensor\['Observation/label'\] = label",
    r"self\.sensor\['Observation/compscan_index'\] = CategoricalData\(list\(range\(len\(label\)\)\), label\.events\)",
    r"target = CategoricalData\(\[_robust_target\(to_str\(s\.parent\.attrs\.get\('target', ''\)\)\) for s in self\._scan_groups\], "
    r"self\._segments\)",
    r"target\.align\(compscan\.events\)",
    r"self\.sensor\['Observation/target'\] = target",
    r"self\.sensor\['Observation/target_index'\] = CategoricalData\(target\.indices, target\.events\)",
]


def segmentation_v1(repo):
    rel, cname = 'katdal/h5datav1.py', 'H5DataV1'
    what = '%s.__init__ (segmentation)' % cname
    tree = _parse(repo, rel)
    fn = _func(_class(tree, cname, rel), '__init__', rel)
    texts = [ast.unparse(s) for s in fn.body]
    starts = [i for i, t in enumerate(texts) if t.startswith('scan_labels = ')]
    if len(starts) != 1:
        raise TranslateError('%s: expected exactly one statement `scan_labels = ...`' % what)
    region = texts[starts[0]:starts[0] + len(V1_TEMPLATE)]
    if len(region) != len(V1_TEMPLATE):
        raise TranslateError('%s: segmentation block is shorter than expected' % what)
    for k, (pat, text) in enumerate(zip(V1_TEMPLATE, region)):
        if not re.fullmatch(pat, text):
            raise TranslateError('%s: statement %d of the segmentation block does not have the expected shape: %s'
                                 % (what, k, text.replace('\n', ' / ')[:160]))
    for t in texts[starts[0] + len(V1_TEMPLATE):]:
        if re.search(r'\b(compscan|label|target)\.(align|add|remove|add_unmatched|remove_repeats)\(', t):
            raise TranslateError('%s: the segmentation sensors are modified again after the block: %s' % (what, t[:100]))
    return True


def item_segmentation(repo, out):
    segmentation_v1(repo)
    out.append('Definition seg_v1_pipeline : list string := %s.'
               % coq_strings(('make_state', 'make_scan_index', 'make_compscan', 'remove_repeats', 'make_label',
                              'label_align_compscan', 'make_compscan_index', 'make_target', 'target_align_compscan',
                              'make_target_index')))
    for fmt in ('v4', 'v3', 'v2'):
        c = segmentation_constants(repo, fmt)
        for k in SEG_INT_KEYS:
            out.append('Definition seg_%s_%s : Z := %s.' % (fmt, k, coq_Z(c[k])))
        for k in SEG_STR_KEYS:
            out.append('Definition seg_%s_%s : string := %s.' % (fmt, k, coq_string(c[k])))


ITEMS = [item_iterators, item_concat_run_on, item_index_attrs, item_segmentation]
