"""Fail-closed translator: /repo source (Python ast) -> coq/Gen/Generated.v.

Every item is looked up by name in the current working tree of /repo and must have
exactly the syntactic shape expected here; anything else raises TranslateError, which
the pipeline treats as a broken tie (DESIGN.md section 2, step 1).
"""
import ast
import os


class TranslateError(Exception):
    pass


# ---------------------------------------------------------------------------
# Normalisation of edits that cannot change any behaviour a property talks about (design.d/translator_robustness.md).
# Applied to every katdal file inside `_parse` and - through `parse_template` / `normalise_tree` - to the templates the
# items compare against, so that both sides are in the same normal form.  VERIF_TRANSLATE_RAW=1 switches it off.

MESSAGE = '<message>'
LOG_METHODS = ('debug', 'info', 'warning', 'warn', 'error', 'exception', 'critical', 'log')
# builtins that only run the same protocol methods (__len__, __iter__, __str__, __repr__, __lt__, ...) on their
# arguments that `%` / f-string formatting, comparison and subscription run anyway
_PURE_BUILTINS = frozenset(('len', 'str', 'repr', 'int', 'float', 'bool', 'list', 'tuple', 'set', 'frozenset', 'dict',
                            'sorted', 'min', 'max', 'sum', 'abs', 'round', 'type', 'range', 'enumerate', 'zip',
                            'reversed', 'hex', 'id', 'isinstance'))
_PURE_METHODS = frozenset(('keys', 'values', 'items'))      # on a benign receiver, without arguments
_BENIGN_OPS = (ast.Mod, ast.Add, ast.Sub, ast.Mult, ast.Div, ast.FloorDiv)


def _benign_expr(n, impure=None, pure=_PURE_BUILTINS):
    """True if evaluating `n` can do nothing but read names / attributes / items, format, compare and do arithmetic
    on them.  Calls outside the white list make it impure; with `impure` (a list) they are collected instead (the
    caller keeps them pinned) - anything else that is not in the grammar (walrus, lambda, await, yield, starred,
    comprehensions with conditions on calls ...) always gives False."""
    def rec(x):
        return _benign_expr(x, impure, pure)
    if n is None or isinstance(n, (ast.Constant, ast.Name)):
        return True
    if isinstance(n, ast.Attribute):
        return rec(n.value)
    if isinstance(n, ast.Subscript):
        return rec(n.value) and rec(n.slice)
    if isinstance(n, ast.Slice):
        return rec(n.lower) and rec(n.upper) and rec(n.step)
    if isinstance(n, (ast.Tuple, ast.List, ast.Set)):
        return all(rec(e) for e in n.elts)
    if isinstance(n, ast.Dict):
        return all(k is not None and rec(k) for k in n.keys) and all(rec(v) for v in n.values)
    if isinstance(n, ast.JoinedStr):
        return all(rec(v) for v in n.values)
    if isinstance(n, ast.FormattedValue):
        return rec(n.value) and rec(n.format_spec)
    if isinstance(n, ast.BinOp):
        return isinstance(n.op, _BENIGN_OPS) and rec(n.left) and rec(n.right)
    if isinstance(n, ast.UnaryOp):
        return isinstance(n.op, (ast.Not, ast.USub, ast.UAdd)) and rec(n.operand)
    if isinstance(n, ast.BoolOp):
        return all(rec(v) for v in n.values)
    if isinstance(n, ast.Compare):
        return rec(n.left) and all(rec(c) for c in n.comparators)
    if isinstance(n, ast.IfExp):
        return rec(n.test) and rec(n.body) and rec(n.orelse)
    if isinstance(n, (ast.GeneratorExp, ast.ListComp, ast.SetComp)):
        return rec(n.elt) and all(_benign_comp(g, impure, pure) for g in n.generators)
    if isinstance(n, ast.Call):
        ok = False
        if not any(isinstance(a, ast.Starred) for a in n.args) and all(k.arg is not None for k in n.keywords):
            if isinstance(n.func, ast.Name) and n.func.id in pure and not n.keywords:
                ok = True
            elif isinstance(n.func, ast.Attribute):
                if n.func.attr in _PURE_METHODS and not n.args and not n.keywords and _benign_expr(n.func.value, None, pure):
                    ok = True
                elif n.func.attr == 'join' and isinstance(n.func.value, ast.Constant) \
                        and isinstance(n.func.value.value, str) and len(n.args) == 1 and not n.keywords:
                    ok = True
                elif n.func.attr == 'format' and _is_message(n.func.value):
                    ok = rec(n.func.value)
        if ok and all(_benign_expr(a, None, pure) for a in n.args) and all(_benign_expr(k.value, None, pure) for k in n.keywords):
            return True
        if impure is not None:
            impure.append(n)        # kept whole (and therefore pinned) by the caller
            return True
        return False
    return False


def _benign_comp(g, impure, pure):
    def names_only(t):
        return isinstance(t, ast.Name) or (isinstance(t, (ast.Tuple, ast.List)) and all(names_only(e) for e in t.elts))
    return (not g.is_async and names_only(g.target) and _benign_expr(g.iter, impure, pure)
            and all(_benign_expr(c, impure, pure) for c in g.ifs))


def _is_message(n):
    """Plainly a message: a string literal, an f-string, `<message> % operands`, `<message> + x` / `x + <message>`,
    `<message>.format(...)`."""
    if isinstance(n, ast.JoinedStr) or (isinstance(n, ast.Constant) and isinstance(n.value, str)):
        return True
    if isinstance(n, ast.BinOp) and isinstance(n.op, ast.Mod):
        return _is_message(n.left)
    if isinstance(n, ast.BinOp) and isinstance(n.op, ast.Add):
        return _is_message(n.left) or _is_message(n.right)
    if isinstance(n, ast.Call) and isinstance(n.func, ast.Attribute) and n.func.attr == 'format':
        return _is_message(n.func.value)
    return False


def _message_placeholder(n, pure=_PURE_BUILTINS):
    """The normal form of a message expression, or None if `n` is not plainly a message / contains something whose
    evaluation could matter.  Calls outside the white list that occur among the operands stay (in source order)."""
    if not _is_message(n):
        return None
    impure = []
    if not _benign_expr(n, impure, pure):
        return None
    if impure:
        return ast.Tuple(elts=[ast.Constant(MESSAGE)] + impure, ctx=ast.Load())
    return ast.Constant(MESSAGE)


def _dotted(n):
    return isinstance(n, ast.Name) or (isinstance(n, ast.Attribute) and _dotted(n.value))


class _Bindings(ast.NodeVisitor):
    """Every way a name can be (re)bound in a file, so that `logger` / `logging` / `warnings` are only trusted when
    they are bound exactly once, at module level, in the expected way."""

    def __init__(self):
        self.bound = {}

    def _b(self, name, how):
        self.bound.setdefault(name, []).append(how)

    def visit_Name(self, n):
        if not isinstance(n.ctx, ast.Load):
            self._b(n.id, n)

    def visit_arg(self, n):
        self._b(n.arg, n)

    def visit_alias(self, n):
        self._b((n.asname or n.name).split('.')[0], n)

    def visit_FunctionDef(self, n):
        self._b(n.name, n)
        self.generic_visit(n)

    visit_AsyncFunctionDef = visit_ClassDef = visit_FunctionDef

    def visit_ExceptHandler(self, n):
        if n.name:
            self._b(n.name, n)
        self.generic_visit(n)

    def visit_Global(self, n):
        for x in n.names:
            self._b(x, n)

    visit_Nonlocal = visit_Global

    def generic_visit(self, n):
        for f in ('name', 'rest'):          # match statement captures (MatchAs / MatchStar / MatchMapping)
            if type(n).__name__.startswith('Match') and isinstance(getattr(n, f, None), str):
                self._b(getattr(n, f), n)
        super().generic_visit(n)


def _trusted_names(tree):
    """(names that are the logging module, names that are the module logger, names that are the warnings module,
    white-listed builtins that the file does not rebind anywhere)."""
    if not isinstance(tree, ast.Module):
        return set(), set(), set(), frozenset()
    b = _Bindings()
    b.visit(tree)
    top = {}
    for st in tree.body:
        if isinstance(st, ast.Import):
            for a in st.names:
                if a.name in ('logging', 'warnings'):
                    top[a.asname or a.name] = (a, a.name)
        elif (isinstance(st, ast.Assign) and len(st.targets) == 1 and isinstance(st.targets[0], ast.Name)
              and isinstance(st.value, ast.Call) and isinstance(st.value.func, ast.Attribute)
              and st.value.func.attr == 'getLogger' and isinstance(st.value.func.value, ast.Name)):
            top[st.targets[0].id] = (st.targets[0], 'logger:' + st.value.func.value.id)
    once = {k: v for k, v in top.items() if len(b.bound.get(k, [])) == 1 and b.bound[k][0] is v[0]}
    logging_names = set(k for k, v in once.items() if v[1] == 'logging')
    loggers = set(k for k, v in once.items() if v[1].startswith('logger:') and v[1][7:] in logging_names)
    warns = set(k for k, v in once.items() if v[1] == 'warnings')
    return logging_names, loggers, warns, frozenset(x for x in _PURE_BUILTINS if x not in b.bound)


class _Benign(ast.NodeTransformer):
    """(a) docstrings, other constant expression statements and `pass` are dropped; (b) `logger.<level>(...)` statements
    whose arguments are benign are dropped (otherwise only their message text is replaced), an `if` that is left with
    nothing but a benign test is dropped, `except X as e` loses an `e` nobody reads; (c) the message of
    `raise Exc(<message>)`, `warnings.warn(<message>, ...)` and `assert c, <message>` is replaced by a placeholder / dropped.
    Exception classes, raise points, guards, causes (`from e`), warning categories and every other statement stay."""

    def __init__(self, logging_names, loggers, warns, pure):
        self.logging_names, self.loggers, self.warns, self.pure = logging_names, loggers, warns, pure

    # ---- statements lists
    def _log_call(self, st):
        if not (isinstance(st, ast.Expr) and isinstance(st.value, ast.Call)):
            return None
        c = st.value
        if (isinstance(c.func, ast.Attribute) and c.func.attr in LOG_METHODS and isinstance(c.func.value, ast.Name)
                and c.func.value.id in (self.loggers | self.logging_names)):
            return c
        return None

    def _block(self, stmts, required):
        out = []
        for st in stmts:
            r = self.visit(st)
            for s in (r if isinstance(r, list) else [r]):
                if s is None or isinstance(s, ast.Pass):
                    continue
                if isinstance(s, ast.Expr) and isinstance(s.value, ast.Constant):
                    continue        # docstring, stray literal, `...`
                out.append(s)
        if not out and required:
            out = [ast.Pass()]
        return out

    def generic_visit(self, node):
        for field, value in ast.iter_fields(node):
            if isinstance(value, list) and value and isinstance(value[0], ast.stmt):
                setattr(node, field, self._block(value, field == 'body'))
            elif isinstance(value, list):
                new = []
                for v in value:
                    if isinstance(v, ast.AST):
                        v = self.visit(v)
                        if v is None:
                            continue
                        if isinstance(v, list):
                            new.extend(v)
                            continue
                    new.append(v)
                value[:] = new
            elif isinstance(value, ast.AST):
                setattr(node, field, self.visit(value))
        return node

    # ---- (b) logging
    def visit_Expr(self, node):
        self.generic_visit(node)
        c = self._log_call(node)
        if c is not None:
            if (not any(isinstance(a, ast.Starred) for a in c.args) and all(k.arg is not None for k in c.keywords)
                    and all(_benign_expr(a, None, self.pure) for a in c.args)
                    and all(_benign_expr(k.value, None, self.pure) for k in c.keywords)):
                return None
            i = 1 if c.func.attr == 'log' else 0       # not droppable: only the wording is ignored
            if len(c.args) > i and not any(isinstance(a, ast.Starred) for a in c.args[:i + 1]):
                ph = _message_placeholder(c.args[i], self.pure)      # keeps the calls made among its operands
                if ph is not None:
                    c.args[i] = ph
            return node
        v = node.value
        if (isinstance(v, ast.Call) and isinstance(v.func, ast.Attribute) and v.func.attr == 'warn'
                and isinstance(v.func.value, ast.Name) and v.func.value.id in self.warns and v.args):
            ph = _message_placeholder(v.args[0], self.pure)
            if ph is not None:
                v.args[0] = ph
        return node

    def visit_If(self, node):
        self.generic_visit(node)
        if all(isinstance(s, ast.Pass) for s in node.body) and not node.orelse and _benign_expr(node.test, None, self.pure):
            return None
        return node

    def visit_Try(self, node):
        self.generic_visit(node)
        if not node.handlers and not node.finalbody:       # the finally block held nothing but logging
            return node.body + node.orelse
        return node

    visit_TryStar = visit_Try

    # ---- (c) messages
    def visit_Raise(self, node):
        self.generic_visit(node)
        e = node.exc
        if isinstance(e, ast.Call) and _dotted(e.func) and len(e.args) == 1 and not e.keywords:
            ph = _message_placeholder(e.args[0], self.pure)
            if ph is not None:
                e.args = [ph]
        return node

    def visit_Assert(self, node):
        self.generic_visit(node)
        if node.msg is not None and _benign_expr(node.msg, None, self.pure):
            node.msg = None
        return node


def _drop_unread_handler_names(tree):
    """`except X as e:` -> `except X:` when no code of the enclosing top-level function / class (for module-level code:
    of the whole file) reads or writes a variable `e` outside handlers that bind it themselves, and this handler does not
    use it either.  (`as e` unbinds `e` when the handler ends, so another variable `e` in scope keeps the name pinned.)"""
    def region(scope, handlers):
        handlers = [h for h in handlers if h.name]
        if not handlers:
            return
        inside = {}
        for h in ast.walk(scope):
            if isinstance(h, ast.ExceptHandler) and h.name:
                for n in ast.walk(h):
                    if isinstance(n, ast.Name) and n.id == h.name:
                        inside.setdefault(h.name, set()).add(id(n))
        outside = set()
        for n in ast.walk(scope):
            if isinstance(n, ast.Name) and id(n) not in inside.get(n.id, ()):
                outside.add(n.id)
            elif isinstance(n, (ast.Global, ast.Nonlocal)):
                outside.update(n.names)
            elif isinstance(n, ast.arg):
                outside.add(n.arg)
            elif isinstance(n, ast.alias):
                outside.add((n.asname or n.name).split('.')[0])
            elif isinstance(n, (ast.FunctionDef, ast.AsyncFunctionDef, ast.ClassDef)):
                outside.add(n.name)
        for h in handlers:
            if h.name not in outside and not any(isinstance(n, ast.Name) and n.id == h.name for n in ast.walk(h)):
                h.name = None

    def handlers_of(node):
        return [h for h in ast.walk(node) if isinstance(h, ast.ExceptHandler)]
    defs = (ast.FunctionDef, ast.AsyncFunctionDef, ast.ClassDef)
    if isinstance(tree, ast.Module):
        for st in tree.body:
            if isinstance(st, defs):
                region(st, handlers_of(st))
        region(tree, [h for st in tree.body if not isinstance(st, defs) for h in handlers_of(st)])
    else:
        region(tree, handlers_of(tree))


NORMALISE = os.environ.get('VERIF_TRANSLATE_RAW') != '1'


def normalise_tree(tree, trusted=False):
    """Normal form of a parsed katdal file (trusted=False: `logger` / `warnings` must be bound once, at module level, by
    `logger = logging.getLogger(...)` / `import warnings`) or of a template fragment written by us (trusted=True: the
    names `logger`, `logging`, `warnings` mean what they say).  Works in place and returns the tree."""
    if not NORMALISE:
        return tree
    if trusted:
        names = ({'logging'}, {'logger'}, {'warnings'}, _PURE_BUILTINS)
    else:
        names = _trusted_names(tree)
    tree = _Benign(*names).visit(tree)
    if isinstance(tree, list):
        tree = ast.Module(body=tree, type_ignores=[])
    _drop_unread_handler_names(tree)
    return ast.fix_missing_locations(tree)


def parse_template(text, mode='exec'):
    """ast.parse of a template (source text written in an item), in the same normal form as the katdal files."""
    return normalise_tree(ast.parse(text, mode=mode), trusted=True)


def normalise_source(text, mode='exec'):
    """The normal form of a piece of source text, unparsed again (for items that compare `ast.unparse` text)."""
    return ast.unparse(parse_template(text, mode))


def _parse(repo, rel):
    p = os.path.join(repo, rel)
    try:
        tree = ast.parse(open(p).read(), p)
    except (OSError, SyntaxError) as e:
        raise TranslateError('%s: %s' % (rel, e))
    return normalise_tree(tree)


def _module_assign(tree, name, rel):
    found = [n for n in tree.body if isinstance(n, ast.Assign) and len(n.targets) == 1
             and isinstance(n.targets[0], ast.Name) and n.targets[0].id == name]
    if len(found) != 1:
        raise TranslateError('%s:%s: expected exactly one module-level assignment, found %d' % (rel, name, len(found)))
    return found[0].value


def _class(tree, name, rel):
    for n in tree.body:
        if isinstance(n, ast.ClassDef) and n.name == name:
            return n
    raise TranslateError('%s: class %s not found' % (rel, name))


def _func(node, name, rel):
    body = node.body
    found = [n for n in body if isinstance(n, ast.FunctionDef) and n.name == name]
    if len(found) < 1:
        raise TranslateError('%s: function %s not found' % (rel, name))
    return found[-1]


def _const_eval(node, env, what):
    """Evaluate a tiny constant-expression language: ints, names in env, <<, |, +, -, *, tuples of str."""
    if isinstance(node, ast.Constant) and isinstance(node.value, (int, str, float)) and not isinstance(node.value, bool):
        return node.value
    if isinstance(node, ast.Name) and node.id in env:
        return env[node.id]
    if isinstance(node, ast.BinOp):
        a = _const_eval(node.left, env, what)
        b = _const_eval(node.right, env, what)
        if isinstance(a, int) and isinstance(b, int):
            if isinstance(node.op, ast.LShift):
                return a << b
            if isinstance(node.op, ast.BitOr):
                return a | b
            if isinstance(node.op, ast.Add):
                return a + b
            if isinstance(node.op, ast.Sub):
                return a - b
            if isinstance(node.op, ast.Mult):
                return a * b
            if isinstance(node.op, ast.Pow) and b >= 0:
                return a ** b
    if isinstance(node, ast.UnaryOp) and isinstance(node.op, ast.USub):
        v = _const_eval(node.operand, env, what)
        if isinstance(v, (int, float)):
            return -v
    if isinstance(node, (ast.Tuple, ast.List)):
        return tuple(_const_eval(e, env, what) for e in node.elts)
    raise TranslateError('%s: unsupported constant expression %s' % (what, ast.dump(node)[:120]))


def coq_string(s):
    if not all(32 <= ord(c) < 127 and c != '"' for c in s):
        raise TranslateError('string %r not representable' % s)
    return '"%s"%%string' % s


def coq_strings(t):
    return '[' + '; '.join(coq_string(s) for s in t) + ']'


def coq_Z(n):
    return '(%d)%%Z' % n


# ---------------------------------------------------------------------------
# items

def item_flags(repo, out):
    rel = 'katdal/flags.py'
    tree = _parse(repo, rel)
    names = _const_eval(_module_assign(tree, 'NAMES', rel), {}, 'flags.NAMES')
    if not (isinstance(names, tuple) and all(isinstance(s, str) for s in names)):
        raise TranslateError('flags.NAMES is not a tuple of strings')
    out.append('Definition flag_names : list string := %s.' % coq_strings(names))
    env = {}
    for nm in ('STATIC', 'CAM', 'DATA_LOST', 'INGEST_RFI', 'PREDICTED_RFI', 'CAL_RFI', 'POSTPROC'):
        b = _const_eval(_module_assign(tree, nm + '_BIT', rel), env, nm + '_BIT')
        env[nm + '_BIT'] = b
    bits = []
    masks = []
    for nm in ('STATIC', 'CAM', 'DATA_LOST', 'INGEST_RFI', 'PREDICTED_RFI', 'CAL_RFI', 'POSTPROC'):
        v = _const_eval(_module_assign(tree, nm, rel), env, nm)
        env[nm] = v
        if not isinstance(v, int) or not isinstance(env[nm + '_BIT'], int):
            raise TranslateError('flags.%s not an int' % nm)
        bits.append('(%s, %s)' % (coq_string(nm.lower()), coq_Z(env[nm + '_BIT'])))
        masks.append('(%s, %s)' % (coq_string(nm.lower()), coq_Z(v)))
    out.append('Definition flag_bits : list (string * Z) := [%s].' % '; '.join(bits))
    out.append('Definition flag_masks : list (string * Z) := [%s].' % '; '.join(masks))


ITEMS = [item_flags]


def generate(repo, failures=None):
    """Returns the text of Generated.v.  An item that fails (TranslateError) contributes only a comment; its
    owner (module name, message) is appended to `failures` (if None, the first failure is raised)."""
    out = ['(* GENERATED by harness/vh/translate.py from the working tree of /repo -- do not edit. *)',
           'From Coq Require Import ZArith List String.', 'Import ListNotations.', 'Open Scope Z_scope.', '']
    from vh import translate_items
    import re
    emitted = {}
    for it in ITEMS + translate_items.ITEMS:
        part = []
        try:
            it(repo, part)
            for i, line in enumerate(part):
                # two items (of two properties) may pin the same constant under the same name: the second, IDENTICAL,
                # definition is left out (Coq rejects a redefinition); a different text is kept and fails in coqc
                m = re.match(r'Definition\s+([\w\']+)', line) if isinstance(line, str) else None
                if m and emitted.get(m.group(1), (None, None))[0] == line:
                    part[i] = '(* %s: the same definition was already emitted by %s *)' % (m.group(1), emitted[m.group(1)][1])
                elif m:
                    emitted.setdefault(m.group(1), (line, it.__name__))
            out += part
        except TranslateError as e:
            if failures is None:
                raise
            owner = it.__module__.split('.')[-1]
            failures.append((owner, '%s: %s' % (it.__name__, e)))
            # (the message quotes source text: `range(*key...` would OPEN a nested comment and break Generated.v for everyone)
            out.append('(* translator item %s FAILED: %s *)' % (it.__name__, str(e).replace('*)', '* )').replace('(*', '( *')))
        out.append('')
    return '\n'.join(out) + '\n'
