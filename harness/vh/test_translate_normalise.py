"""Unit tests of the normalisation pass of vh.translate (design.d/translator_robustness.md).

    /venv/bin/python harness/vh/test_translate_normalise.py

`same(a, b)`: the two module sources have the SAME normal form (the edit a -> b must be ignored);
`differ(a, b)`: they must still differ (the edit must still be seen by every item that pins the function).
"""
import ast
import os
import sys
import textwrap
import unittest

sys.path.insert(0, os.path.dirname(os.path.dirname(os.path.abspath(__file__))))
os.environ.pop('VERIF_TRANSLATE_RAW', None)
from vh import translate  # noqa: E402

HEAD = 'import logging\nimport warnings\nlogger = logging.getLogger(__name__)\n'


def nf(src, head=HEAD, trusted=False):
    tree = ast.parse(head + textwrap.dedent(src))
    return ast.unparse(translate.normalise_tree(tree, trusted=trusted))


class T(unittest.TestCase):
    def same(self, a, b, **kw):
        self.assertEqual(nf(a, **kw), nf(b, **kw))

    def differ(self, a, b, **kw):
        self.assertNotEqual(nf(a, **kw), nf(b, **kw))

    # ------------------------------------------------------------------ (a) docstrings, comments, pass
    def test_docstrings_and_comments(self):
        self.same('''
            def f(x):
                """Old docstring."""
                return x + 1   # comment
            class C:
                """doc"""
                def m(self):
                    "doc"
                    def inner():
                        """inner doc"""
                        return 1
                    return inner
            ''', '''
            def f(x):
                """New docstring

                with more lines."""
                # another comment
                return x + 1
            class C:
                def m(self):
                    def inner():
                        return 1
                    return inner
            ''')

    def test_docstring_only_function_is_pass(self):
        self.same('def f():\n    """doc"""\n', 'def f():\n    pass\n')
        self.same('def f():\n    """doc"""\n    pass\n    return 1\n', 'def f():\n    return 1\n')

    def test_string_that_is_not_a_statement_stays(self):
        self.differ('def f():\n    return "a"\n', 'def f():\n    return "b"\n')
        self.differ('def f():\n    x = "a"\n    return x\n', 'def f():\n    x = "b"\n    return x\n')
        self.differ('NAMES = ("a", "b")\n', 'NAMES = ("a", "c")\n')

    # ------------------------------------------------------------------ (b) logging
    def test_logging_added_removed_reworded(self):
        base = '''
            def f(self, x):
                y = x + 1
                return y
            '''
        self.same(base, '''
            def f(self, x):
                logger.debug('entering f with %s', x)
                y = x + 1
                logger.info(f'y is {y!r} for {self.name}')
                logger.warning('values %s / %d', self.cache['k'], len(x), exc_info=True)
                logger.log(logging.INFO, 'x=%s' % (x,))
                return y
            ''')
        self.same('def f(x):\n    logger.info("old %s", x)\n    return x\n',
                  'def f(x):\n    logger.warning("new text %s (%d)", x, len(x))\n    return x\n')

    def test_logging_only_branches_vanish(self):
        base = 'def f(x):\n    return x\n'
        self.same(base, 'def f(x):\n    if x is None or not x.ok:\n        logger.debug("nothing")\n    return x\n')
        self.same(base, 'def f(x):\n    if x > 3:\n        logger.debug("big")\n    else:\n        logger.debug("small")\n    return x\n')
        self.same('def f(x):\n    if x:\n        x += 1\n    return x\n',
                  'def f(x):\n    if x:\n        x += 1\n    else:\n        logger.info("zero")\n    return x\n')
        self.same('def f(x):\n    for y in x:\n        y.go()\n    return x\n',
                  'def f(x):\n    for y in x:\n        y.go()\n    else:\n        logger.info("done")\n    return x\n')
        self.same('def f(x):\n    x.go()\n    return x\n',
                  'def f(x):\n    try:\n        x.go()\n    finally:\n        logger.info("done")\n    return x\n')

    def test_handler_with_only_logging(self):
        self.same('def f(x):\n    try:\n        x.go()\n    except KeyError:\n        pass\n',
                  'def f(x):\n    try:\n        x.go()\n    except KeyError as err:\n        logger.warning("no key %s", err)\n')
        # ... but the handler itself, its class and a re-raise are still seen
        self.differ('def f(x):\n    x.go()\n',
                    'def f(x):\n    try:\n        x.go()\n    except KeyError:\n        logger.warning("no key")\n')
        self.differ('def f(x):\n    try:\n        x.go()\n    except KeyError:\n        logger.warning("k")\n',
                    'def f(x):\n    try:\n        x.go()\n    except ValueError:\n        logger.warning("k")\n')
        self.differ('def f(x):\n    try:\n        x.go()\n    except KeyError:\n        logger.warning("k")\n        raise\n',
                    'def f(x):\n    try:\n        x.go()\n    except KeyError:\n        logger.warning("k")\n')

    def test_handler_name_kept_when_read(self):
        self.differ('def f(x):\n    try:\n        x.go()\n    except KeyError as e:\n        x.err = e\n',
                    'def f(x):\n    try:\n        x.go()\n    except KeyError:\n        x.err = e\n')
        # `as e` unbinds an outer `e` at the end of the handler: kept when the function has another variable e
        self.differ('def f(x, e):\n    try:\n        x.go()\n    except KeyError as e:\n        pass\n    return e\n',
                    'def f(x, e):\n    try:\n        x.go()\n    except KeyError:\n        pass\n    return e\n')
        self.differ('def f(x):\n    e = 1\n    try:\n        x.go()\n    except KeyError as e:\n        pass\n    return e\n',
                    'def f(x):\n    e = 1\n    try:\n        x.go()\n    except KeyError:\n        pass\n    return e\n')

    def test_handler_name_at_module_level(self):
        a = 'e = 5\ntry:\n    import x\nexcept ImportError as e:\n    pass\nprint(e)\n'
        self.differ(a, a.replace(' as e', ''))
        b = 'try:\n    import x\nexcept ImportError as e:\n    pass\n'
        self.same(b, b.replace(' as e', ''))
        c = 'def e():\n    pass\ntry:\n    import x\nexcept ImportError as e:\n    pass\n'
        self.differ(c, c.replace(' as e', ''))

    def test_logging_with_side_effects_is_kept(self):
        base = 'def f(self, x):\n    return x\n'
        for arg in ('self.reset()', 'x.pop()', 'compute(x)', '[g(y) for y in x]', '(y := x)', 'next(x)',
                    'x.keys(1)', 'sep.join(x)', '"%s" % x.pop()', 'f"{x.pop()}"', 'lambda: x', '*x',
                    'getattr(x, "a")', 'x.get("k")', 'x ** 2', 'x @ x', 'x << 3'):
            self.differ(base, 'def f(self, x):\n    logger.info("%%s", %s)\n    return x\n' % arg)
        self.differ(base, 'def f(self, x):\n    logger.info("a", extra=x.pop())\n    return x\n')
        self.differ(base, 'def f(self, x):\n    logger.info("a", **x)\n    return x\n')
        # a changed call inside a kept logging statement is seen, its wording is not
        self.differ('def f(x):\n    logger.info("a %s", g(x))\n', 'def f(x):\n    logger.info("a %s", h(x))\n')
        self.same('def f(x):\n    logger.info("a %s", g(x))\n', 'def f(x):\n    logger.info("b: %s", g(x))\n')
        self.same('def f(x):\n    logger.info("a %s" % g(x))\n', 'def f(x):\n    logger.info(f"b: {g(x)}")\n')
        self.differ('def f(x):\n    logger.info("a %s" % g(x))\n', 'def f(x):\n    logger.info("a %s" % h(x))\n')
        # the value of a logging call is not a statement of its own
        self.differ(base, 'def f(self, x):\n    y = logger.info("a")\n    return x\n')
        self.differ(base, 'def f(self, x):\n    return logger.info("a") or x\n')
        # a guard with a call is kept
        self.differ(base, 'def f(self, x):\n    if x.pop():\n        logger.info("a")\n    return x\n')

    def test_shadowed_builtin_is_not_pure(self):
        a, b = 'def f(x):\n    return x\n', 'def f(x):\n    logger.info("%d", len(x))\n    return x\n'
        self.same(a, b)
        self.differ(a, b, head=HEAD + 'def len(x):\n    return x.pop()\n')
        self.differ(a, b, head=HEAD + 'def g(len):\n    pass\n')
        self.differ(a, b, head=HEAD + 'from mymod import length as len\n')

    def test_other_receivers_are_not_loggers(self):
        base = 'def f(self, x):\n    return x\n'
        for call in ('self.logger.info("a")', 'log.info("a")', 'x.warning("a")', 'logger.setLevel(10)',
                     'logger.addHandler(x)', 'logger.handlers.append(x)', 'logger.info', 'self.debug("a")'):
            self.differ(base, 'def f(self, x):\n    %s\n    return x\n' % call)

    def test_logger_must_be_the_module_logger(self):
        body_a, body_b = 'def f(x):\n    return x\n', 'def f(x):\n    logger.info("a")\n    return x\n'
        self.same(body_a, body_b)
        self.same(body_a, body_b, head='import logging as _logging\nlogger = _logging.getLogger("katdal")\n')
        for head in ('',                                                   # no logger at all
                     'logger = Recorder()\n',                              # something else
                     'import logging\nlogger = logging.getLogger(__name__)\nlogger = Recorder()\n',      # rebound
                     'import logging\nlogger = logging.getLogger(__name__)\ndef g(logger):\n    pass\n',  # shadowed
                     'import logging\nlogger = logging.getLogger(__name__)\ndef g():\n    global logger\n    logger = 1\n',
                     'import logging\nlogger = logging.getLogger(__name__)\nfrom x import y as logger\n',
                     'import logging\nlogger = logging.getLogger(__name__)\nimport mylog as logging\n',
                     'from mylog import logging\nlogger = logging.getLogger(__name__)\n',
                     'import logging\nlogger = logging.getLogger(__name__)\nfor logger in []:\n    pass\n',
                     'import logging\nlogger = logging.getLogger(__name__)\nclass logger:\n    pass\n',
                     'import logging\nlogger = logging.getLogger(__name__)\ntry:\n    pass\nexcept E as logger:\n    pass\n',
                     'import logging\nlogger = logging.getLogger(__name__)\nwith a() as logger:\n    pass\n',
                     ):
            self.differ(body_a, body_b, head=head)
        # templates written by us are trusted
        self.same(body_a, body_b, head='', trusted=True)

    # ------------------------------------------------------------------ (c) messages
    def test_raise_message_reworded(self):
        a = '''
            def f(self, x):
                if x < 0:
                    raise ValueError('x is negative')
                return x
            '''
        for msg in ("'x must be >= 0'", "'x must be >= 0, got %d' % x", "'x must be >= 0, got %d (%s)' % (x, self.name)",
                    "f'x must be >= 0, got {x!r} of {len(self.items)} items'", "'x: {} {k}'.format(x, k=self.k)",
                    "'a' + str(x) + 'b'", "'Chunk ' + ' and '.join(self.parts)", "f'{sorted(self.d.keys())}'",
                    "'%s' % ', '.join(repr(n) for n in self.names)"):
            self.same(a, a.replace("'x is negative'", msg))
        self.same("def f(e):\n    raise errors.Bad('a') from e\n", "def f(e):\n    raise errors.Bad(f'b {e}') from e\n")

    def test_raise_other_changes_seen(self):
        a = "def f(x):\n    if x < 0:\n        raise ValueError('neg')\n    return x\n"
        self.differ(a, a.replace('ValueError', 'TypeError'))                       # class
        self.differ(a, a.replace('x < 0', 'x <= 0'))                               # guard
        self.differ(a, a.replace("        raise ValueError('neg')\n", "        pass\n"))   # raise point
        self.differ(a, a.replace("raise ValueError('neg')", "raise ValueError('neg') from None"))   # cause
        self.differ("def f(x, e):\n    raise ValueError('a') from e\n", "def f(x, e):\n    raise ValueError('a') from x\n")
        self.differ(a, a.replace("raise ValueError('neg')", "return ValueError('neg')"))
        self.differ(a, a.replace("raise ValueError('neg')", "raise ValueError"))
        self.differ(a, a.replace("raise ValueError('neg')", "raise ValueError()"))

    def test_raise_argument_that_is_not_a_message_untouched(self):
        self.differ("def f(k):\n    raise KeyError(k)\n", "def f(k):\n    raise KeyError(j)\n")
        self.differ("def f(k):\n    raise KeyError(k)\n", "def f(k):\n    raise KeyError('no ' + k)\n")
        self.differ("def f(k):\n    raise E(1)\n", "def f(k):\n    raise E(2)\n")
        self.differ("def f(k):\n    raise E('a', 1)\n", "def f(k):\n    raise E('b', 1)\n")            # two arguments
        self.differ("def f(k):\n    raise E(msg='a')\n", "def f(k):\n    raise E(msg='b')\n")          # keyword
        self.differ("def f(k):\n    raise OSError(errno.EIO, 'a', k)\n", "def f(k):\n    raise OSError(errno.EIO, 'b', k)\n")
        self.differ("def f(k):\n    raise make(k)('a')\n", "def f(k):\n    raise make(k)('b')\n")      # computed class
        self.differ("def f(k):\n    raise E(k.format('a'))\n", "def f(k):\n    raise E(k.format('b'))\n")

    def test_calls_inside_messages_stay_pinned(self):
        self.differ("def f(s):\n    raise E('bad')\n", "def f(s):\n    raise E('bad %s' % s.reset())\n")
        self.differ("def f(s):\n    raise E('bad %s' % s.describe())\n", "def f(s):\n    raise E('bad %s' % s.reset())\n")
        self.same("def f(s):\n    raise E('bad %s' % s.describe())\n", "def f(s):\n    raise E(f'worse: {s.describe()}!')\n")
        self.differ("def f(s):\n    raise E('bad')\n", "def f(s):\n    raise E(f'bad {(y := s)}')\n")
        self.differ("def f(s):\n    raise E('bad')\n", "def f(s):\n    raise E('bad %s' % (lambda: s))\n")

    def test_warnings(self):
        a = "def f(x):\n    warnings.warn('old text', FutureWarning)\n    return x\n"
        self.same(a, a.replace("'old text'", "f'new text about {x}'"))
        self.same(a, a.replace("'old text'", "'new %s' % (x,)"))
        self.differ(a, a.replace('FutureWarning', 'DeprecationWarning'))
        self.differ(a, a.replace(', FutureWarning', ''))
        self.differ(a, a.replace(', FutureWarning', ', FutureWarning, stacklevel=2'))
        self.differ(a, "def f(x):\n    return x\n")                                  # a warning is observable: never dropped
        self.differ(a, a.replace("'old text'", "x.text"))
        self.differ(a, a.replace("'old text'", "'t %s' % x.pop()"))

    def test_warnings_module_must_be_imported(self):
        a = "def f(x):\n    warnings.warn('old text', FutureWarning)\n"
        b = "def f(x):\n    warnings.warn('new text', FutureWarning)\n"
        self.same(a, b)
        self.differ(a, b, head='warnings = Mine()\n')
        self.differ(a, b, head='import warnings\ndef g(warnings):\n    pass\n')

    def test_assert_message(self):
        a = "def f(x, n):\n    assert len(x) == n\n    return x\n"
        self.same(a, a.replace('== n', "== n, 'wrong length'"))
        self.same(a, a.replace('== n', "== n, f'Got {len(x)} items for {n} slots'"))
        self.differ(a, a.replace('== n', '>= n'))
        self.differ(a, a.replace('    assert len(x) == n\n', ''))
        self.differ(a, a.replace('== n', "== n, x.pop()"))

    # ------------------------------------------------------------------ everything else is still seen
    def test_behavioural_edits_seen(self):
        a = '''
            def f(self, x, flag=True):
                """doc"""
                y = self.scale * x
                if flag:
                    y = y[::-1]
                for k in self.keys:
                    self.seen.add(k)
                return np.asarray(y, dtype=np.float32)
            '''
        for old, new in (('self.scale * x', 'self.scale + x'), ('flag=True', 'flag=False'), ('[::-1]', '[::1]'),
                         ('np.float32', 'np.float64'), ('self.seen.add(k)', 'self.seen.discard(k)'),
                         ('if flag:', 'if not flag:'), ('for k in self.keys:', 'for k in self.keys[1:]:'),
                         ('return np', 'yield np'), ('"""doc"""', 'x = abs(x)'),
                         ('def f(self, x, flag=True)', 'def f(self, flag=True, x=0)')):
            self.assertIn(old, a)
            self.differ(a, a.replace(old, new))

    def test_renamed_local_is_NOT_normalised(self):
        # (d) is deliberately not implemented in the shared layer (see the design note)
        self.differ('def f(x):\n    y = x + 1\n    return y\n', 'def f(x):\n    z = x + 1\n    return z\n')

    # ------------------------------------------------------------------ helpers for the items
    def test_template_helpers(self):
        src = HEAD + 'def f(x):\n    """doc"""\n    logger.info("a")\n    if x:\n        raise ValueError("text %d" % x)\n    return x\n'
        got = ast.unparse(translate.normalise_tree(ast.parse(src)).body[-1])
        want = translate.normalise_source('def f(x):\n    if x:\n        raise ValueError("other text")\n    return x\n')
        self.assertEqual(got, want)
        self.assertIn(translate.MESSAGE, want)
        t = translate.parse_template('logger.warning(__ANY__, t)\nraise KeyError(__ANY__)\n')
        self.assertEqual(ast.unparse(t), 'raise KeyError(__ANY__)')
        e = translate.parse_template('x + 1', mode='eval')
        self.assertIsInstance(e, ast.Expression)

    def test_result_compiles(self):
        src = HEAD + textwrap.dedent('''
            class C:
                """doc"""
                def m(self):
                    """doc"""
                def n(self, x):
                    try:
                        logger.info("a")
                    except KeyError as e:
                        logger.info("b %s", e)
                    finally:
                        logger.info("c")
                    while x:
                        logger.info("d")
                    with x:
                        logger.info("e")
                    if x:
                        pass
                    elif x > 1:
                        logger.info("f")
                    else:
                        """stray"""
            ''')
        tree = translate.normalise_tree(ast.parse(src))
        compile(tree, '<normalised>', 'exec')
        compile(ast.unparse(tree), '<unparsed>', 'exec')


if __name__ == '__main__':
    unittest.main(verbosity=1)
