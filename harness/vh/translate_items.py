ITEMS = []
