"""Collects translator items from harness/vh/items/*.py (each module exposes ITEMS = [fn(repo, out), ...])."""
import importlib
import os

ITEMS = []
_d = os.path.join(os.path.dirname(os.path.abspath(__file__)), 'items')
for _f in sorted(os.listdir(_d)):
    if _f.endswith('.py') and _f != '__init__.py':
        _m = importlib.import_module('vh.items.' + _f[:-3])
        ITEMS += list(getattr(_m, 'ITEMS', []))
