"""C14 fixtures: calibration / imager streams with solutions in a synthetic v4 telstate (for fixtures.v4.build_v4).

`streams_hook(tel)` returns a telstate_hook.  `tel` is a JSON-able list of stream descriptions
  dict(name, type (stream_type or None), targets (None | list of target names: the VALUES of the stream's `targets`
       dict, keys are made-up descriptions), ants, pols (antlist / pol_ordering, [] = attribute absent),
       spectral (bool: center_freq / bandwidth / n_chans present), n_chans, types (product types with one solution),
       sol_dump (optional: the dump during which that solution was derived, default 1))
build_v4 must be called with archived_override=<sdp_archived_streams> so that katdal sees the streams.
"""
import numpy as np


def product_value(ptype, n_chans, npol, nant, k=0):
    """the single solution of stream number k (position in `tel`): gains 2^-(k+1), so that it tells where it is from"""
    if ptype == 'K':
        return np.zeros((npol, nant))
    if ptype == 'B':
        return np.full((n_chans, npol, nant), 2, np.complex64)
    return np.full((npol, nant), 0.5 ** (k + 1), np.complex64)


def solution_offset(k, st=None):
    """time of the solution of stream number k, in dumps after the middle of the first dump (distinct per stream):
    inside dump st['sol_dump'] (default 1)"""
    return float((st or {}).get('sol_dump', 1)) + 0.125 * (k % 4)


def streams_hook(tel, sync_time=1600000000.0, first_timestamp=123.0, int_time=2.0):
    def hook(ts, cbid, stream):
        for k, st in enumerate(tel):
            view = ts.view(st['name'])
            if st['type'] is not None:
                view['stream_type'] = st['type']
            if st['ants']:
                view['antlist'] = list(st['ants'])
            if st['pols']:
                view['pol_ordering'] = list(st['pols'])
            if st['spectral']:
                view['center_freq'] = 1284e6
                view['bandwidth'] = 856e6 / 1024
                view['n_chans'] = int(st['n_chans'])
            cb = ts.view(ts.join(cbid, st['name']))
            if st['targets'] is not None:
                where = cb if st.get('targets_in_cb', True) else view
                where['targets'] = {'%s, radec, %d, -30' % (t, 10 * k): t for k, t in enumerate(st['targets'])}
            # explicit solution histories: {ptype: [[offset in dumps after the middle of the first dump, magnitude,
            # phase in turns], ...]} - one gain for all inputs (offsets may be negative: before the first dump)
            for ptype, sols in (st.get('solutions') or {}).items():
                from fractions import Fraction as _Fr
                for off, mag, ph in sols:
                    m, p = float(_Fr(mag)), float(_Fr(ph))
                    exact = {0.0: 1, 0.25: 1j, 0.5: -1, -0.25: -1j}.get(p)
                    z = m * (exact if exact is not None else np.exp(2j * np.pi * p))
                    cb.add('product_' + ptype, np.full((max(len(st['pols']), 1), max(len(st['ants']), 1)), z, np.complex64),
                           ts=sync_time + first_timestamp + int_time * float(_Fr(off)))
            for ptype in st['types']:
                cb.add('product_' + ptype,
                       product_value(ptype, int(st['n_chans']), max(len(st['pols']), 1), max(len(st['ants']), 1), k),
                       ts=sync_time + first_timestamp + int_time * solution_offset(k, st))
    return hook
