"""C06 fixtures: small MVF4 chunk stores with independent chunkings, absent chunks, differing dump counts.

A case (JSON-able dict):
  F, B            channels, correlation products
  nd              {array: number of dumps actually written for that array}
  chunks          {array: [time chunks, freq chunks(, corrprod chunks)]}   (weights_channel is 2-D)
  lost            {array: [[i, j(, k)], ...]}  chunk indices absent from the store
  pre             [] | [t] | [t, f] with t, f = None or [start, stop] (raw Python slice bounds, None allowed)
  path            'vfw' (ChunkStoreVisFlagsWeights on _align_chunk_info'd chunk info) |
                  'source' (TelstateDataSource(...).data, flags from an attached sdp.flags stream when l1) |
                  'v4' (VisibilityDataV4 over fixtures.v4.build_v4)
  l1              flags come from a separate flags stream (paths source, v4)
  seed            seed of the stored values
"""
import os
import shutil

import dask
import katsdptelstate
import numpy as np

from fixtures import v4 as fv4

from katdal.chunkstore_npy import NpyFileChunkStore   # noqa: E402
from katdal.chunkstore_dict import DictChunkStore   # noqa: E402
from katdal.datasources import TelstateDataSource, view_l0_capture_stream, _align_chunk_info   # noqa: E402
from katdal.vis_flags_weights import ChunkStoreVisFlagsWeights   # noqa: E402

ARRAYS = ('correlator_data', 'flags', 'weights', 'weights_channel')
DTYPES = {'correlator_data': np.complex64, 'flags': np.uint8, 'weights': np.uint8, 'weights_channel': np.float32}


def make_values(case):
    """Stored values, all exactly representable; vis never 0 so that a zero means 'zeroed'."""
    rs = np.random.RandomState(case.get('seed', 0))
    F, B = case['F'], case['B']
    out = {}
    nd = case['nd']
    T = nd['correlator_data']
    out['correlator_data'] = (rs.randint(1, 100, (T, F, B)) + 1j * rs.randint(0, 100, (T, F, B))).astype(np.complex64)
    out['flags'] = rs.randint(0, 256, (nd['flags'], F, B)).astype(np.uint8)
    out['weights'] = rs.randint(1, 9, (nd['weights'], F, B)).astype(np.uint8)
    out['weights_channel'] = rs.randint(1, 5, (nd['weights_channel'], F)).astype(np.float32)
    return out


def offsets(ch):
    return [0] + list(np.cumsum(ch))


def chunk_slices(chunks, idx):
    offs = [offsets(c) for c in chunks]
    return tuple(slice(int(o[i]), int(o[i + 1])) for o, i in zip(offs, idx))


def all_chunk_indices(chunks):
    return list(np.ndindex(*[len(c) for c in chunks]))


def write_array(store, prefix, name, array, chunks, lost):
    """Write every chunk, then delete the lost ones (so that absence = a chunk file that is gone)."""
    full = store.join(prefix, name)
    store.create_array(full)
    chunks = tuple(tuple(int(x) for x in c) for c in chunks)
    for idx in all_chunk_indices(chunks):
        sl = chunk_slices(chunks, idx)
        store.put_chunk(full, sl, np.ascontiguousarray(array[sl]))
    for idx in lost:
        sl = chunk_slices(chunks, idx)
        fn = os.path.join(store.path, prefix, name, '_'.join('%05d' % s.start for s in sl) + '.npy')
        os.remove(fn)
    return {'prefix': prefix, 'chunks': chunks, 'dtype': np.lib.format.dtype_to_descr(np.dtype(array.dtype)),
            'shape': tuple(int(s) for s in array.shape)}


def to_slices(pre):
    return tuple(slice(None) if w is None else slice(w[0], w[1]) for w in pre)


L0_PREFIX, L1_PREFIX, BOGUS_PREFIX = 'cb-sdp-l0', 'cb-sdp-l1-flags', 'cb-bogus'


def make_telstate(case, info):
    """The telstate of a case.  case['layout']: None = every chunk_info entry carries 'prefix' (no chunk_name anywhere);
    'legacy' = no entry carries 'prefix', chunk_name sits in the <cbid>_<stream> namespace of the stream that owns the
    chunk_info (L0 and flags stream); 'mixed' = the L0 entries carry 'prefix' AND the L0 namespace holds a chunk_name
    that points elsewhere, the flags stream is legacy.  case['others']: further archived streams (a cal stream, a flags
    stream of another L0 stream whose chunk_info points elsewhere) before / after the attached flags stream."""
    layout = case.get('layout')
    ts = katsdptelstate.TelescopeState()
    cbid, stream, l1name = 'cb', 'sdp_l0', 'sdp_l1_flags'
    cs = ts.view(ts.join(cbid, stream))
    sv = ts.view(stream)

    def entry(v, explicit):
        e = dict(v)
        if not explicit:
            e.pop('prefix', None)
        return e
    l0_info = {k: entry(v, layout != 'legacy') for k, v in info.items() if not (k == 'flags' and case.get('l1'))}
    if case.get('l1'):
        # the L0 stream still describes its own flags array (never written, or a decoy): it is replaced by the upgrade
        l0_info['flags'] = entry(dict(info['weights'], dtype=info['flags']['dtype']), layout != 'legacy')
    cs['chunk_info'] = l0_info
    if layout == 'legacy':
        cs['chunk_name'] = L0_PREFIX
    elif layout == 'mixed':
        cs['chunk_name'] = BOGUS_PREFIX
    cs['first_timestamp'] = 10.0
    sv['sync_time'] = 1600000000.0
    sv['int_time'] = 2.0
    sv['bls_ordering'] = np.array([('m000h', 'm000h')] * case['B'])
    sv['need_weights_power_scale'] = False
    sv['stream_type'] = 'sdp.vis'
    archived = [stream]
    others = case.get('others') or []
    if 'before' in others:
        archived += ['sdp_cal', 'sdp_l1_flags_other']
    if case.get('l1'):
        l1cs = ts.view(ts.join(cbid, l1name))
        l1s = ts.view(l1name)
        l1cs['chunk_info'] = {'flags': entry(info['flags'], layout is None)}
        if layout is not None:
            l1cs['chunk_name'] = L1_PREFIX
        l1s['stream_type'] = 'sdp.flags'
        l1s['src_streams'] = [stream]
        archived.append(l1name)
    if 'after' in others:
        archived += ['sdp_cal', 'sdp_l1_flags_other']
    if others:
        ts.view('sdp_cal')['stream_type'] = 'sdp.cal'
        ox = ts.view('sdp_l1_flags_other')
        ox['stream_type'] = 'sdp.flags'
        ox['src_streams'] = ['sdp_l0_other']
        ts.view(ts.join(cbid, 'sdp_l1_flags_other'))['chunk_info'] = {'flags': dict(info['flags'], prefix=BOGUS_PREFIX)}
    ts['sdp_archived_streams'] = archived
    return view_l0_capture_stream(ts, cbid, stream)


def write_decoy(case, store):
    """The L0 stream's own flags array (which the attached flags stream replaces), with other values."""
    if case.get('l1') and case.get('decoy') and case['nd']['weights'] > 0:
        rs = np.random.RandomState(case.get('seed', 0) + 17)
        decoy = rs.randint(0, 256, (case['nd']['weights'], case['F'], case['B'])).astype(np.uint8)
        write_array(store, L0_PREFIX, 'flags', decoy, case['chunks']['weights'], [])


def build_store(case, tmp):
    vals = make_values(case)
    store = NpyFileChunkStore(tmp)
    l0 = 'cb-sdp-l0'
    l1 = 'cb-sdp-l1-flags'
    info = {}
    for name in ARRAYS:
        prefix = l1 if (name == 'flags' and case.get('l1')) else l0
        info[name] = write_array(store, prefix, name, vals[name], case['chunks'][name], case['lost'].get(name, []))
    write_decoy(case, store)
    return store, info, vals


def open_vfw(case, tmp):
    store, info, vals = build_store(case, tmp)
    info = _align_chunk_info(info)
    vfw = ChunkStoreVisFlagsWeights(store, info, preselect_index=to_slices(case['pre']))
    return vfw, store, info, vals


def open_source(case, tmp):
    store, info, vals = build_store(case, tmp)
    view, cbid_, sn = make_telstate(case, info)
    pre = {}
    raw = case['pre']
    if len(raw) > 0 and raw[0] is not None:
        pre['dumps'] = slice(raw[0][0], raw[0][1])
    if len(raw) > 1 and raw[1] is not None:
        pre['channels'] = slice(raw[1][0], raw[1][1])
    src = TelstateDataSource(view, cbid_, sn, chunk_store=store, preselect=pre or None)
    return src.data, store, src.data.chunk_info, vals


def open_v4(case, tmp):
    """Through a full VisibilityDataV4 (B must be 4 (one antenna) or 12 (two antennas))."""
    vals = make_values(case)
    ants = ('m000',) if case['B'] == 4 else ('m000', 'm001')
    nd = case['nd']
    T0 = nd['correlator_data']
    assert nd['weights'] == T0 and nd['weights_channel'] == T0 and (case.get('l1') or nd['flags'] == T0)
    arrays = {k: vals[k] for k in ARRAYS if not (k == 'flags' and case.get('l1'))}
    if case.get('l1'):
        arrays['flags'] = np.zeros((T0,) + vals['flags'].shape[1:], np.uint8)
    chunks = {k: tuple(tuple(c) for c in case['chunks'][k]) for k in arrays}
    if case.get('l1'):
        chunks['flags'] = None
    lose = []
    for name, lst in case['lost'].items():
        strm = 'sdp_l1_flags' if (name == 'flags' and case.get('l1')) else 'sdp_l0'
        lose += [(strm, name, tuple(i)) for i in lst]
    pre = {}
    raw = case['pre']
    if len(raw) > 0 and raw[0] is not None:
        pre['dumps'] = slice(raw[0][0], raw[0][1])
    if len(raw) > 1 and raw[1] is not None:
        pre['channels'] = slice(raw[1][0], raw[1][1])
    x = fv4.build_v4(T=T0, F=case['F'], ants=ants, arrays=arrays, chunks=chunks, tmp=tmp, seed=case.get('seed', 0),
                     l1_flags=vals['flags'] if case.get('l1') else None,
                     l1_chunks=tuple(tuple(c) for c in case['chunks']['flags']) if case.get('l1') else None,
                     lose=lose, source_kwargs={'preselect': pre} if pre else None,
                     acts=((0, 'track'),))
    return x, vals


def observe(case, tmp):
    """Returns dict(vis=, weights=, flags=) of numpy arrays as loaded by katdal, plus the dask chunks of the four
    arrays as get_dask_array builds them (for the tie of the prune/slice model)."""
    path = case['path']
    with dask.config.set(scheduler='sync'):
        if path == 'v4':
            x, vals = open_v4(case, tmp)
            d = x.d
            out = dict(vis=np.asarray(d.vis[:]), weights=np.asarray(d.weights[:]), flags=np.asarray(d.raw_flags[:]))
            return out, None, vals
        vfw, store, info, vals = (open_vfw if path == 'vfw' else open_source)(case, tmp)
        out = dict(vis=vfw.vis.compute(), weights=vfw.weights.compute(), flags=vfw.flags.compute())
        dchunks = []
        for name in ARRAYS:
            i = info[name]
            a = store.get_dask_array(store.join(i['prefix'], name), i['chunks'], i['dtype'],
                                     index=vfw.preselect_index, errors='dryrun')
            dchunks.append([[int(c) for c in ax] for ax in a.chunks])
    return out, dchunks, vals


def rmtree(tmp):
    shutil.rmtree(tmp, ignore_errors=True)


# ----------------------------------------------------------------------------- round 2: histories, raw indices
#
# A history case extends a case by
#   absent0   {array: [[i, j(, k)], ...]}  chunks not written initially
#   steps     [['del', array, idx] | ['put', array, idx, version] | ['load', index]]
#   index     for path 'vfw': a list of encoded index elements; for path 'source': {'dumps': elt, 'channels': elt}
#             elt = ['s', start, stop, step] (None allowed) | ['i', n] | ['o'] (a list index)
# One READER store object serves every load; chunks are written and removed through a separate WRITER object /
# the file system, as another process would.

def dec_elt(e):
    if e[0] == 's':
        return slice(e[1], e[2], e[3])
    if e[0] == 'i':
        return int(e[1])
    return [0]


def chunk_file(store, prefix, name, sl):
    return os.path.join(store.path, prefix, name, '_'.join('%05d' % s.start for s in sl) + '.npy')


def version_values(case, ver):
    return make_values(dict(case, seed=case.get('seed', 0) + 7919 * ver))


class History:
    def __init__(self, case, tmp):
        self.case = case
        self.writer = NpyFileChunkStore(tmp)
        self.reader = NpyFileChunkStore(tmp)
        self.vals = {}
        self.info = {}
        self.ops = []           # what the model is told: [1, array number, chunk id, version] / [0, array number, chunk id]
        l0, l1 = 'cb-sdp-l0', 'cb-sdp-l1-flags'
        v0 = self.values(0)
        for a, name in enumerate(ARRAYS):
            prefix = l1 if (name == 'flags' and case.get('l1')) else l0
            chunks = tuple(tuple(int(x) for x in c) for c in case['chunks'][name])
            self.writer.create_array(self.writer.join(prefix, name))
            self.info[name] = {'prefix': prefix, 'chunks': chunks,
                               'dtype': np.lib.format.dtype_to_descr(np.dtype(DTYPES[name])),
                               'shape': tuple(int(s) for s in v0[name].shape)}
            absent = [tuple(i) for i in case.get('absent0', {}).get(name, [])]
            for idx in all_chunk_indices(chunks):
                if tuple(int(i) for i in idx) not in absent:
                    self.put(name, idx, 0)
        write_decoy(case, self.writer)
        self.ts = None

    def values(self, ver):
        if ver not in self.vals:
            self.vals[ver] = version_values(self.case, ver)
        return self.vals[ver]

    def ident(self, name, idx):
        return [int(s.start) for s in chunk_slices(self.case['chunks'][name], idx)]

    def put(self, name, idx, ver):
        i = self.info[name]
        sl = chunk_slices(i['chunks'], idx)
        self.writer.put_chunk(self.writer.join(i['prefix'], name), sl, np.ascontiguousarray(self.values(ver)[name][sl]))
        self.ops.append([1, ARRAYS.index(name), self.ident(name, idx), ver])

    def delete(self, name, idx):
        i = self.info[name]
        fn = chunk_file(self.writer, i['prefix'], name, chunk_slices(i['chunks'], idx))
        if os.path.exists(fn):
            os.remove(fn)
        self.ops.append([0, ARRAYS.index(name), self.ident(name, idx)])

    def telstate(self):
        return make_telstate(self.case, {k: dict(v) for k, v in self.info.items()})

    def load(self, index):
        """Returns (dict(vis, weights, flags), preselect_index as katdal holds it) through the reader store."""
        with dask.config.set(scheduler='sync'):
            if self.case['path'] == 'source':
                if self.ts is None:
                    self.ts = self.telstate()
                view, cbid, sn = self.ts
                pre = {k: dec_elt(e) for k, e in index.items()}
                src = TelstateDataSource(view, cbid, sn, chunk_store=self.reader, preselect=pre or None)
                vfw = src.data
                n_ts = len(src.timestamps)
            else:
                info = _align_chunk_info({k: dict(v) for k, v in self.info.items()})
                vfw = ChunkStoreVisFlagsWeights(self.reader, info, preselect_index=tuple(dec_elt(e) for e in index))
                n_ts = None
            out = dict(vis=vfw.vis.compute(), weights=vfw.weights.compute(), flags=vfw.flags.compute())
        return out, vfw.preselect_index, n_ts


def blocks_under(store, info, name, index, errors):
    """Evaluate every block of store.get_dask_array(..., index=index, errors=errors) separately.
    Returns (list of (block index tuple, object or exception), array) or raises what the call raises."""
    i = info[name]
    with dask.config.set(scheduler='sync'):
        a = store.get_dask_array(store.join(i['prefix'], name), i['chunks'], i['dtype'], index=index, errors=errors)
        res = []
        dl = a.to_delayed()
        for bi in np.ndindex(*dl.shape):
            try:
                res.append((tuple(int(x) for x in bi), dl[bi].compute()))
            except Exception as e:     # noqa: BLE001
                res.append((tuple(int(x) for x in bi), e))
    return res, a


class ViewHistory(History):
    """The same interface on a DictChunkStore: the store hands out VIEWS of arrays it owns.  A chunk is in the store iff
    its array is there and holds the dumps of the chunk; steps are ['arr', array, dumps_held, version] (dumps_held = 0:
    the array is removed; otherwise a chunk boundary of the array's dump chunking) and ['load', index]."""

    def __init__(self, case, tmp=None):
        self.case = case
        self.vals = {}
        self.info = {}
        self.ops = []
        self.held = {}          # array -> (dumps held, version)
        self.reader = DictChunkStore()
        self.writer = self.reader
        l0, l1 = 'cb-sdp-l0', 'cb-sdp-l1-flags'
        v0 = self.values(0)
        for name in ARRAYS:
            prefix = l1 if (name == 'flags' and case.get('l1')) else l0
            chunks = tuple(tuple(int(x) for x in c) for c in case['chunks'][name])
            self.info[name] = {'prefix': prefix, 'chunks': chunks,
                               'dtype': np.lib.format.dtype_to_descr(np.dtype(DTYPES[name])),
                               'shape': tuple(int(s) for s in v0[name].shape)}
            self.held[name] = (0, 0)
            self.set_array(name, case['held0'][name], 0)
        self.ts = None

    def key(self, name):
        return self.reader.join(self.info[name]['prefix'], name)

    def set_array(self, name, dumps, ver):
        chunks = self.info[name]['chunks']
        old_n, _ = self.held[name]
        if dumps:
            self.reader.arrays[self.key(name)] = np.array(self.values(ver)[name][:dumps])     # a private copy the store owns
        else:
            self.reader.arrays.pop(self.key(name), None)
        offs = offsets(chunks[0])
        for idx in all_chunk_indices(chunks):
            stop = int(offs[idx[0] + 1])
            if stop <= dumps:
                self.ops.append([1, ARRAYS.index(name), self.ident(name, idx), ver])
            elif stop <= old_n:
                self.ops.append([0, ARRAYS.index(name), self.ident(name, idx)])
        self.held[name] = (dumps, ver)

    def unchanged(self):
        """Names of the arrays whose memory in the store no longer equals what was put there."""
        bad = []
        for name in ARRAYS:
            n, ver = self.held[name]
            if n and not np.array_equal(self.reader.arrays[self.key(name)], self.values(ver)[name][:n]):
                bad.append(name)
        return bad
