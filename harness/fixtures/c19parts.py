"""C19 fixtures: one PART of a concatenation as a synthetic data set of format v4 / v3 / v2, written once and opened as
often as needed (every concatenation rewrites the index sensors of its parts in place, so each concatenation and
each stand-alone reference needs its own freshly opened objects)."""
import os

import h5py
import numpy as np

import katdal
from fixtures import v4
from fixtures.mkv1 import mkv1
from fixtures.mkv2 import mkv2
from fixtures.mkv3 import mkv3

# descriptions of the target pool (names / aliases within c02.TNAMES, tags within c02.TAGS)
TARGETS = ['A | Aalias, radec bpcal, 19:39:25.03, -63:42:45.6',
           'B, radec gaincal, 10:00:00.0, -30:00:00.0',
           'C | Cee, radec target fluxcal, 05:00:00.0, -20:00:00.0',
           'D | Dd, radec target, 03:00:00.0, -10:00:00.0',
           'E | Cee, radec gaincal, 02:00:00.0, -15:00:00.0',          # shares the alias Cee with C
           'A, radec target, 01:00:00.0, -05:00:00.0']                  # same name as the first one, another target

BASE = {'v4': 1600000000.0, 'v3': 1500000000.0, 'v2': 1300000000.0, 'v1': 1200000000.0}
SENSOR_NAME = {'v4': 'anc_c19_%s', 'v3': 'anc/c19_%s', 'v2': 'Enviro/c19_%s', 'v1': 'Enviro/c19_%s'}
CENTRE = [1284e6, 1284e6 + 856e6 / 4096 * 64]


# what distinguishes the subarray / spectral window of a part from the default one, per format that can express it
VARIANTS = {'perm': ('v4', 'v3', 'v2'), 'antdesc': ('v4', 'v3', 'v2'), 'bw': ('v4', 'v3', 'v2'), 'prod': ('v4',),
            'band': ('v4',)}


def permute(bls, how):
    """The same correlation products in another order (how = 1: even positions first, 2: reversed, 3: first two
    swapped)."""
    bls = [tuple(x) for x in bls]
    if how == 1:
        return bls[0::2] + bls[1::2]
    if how == 2:
        return bls[::-1]
    return [bls[1], bls[0]] + bls[2:]


def moved(desc):
    """The same antenna (name, diameter) at another position."""
    if isinstance(desc, bytes):
        desc = desc.decode()
    fields = desc.split(', ')
    fields[-1] = '77 -5 1'
    return ', '.join(fields)


def sensor_name(fmt, short):
    return SENSOR_NAME[fmt] % short


def _h5_sensor(g, name, rows, vdtype):
    dt = np.dtype([('timestamp', np.float64), ('value', vdtype), ('status', 'S7')])
    g.create_dataset(name, data=np.array([(t, v, b'nominal') for t, v in rows], dtype=dt))


UNSIGNED = {'u': np.uint8, 'u16': np.uint16, 'u32': np.uint32, 'u64': np.uint64}     # sensor kinds of unsigned integer types


def _rows(spec, t0, kind, samples):
    dt = spec['dt']
    if kind == 'f':
        return [(t0 + dt * pos / 4.0, float(v)) for pos, v in samples], np.float64
    if kind == 's':
        return [(t0 + dt * d - 0.9 - (16.0 if d == 0 else 0.0), v.encode()) for d, v in samples], 'S16'
    if kind == 'b':
        return [(t0 + dt * d - 0.9 - (16.0 if d == 0 else 0.0), bool(v)) for d, v in samples], np.bool_
    if kind in UNSIGNED:
        return [(t0 + dt * d - 0.9 - (16.0 if d == 0 else 0.0), int(v)) for d, v in samples], UNSIGNED[kind]
    return [(t0 + dt * d - 0.9 - (16.0 if d == 0 else 0.0), int(v)) for d, v in samples], np.int64


def apply_meta(obs_params, meta):
    """obs_params of a v4 part with the generated metadata (spec['meta']) applied: observer / description /
    experiment_id, extra keys, dropped keys, dict order reversed."""
    op = dict(obs_params)
    for key in ('observer', 'description', 'experiment_id'):
        if meta[key] != '' or key in op:
            op[key] = meta[key]
    for key in meta.get('drop', ()):
        op.pop(key, None)
    op.update(meta.get('extra', {}))
    if meta.get('reverse'):
        op = dict(reversed(list(op.items())))
    return op


class Part:
    """spec: dict(fmt, T, start, dt, ants, F, cfv, acts, targets, labels, sens={short: (kind, samples)}, arrs, seed)."""

    def __init__(self, spec, tmp, tag):
        self.spec = spec
        self.fmt = fmt = spec['fmt']
        self.tmp = tmp
        self.tag = tag
        self.opened = []
        targets = [(d, TARGETS[t]) for d, t in spec['targets']]
        # variations of what makes the subarray / spectral window of this part (see VARIANTS)
        self.var = var = dict(spec.get('var') or {})
        if fmt == 'v4':
            extra = []
            t0 = BASE['v4'] + spec['start']
            for short, (kind, samples) in sorted(spec['sens'].items()):
                if kind == 'f':
                    rows = [(t0 + spec['dt'] * pos / 4.0, float(v)) for pos, v in samples]
                else:
                    conv = dict(UNSIGNED, b=bool).get(kind, lambda v: v)
                    rows = [(t0 + spec['dt'] * d - 0.9 - (16.0 if d == 0 else 0.0), conv(v)) for d, v in samples]
                extra.append((sensor_name(fmt, short), rows))
            kw = dict(T=spec['T'], F=spec['F'], ants=tuple(spec['ants']), cbid='%010d' % (1000000000 + spec['start']),
                      first_timestamp=float(spec['start']), int_time=spec['dt'], seed=spec['seed'],
                      center_freq=CENTRE[spec['cfv']], bandwidth=856e6 / 4096 * spec['F'] * (2 if var.get('bw') else 1),
                      sub_product='c856M32k' if var.get('prod') else 'c856M4k',
                      acts=tuple(spec['acts']), targets=tuple(targets), labels=tuple(spec['labels']),
                      extra_sensors=tuple(extra), tmp=os.path.join(tmp, tag), construct=False)
            bls = spec.get('bls')
            if var.get('perm'):
                bls = permute(bls if bls is not None else v4.bls_ordering_for(tuple(spec['ants'])), var['perm'])
            if bls is not None:
                kw['bls_ordering'] = [tuple(x) for x in bls]
            self.x = v4.build_v4(**kw)
            self.fn = None
            ts = self.x.telstate
            if var.get('band'):
                ts.delete('sub_band')
                ts['sub_band'] = 'u'
            if var.get('antdesc'):
                a = spec['ants'][-1]
                old = ts[a + '_observer']
                ts.delete(a + '_observer')
                ts[a + '_observer'] = moved(old)
            if spec.get('meta'):
                op = apply_meta(dict(ts['obs_params']), spec['meta'])
                ts.delete('obs_params')
                ts['obs_params'] = op
        elif fmt == 'v1':
            # v1 files store scans inside compound scans: cut the dumps at every event
            self.fn = os.path.join(tmp, '%s_%d.h5' % (tag, int(BASE[fmt] + spec['start'])))
            cuts = sorted({0} | {d for d, _ in spec['acts']} | {d for d, _ in spec['targets']} | {d for d, _ in spec['labels']})
            cuts = [c for c in cuts if c < spec['T']] + [spec['T']]

            def last(events, d, default):
                v = default
                for dd, x in events:
                    if dd <= d:
                        v = x
                return v
            scans, csn, prev = [], -1, None
            for a, b in zip(cuts[:-1], cuts[1:]):
                key = (last(spec['labels'], a, ''), last(targets, a, TARGETS[0]))
                if key != prev:
                    csn, prev = csn + 1, key
                scans.append((csn, key[0], key[1], last(spec['acts'], a, 'slew'), b - a))
            mkv1(self.fn, scans, F=spec['F'], ants=tuple(spec['ants']), t0=BASE[fmt] + spec['start'], dt=spec['dt'],
                 seed=spec['seed'])
            if spec.get('meta'):
                with h5py.File(self.fn, 'r+') as f:
                    for key in ('observer', 'description', 'experiment_id'):
                        f.attrs[key] = spec['meta'][key]
        else:
            self.fn = os.path.join(tmp, '%s_%d.h5' % (tag, int(BASE[fmt] + spec['start'])))
            t0 = BASE[fmt] + spec['start']
            mk = mkv3 if fmt == 'v3' else mkv2
            ants = tuple(spec['ants'])
            mk(self.fn, T=spec['T'], F=spec['F'], ants=ants, t0=t0, dt=spec['dt'], acts=list(spec['acts']),
               targets=targets, labels=list(spec['labels']), seed=spec['seed'])
            with h5py.File(self.fn, 'r+') as f:
                g = f['TelescopeModel'].require_group('anc') if fmt == 'v3' else f['MetaData/Sensors'].require_group('Enviro')
                for short, (kind, samples) in sorted(spec['sens'].items()):
                    rows, vd = _rows(spec, t0, kind, samples)
                    _h5_sensor(g, 'c19_' + short, rows, vd)
                corr = f['TelescopeModel/cbf'] if fmt == 'v3' else f['MetaData/Configuration/Correlator']
                if var.get('perm'):
                    old = [tuple(x) for x in corr.attrs['bls_ordering']]
                    corr.attrs['bls_ordering'] = np.array(permute(old, var['perm']), dtype='S')
                if var.get('bw'):
                    corr.attrs['bandwidth'] = corr.attrs['bandwidth'] * 2
                if var.get('antdesc'):
                    a = spec['ants'][-1]
                    if fmt == 'v3':
                        f['TelescopeModel'][a].attrs['observer'] = moved(f['TelescopeModel'][a].attrs['observer'])
                    else:
                        g2 = f['MetaData/Configuration/Antennas'][a]
                        g2.attrs['description'] = moved(g2.attrs['description'])
        self.open_kwargs = dict(centre_freq=CENTRE[spec['cfv']]) if fmt == 'v3' else {}

    def fresh(self, ref_ant=''):
        """A newly opened, independent data set object of this part (with the directly assigned arrays)."""
        if self.fmt == 'v4':
            from katdal.datasources import TelstateDataSource
            from katdal.visdatav4 import VisibilityDataV4
            x = self.x
            d = VisibilityDataV4(TelstateDataSource(x.view, x.cbid, x.stream, chunk_store=x.store), ref_ant)
        else:
            d = katdal.open(self.fn, ref_ant, **self.open_kwargs)
        for name, vals in sorted(self.spec.get('arrs', {}).items()):
            d.sensor['Extra/c19_' + name] = np.array(vals)
        self.opened.append(d)
        return d

    def path(self):
        """What katdal.open takes for this part: the HDF5 file, or (v4) an RDB file of the telstate, written on first
        use two levels below the directory of the npy chunk store (where katdal looks for it)."""
        if self.fmt != 'v4':
            return self.fn
        if getattr(self, '_rdb', None) is None:
            from katsdptelstate.rdb_writer import RDBWriter
            x = self.x
            for k, v in (('capture_block_id', x.cbid), ('stream_name', x.stream)):
                if k not in x.telstate:
                    x.telstate[k] = v
            d = os.path.join(x.tmp, x.cbid)
            os.makedirs(d, exist_ok=True)
            self._rdb = os.path.join(d, '%s_%s.rdb' % (x.cbid, x.stream))
            with RDBWriter(self._rdb) as w:
                w.save(x.telstate)
        return self._rdb

    def close(self):
        for d in self.opened:
            f = getattr(d, 'file', None)
            try:
                if f is not None:
                    f.close()
            except Exception:      # noqa: BLE001
                pass
        self.opened = []


def open_concat(parts, order, via_open, ref_ant=''):
    """The concatenation of freshly opened parts given in input order `order` (indices into parts): through
    katdal.open([file, ...]) (v4 parts: their telstate written as an RDB file next to the npy chunk store) when
    via_open, all parts take the same keywords and no sensor was assigned directly; else from data set objects."""
    from katdal.concatdata import ConcatenatedDataSet
    if via_open and not any(p.spec.get('arrs') for p in parts) and len({repr(p.open_kwargs) for p in parts}) == 1:
        files = [parts[i].path() for i in order]
        c = katdal.open(files, ref_ant, **parts[0].open_kwargs)
        for d in c.datasets:
            for p in parts:
                if os.path.basename(p.path()).split('.')[0] in d.name:
                    p.opened.append(d)
        return c, 'katdal.open'
    return ConcatenatedDataSet([parts[i].fresh() for i in order]), 'ConcatenatedDataSet'
