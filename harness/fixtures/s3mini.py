"""Minimal well-behaved S3-like endpoint on 127.0.0.1 serving a dict path -> bytes (C20: get_chunk from N threads).

Unlike fixtures/s3fake.py (scripted failures, one payload) every object has its own content, so that threads reading
different chunks can be told apart.  Bucket listings (`max-keys` in the query) answer per bucket: `buckets` maps the
first path component to 'full' (a one-key listing; the default), 'empty' (a listing without keys) or 'missing' (404).
`trunc` maps an object path to the number of its next GETs that are answered with the full Content-Length but only half
of the body followed by an orderly close (the client sees IncompleteRead -> a read retry after a back-off sleep);
`hangup` maps an object path to the number of its next GETs on which the server drops the connection without sending a
single byte (the client sees RemoteDisconnected before the response header: urllib3 itself retries, with the Retry object
it was GIVEN for this attempt); `reset_faults()` restores the counters between runs.
"""
import http.server
import socket
import threading

LISTING_EMPTY = b'<?xml version="1.0"?><ListBucketResult><Name>b</Name></ListBucketResult>'
LISTING = b'<?xml version="1.0"?><ListBucketResult><Name>b</Name><Contents><Key>k</Key></Contents></ListBucketResult>'


class MiniS3:
    def __init__(self, objects=None, buckets=None, trunc=None, hangup=None):
        self.objects = dict(objects or {})
        self.buckets = dict(buckets or {})
        self.trunc0 = dict(trunc or {})
        self.trunc = dict(self.trunc0)
        self.hangup0 = dict(hangup or {})
        self.hangup = dict(self.hangup0)
        self.flock = threading.Lock()
        self.log = []
        mini = self

        class H(http.server.BaseHTTPRequestHandler):
            protocol_version = 'HTTP/1.1'

            def log_message(self, *a):
                pass

            def do_GET(self):
                path = self.path.split('?')[0]
                mini.log.append(self.path)
                cut = False
                if 'max-keys' in self.path:
                    state = mini.buckets.get(path.strip('/').split('/')[0], 'full')
                    body, status = {'full': (LISTING, 200), 'empty': (LISTING_EMPTY, 200)}.get(state, (b'', 404))
                elif path in mini.objects:
                    body, status = mini.objects[path], 200
                    with mini.flock:
                        drop = mini.hangup.get(path, 0) > 0
                        if drop:
                            mini.hangup[path] -= 1
                    if drop:
                        self.close_connection = True
                        try:
                            self.connection.shutdown(socket.SHUT_RDWR)
                        except OSError:
                            pass
                        return
                    with mini.flock:
                        if mini.trunc.get(path, 0) > 0:
                            mini.trunc[path] -= 1
                            cut = True
                else:
                    body, status = b'', 404
                self.send_response(status)
                self.send_header('Content-Length', str(len(body)))
                self.end_headers()
                self.wfile.write(body[:len(body) // 2] if cut else body)
                self.wfile.flush()
                if cut:
                    self.close_connection = True
                    try:
                        self.connection.shutdown(socket.SHUT_RDWR)
                    except OSError:
                        pass

        class S(http.server.ThreadingHTTPServer):
            daemon_threads = True
            request_queue_size = 64

            def handle_error(self, request, client_address):
                pass

        self.srv = S(('127.0.0.1', 0), H)
        self.url = 'http://127.0.0.1:%d' % self.srv.server_address[1]
        self.thread = threading.Thread(target=self.srv.serve_forever, kwargs={'poll_interval': 0.05}, daemon=True)
        self.thread.start()

    def reset_faults(self):
        with self.flock:
            self.trunc = dict(self.trunc0)
            self.hangup = dict(self.hangup0)

    def close(self):
        self.srv.shutdown()
        self.srv.server_close()
