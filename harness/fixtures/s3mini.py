"""Minimal well-behaved S3-like endpoint on 127.0.0.1 serving a dict path -> bytes (C20: get_chunk from N threads).

Unlike fixtures/s3fake.py (scripted failures, one payload) every object has its own content, so that threads reading
different chunks can be told apart.  Bucket listings (`max-keys` in the query) answer with a one-key listing.
"""
import http.server
import threading

LISTING = b'<?xml version="1.0"?><ListBucketResult><Name>b</Name><Contents><Key>k</Key></Contents></ListBucketResult>'


class MiniS3:
    def __init__(self, objects=None):
        self.objects = dict(objects or {})
        self.log = []
        mini = self

        class H(http.server.BaseHTTPRequestHandler):
            protocol_version = 'HTTP/1.1'

            def log_message(self, *a):
                pass

            def do_GET(self):
                path = self.path.split('?')[0]
                mini.log.append(self.path)
                if 'max-keys' in self.path:
                    body, status = LISTING, 200
                elif path in mini.objects:
                    body, status = mini.objects[path], 200
                else:
                    body, status = b'', 404
                self.send_response(status)
                self.send_header('Content-Length', str(len(body)))
                self.end_headers()
                self.wfile.write(body)
                self.wfile.flush()

        class S(http.server.ThreadingHTTPServer):
            daemon_threads = True
            request_queue_size = 64

            def handle_error(self, request, client_address):
                pass

        self.srv = S(('127.0.0.1', 0), H)
        self.url = 'http://127.0.0.1:%d' % self.srv.server_address[1]
        self.thread = threading.Thread(target=self.srv.serve_forever, kwargs={'poll_interval': 0.05}, daemon=True)
        self.thread.start()

    def close(self):
        self.srv.shutdown()
        self.srv.server_close()
