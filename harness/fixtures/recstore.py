from katdal.chunkstore_dict import DictChunkStore
calls = []
class Rec(DictChunkStore):
    def get_chunk(self, array_name, slices, dtype):
        calls.append(tuple((s.start, s.stop) for s in slices)); return super().get_chunk(array_name, slices, dtype)
