"""Synthetic MVF v4 data sets: in-memory telstate + NpyFileChunkStore in a scratch directory.

Independent of katdal.test helpers.  Everything stored is returned so that checks can
compute expected values themselves.
"""
import logging
import os
import shutil
import tempfile
import warnings

import dask.array as da
import katsdptelstate
import numpy as np

warnings.simplefilter('ignore')
logging.disable(logging.CRITICAL)

from katdal.chunkstore_npy import NpyFileChunkStore   # noqa: E402
from katdal.datasources import TelstateDataSource, view_l0_capture_stream   # noqa: E402
from katdal.visdatav4 import VisibilityDataV4   # noqa: E402

SCRATCH = os.path.join(os.path.dirname(os.path.dirname(os.path.dirname(os.path.abspath(__file__)))), 'build', 'scratch')

TARGET_A = 'A, radec bpcal, 19:39:25.03, -63:42:45.6'
TARGET_B = 'B, radec gaincal, 10:00:00.0, -30:00:00.0'
TARGET_C = 'C | Cee, radec target, 05:00:00.0, -20:00:00.0'


def scratch_dir(tag='v4'):
    os.makedirs(SCRATCH, exist_ok=True)
    return tempfile.mkdtemp(prefix=tag + '-', dir=SCRATCH)


def bls_ordering_for(ants):
    out = []
    for i in range(len(ants)):
        for j in range(i, len(ants)):
            for x in 'hv':
                for y in 'hv':
                    out.append((ants[i] + x, ants[j] + y))
    return out


def put_array(store, prefix, name, array, chunks):
    darray = da.from_array(array, chunks=chunks if chunks is not None else array.shape)
    full = store.join(prefix, name)
    store.create_array(full)
    da.compute(store.put_dask_array(full, darray))
    return {'prefix': prefix, 'chunks': darray.chunks,
            'dtype': np.lib.format.dtype_to_descr(darray.dtype), 'shape': darray.shape}


def random_arrays(rs, T, F, B):
    vis = (rs.randint(-64, 64, size=(T, F, B)) + 1j * rs.randint(-64, 64, size=(T, F, B))).astype(np.complex64)
    flags = rs.randint(0, 256, size=(T, F, B)).astype(np.uint8)
    flags &= np.uint8(0x77)   # stored flags never carry data_lost / postproc themselves by default
    weights = rs.randint(1, 9, size=(T, F, B)).astype(np.uint8)
    weights_channel = (2.0 ** rs.randint(-2, 3, size=(T, F))).astype(np.float32)
    return dict(correlator_data=vis, flags=flags, weights=weights, weights_channel=weights_channel)


class V4:
    pass


def build_v4(T=8, F=4, ants=('m000', 'm001'), cbid='1234567890', stream='sdp_l0', seed=0,
             arrays=None, chunks=None, l1_flags=None, l1_chunks=None, l1_name='sdp_l1_flags',
             first_timestamp=123.0, int_time=2.0, sync_time=1600000000.0,
             bandwidth=856e6 / 1024, center_freq=1284e6,
             acts=((0, 'slew'), (2, 'track')), targets=((0, TARGET_A),), labels=((0, 'track'),),
             need_weights_power_scale=False, bls_ordering=None, lose=(), telstate_hook=None,
             open_kwargs=None, source_kwargs=None, tmp=None, event_offset=-0.9, extra_sensors=(),
             sub_pool_resources=None, sub_product='c856M4k', cbf=None, flag_streams=(), archived_override=None,
             construct=True):
    """Returns V4 object with .d (VisibilityDataV4), .stored (dict of arrays), .telstate, .store, .tmp.

    cbf: None (a "lite" RDB without CBF attributes) or (cbf_int_time, n_accs, scale_factor_timestamp).

    lose: iterable of (stream, array_name, chunk_index_tuple) chunk files to delete after writing.
    """
    rs = np.random.RandomState(seed)
    ants = tuple(ants)
    if bls_ordering is None:
        bls_ordering = bls_ordering_for(ants)
    B = len(bls_ordering)
    tmp = tmp or scratch_dir()
    os.makedirs(tmp, exist_ok=True)
    store = NpyFileChunkStore(tmp)
    ts = katsdptelstate.TelescopeState()
    stored = random_arrays(rs, T, F, B)
    if arrays:
        stored.update(arrays)
    chunks = chunks or {}
    prefix = ts.join(cbid, stream).replace('_', '-')
    chunk_info = {k: put_array(store, prefix, k, a, chunks.get(k)) for k, a in stored.items()}
    cs_view = ts.view(ts.join(cbid, stream))
    s_view = ts.view(stream)
    cs_view['chunk_info'] = chunk_info
    cs_view['first_timestamp'] = first_timestamp
    s_view['sync_time'] = sync_time
    s_view['int_time'] = int_time
    s_view['bandwidth'] = bandwidth
    s_view['center_freq'] = center_freq
    s_view['n_chans'] = F
    s_view['n_bls'] = B
    s_view['bls_ordering'] = np.array(bls_ordering)
    s_view['need_weights_power_scale'] = bool(need_weights_power_scale)
    s_view['stream_type'] = 'sdp.vis'
    archived = [stream]
    stored_l1 = None
    if l1_flags is not None:
        l1_prefix = ts.join(cbid, l1_name).replace('_', '-')
        l1_info = {'flags': put_array(store, l1_prefix, 'flags', l1_flags, l1_chunks)}
        l1_cs = ts.view(ts.join(cbid, l1_name))
        l1_s = ts.view(l1_name)
        l1_cs['chunk_info'] = l1_info
        l1_cs['first_timestamp'] = first_timestamp
        for k in ('sync_time', 'int_time', 'bandwidth', 'center_freq', 'n_chans', 'n_bls', 'bls_ordering'):
            l1_s[k] = s_view[k]
        l1_s['stream_type'] = 'sdp.flags'
        l1_s['src_streams'] = [stream]
        archived.append(l1_name)
        stored_l1 = l1_flags
    extra_info = {}
    for fsd in flag_streams:
        # dict(name, flags=array, chunks=None, type='sdp.flags', src=[stream], archived=True)
        nm = fsd['name']
        f_prefix = ts.join(cbid, nm).replace('_', '-')
        extra_info[nm] = {'flags': put_array(store, f_prefix, 'flags', fsd['flags'], fsd.get('chunks'))}
        ts.view(ts.join(cbid, nm))['chunk_info'] = extra_info[nm]
        f_s = ts.view(nm)
        if fsd.get('type', 'sdp.flags') is not None:
            f_s['stream_type'] = fsd.get('type', 'sdp.flags')
        f_s['src_streams'] = list(fsd.get('src', [stream]))
        if fsd.get('archived', True):
            archived.append(nm)
    if archived_override is not None:
        archived = list(archived_override)
    ts['sdp_archived_streams'] = archived
    ts['sub_pool_resources'] = sub_pool_resources or ('cbf_1,sdp_1,' + ','.join(ants))
    ts['sub_product'] = sub_product
    if cbf is not None:
        # attributes read by visdatav4._cbf_attrs: (cbf int_time, n_accs, scale_factor_timestamp)
        s_view['src_streams'] = ['corr']
        ts['corr_int_time'] = cbf[0]
        ts['corr_n_accs'] = cbf[1]
        ts['corr_src_streams'] = ['feng']
        ts['feng_instrument_dev_name'] = 'i0'
        ts['i0_scale_factor_timestamp'] = cbf[2]
    ts['sub_band'] = 'l'
    ts['obs_params'] = {'observer': 'verif', 'description': 'synthetic', 'proposal_id': 'P', 'sb_id_code': 'S'}
    for k, a in enumerate(ants):
        ts[a + '_observer'] = '%s, -30:42:39.8, 21:26:38.0, 1086.6, 13.5, %d %d 0' % (a, 10 * k, -7 * k)
    t0 = sync_time + first_timestamp

    def ev_time(dd):
        # events of dump 0 are placed well before the data so that time_offset / CBF fixes never orphan them
        return t0 + int_time * dd + event_offset - (16.0 if dd == 0 else 0.0)
    for dd, v in acts:
        for a in ants:
            ts.add(a + '_activity', v, ts=ev_time(dd))
        ts.add('obs_activity', v, ts=ev_time(dd))
    for dd, v in targets:
        ts.add('cbf_target', v, ts=ev_time(dd))
        for a in ants:
            ts.add(a + '_target', v, ts=ev_time(dd))
    for dd, v in labels:
        ts.add('obs_label', v, ts=ev_time(dd))
    for name, samples in extra_sensors:
        for (tt, v) in samples:
            ts.add(name, v, ts=tt)
    if telstate_hook is not None:
        telstate_hook(ts, cbid, stream)
    for (strm, name, idx) in lose:
        pfx = ts.join(cbid, strm).replace('_', '-')
        info = chunk_info[name] if strm == stream else l1_info[name]
        starts = [int(sum(c[:i])) for c, i in zip(info['chunks'], idx)]
        fn = os.path.join(tmp, pfx, name, '_'.join('%05d' % s for s in starts) + '.npy')
        os.remove(fn)
    view, cbid_, sn = view_l0_capture_stream(ts, cbid, stream)
    out = V4()
    out.telstate, out.store, out.tmp, out.stored, out.stored_l1 = ts, store, tmp, stored, stored_l1
    out.view, out.cbid, out.stream = view, cbid_, sn
    out.bls_ordering = bls_ordering
    out.chunk_info = chunk_info
    if not construct:
        return out
    out.source = TelstateDataSource(view, cbid_, sn, chunk_store=store, **(source_kwargs or {}))
    out.d = VisibilityDataV4(out.source, **(open_kwargs or {}))
    return out


def reopen(v, source_kwargs=None, open_kwargs=None):
    """A second, independent data set on the same telstate and chunk store (e.g. with preselect)."""
    src = TelstateDataSource(v.view, v.cbid, v.stream, chunk_store=v.store, **(source_kwargs or {}))
    return VisibilityDataV4(src, **(open_kwargs or {}))


def cleanup(v):
    shutil.rmtree(v.tmp, ignore_errors=True)


def cleanup_all():
    shutil.rmtree(SCRATCH, ignore_errors=True)
