"""C20: inventory of the places where katdal code writes to state that OUTLIVES THE CALL.

A function that only touches objects it has created itself (per-call state) computes the same thing under every thread
interleaving (Props/C20.v: C20_percall_interleaving_independent).  Everything else -- an assignment / deletion /
augmented assignment through an attribute or an item of an object the function did not create, a call of a mutating
container method on such an object, `setattr`, an `out=` argument, a `global` / `nonlocal` declaration, a decorator that
keeps state between calls, a mutable default argument -- is a SITE.  The translator item `item_shared_writes`
(vh/items/c20.py) lists the sites of the files whose functions are executed by dask worker threads or by concurrent
callers of the accesses the property names and fails closed against an allow-list of sites that are modelled and proved
safe; the harness (props/c20.py) puts its pre-emption windows next to the same sites (and next to the reads of what
they write).  Pure `ast`: comments, docstrings, the texts of log messages and of exception messages play no role.

What "created itself" means (flow-insensitive, conservative): a name is FRESH when it is not a parameter (`*args` /
`**kwargs` are fresh containers), not global / nonlocal, and EVERY binding of it in the function is a fresh expression: a
constant, a display or comprehension, arithmetic, a call of a constructor (CamelCase) or of a function known to return a
new object (np.empty, .copy(), .astype(), ...), an item / slice of a fresh name, a view-returning call (np.asarray,
.reshape, ...) of a fresh argument.  `x = obj.attr`, `x = f(y)`, `x = session.get_adapter(url)`, loop variables over
non-fresh iterables etc. make `x` an ALIAS of something that may be shared, and a write through it is a site.
"""
import ast
import os

MUTATORS = frozenset((
    'append', 'appendleft', 'extend', 'extendleft', 'insert', 'pop', 'popleft', 'popitem', 'remove', 'clear', 'update',
    'setdefault', 'add', 'discard', 'sort', 'reverse', 'fill', 'resize', 'put', 'itemset', 'setfield', 'byteswap',
    'partition', 'setflags', 'move_to_end', 'difference_update', 'intersection_update', 'symmetric_difference_update',
    '__setitem__', '__delitem__', '__setattr__', '__delattr__', '__iadd__', 'mount', 'set', 'release', 'acquire_write'))
# (`mount`: requests.Session.mount; `set`: Event / contextvar; harmless extra names only cost an allow-list line)
MUTATING_FUNCS = frozenset(('setattr', 'delattr', 'np.copyto', 'np.put', 'np.place', 'np.putmask', 'np.put_along_axis',
                            'numpy.copyto', 'object.__setattr__', 'np.add.at', 'np.multiply.at', 'np.maximum.at',
                            'np.bitwise_or.at', 'np.logical_or.at'))
FRESH_CALLS = frozenset((
    'np.empty', 'np.empty_like', 'np.zeros', 'np.zeros_like', 'np.ones', 'np.ones_like', 'np.full', 'np.full_like',
    'np.array', 'np.ndarray', 'np.arange', 'np.copy', 'np.concatenate', 'np.stack', 'np.vstack', 'np.hstack', 'np.dstack', 'np.column_stack',
    'np.linspace', 'np.where', 'np.nonzero', 'np.flatnonzero', 'np.abs', 'np.conj', 'np.exp', 'np.angle', 'np.interp',
    'np.cumsum', 'np.diff', 'np.unique', 'np.sort', 'np.argsort', 'np.tile', 'np.repeat', 'np.outer', 'np.dot', 'np.prod',
    'np.isnan', 'np.isfinite', 'np.logical_not', 'np.logical_and', 'np.logical_or', 'np.bitwise_or', 'np.packbits',
    'np.unpackbits', 'np.frombuffer_copy', 'np.dtype', 'np.searchsorted', 'np.digitize', 'np.lexsort', 'np.ix_', 'np.s_',
    'np.ndindex', 'np.nan_to_num', 'np.clip', 'np.round', 'np.floor', 'np.ceil', 'np.sqrt', 'np.sum', 'np.mean', 'np.max',
    'np.min', 'np.any', 'np.all', 'np.count_nonzero', 'np.argmin', 'np.argmax', 'np.shape', 'np.ndim', 'np.size',
    'list', 'dict', 'set', 'tuple', 'frozenset', 'sorted', 'reversed', 'range', 'len', 'int', 'float', 'complex', 'str',
    'bytes', 'bytearray', 'bool', 'slice', 'zip', 'enumerate', 'map', 'filter', 'iter', 'sum', 'min', 'max', 'abs', 'round',
    'repr', 'format', 'hash', 'id', 'isinstance', 'issubclass', 'callable', 'divmod', 'pow', 'ord', 'chr', 'any',
    'all', 'object', 'memoryview_copy', 'copy.copy', 'copy.deepcopy', 'itertools.chain', 'itertools.product',
    'itertools.count', 'collections.defaultdict', 'collections.OrderedDict', 'collections.deque', 'io.BytesIO',
    'threading.Lock', 'threading.RLock', 'hashlib.md5', 'hashlib.sha1', 'json.dumps', 'json.loads', 'base64.b64encode',
    'urllib.parse.urljoin', 'urllib.parse.urlsplit', 'urllib.parse.urlparse', 'urllib.parse.quote', 'os.path.join',
    'time.time', 'to_str', 'da.from_array_copy'))
FRESH_METHODS = frozenset((
    'copy', 'astype', 'tolist', 'tobytes', 'format', 'join', 'split', 'rsplit', 'strip', 'lstrip', 'rstrip', 'replace',
    'lower', 'upper', 'encode', 'decode', 'startswith', 'endswith', 'conj', 'conjugate', 'sum', 'prod', 'mean', 'std', 'min',
    'max', 'any', 'all', 'argmin', 'argmax', 'nonzero', 'cumsum', 'round', 'items', 'keys', 'values', 'index', 'count',
    'new', 'increment', 'hexdigest', 'digest', 'isoformat', 'total_seconds', 'is_exhausted', 'get_backoff_time'))
# (`retries.new()` / `retries.increment(...)`: urllib3 Retry objects are immutable, both build a new one)
VIEW_CALLS = frozenset(('np.asarray', 'np.asanyarray', 'np.ascontiguousarray', 'np.atleast_1d', 'np.atleast_2d', 'np.ravel',
                        'np.reshape', 'np.squeeze', 'np.transpose', 'np.broadcast_to', 'np.require', 'np.real', 'np.imag',
                        'np.moveaxis', 'np.swapaxes', 'np.expand_dims', 'np.frombuffer', 'memoryview'))
VIEW_METHODS = frozenset(('reshape', 'ravel', 'squeeze', 'transpose', 'view', 'swapaxes', 'get', '__getitem__'))
VIEW_ATTRS = frozenset(('T', 'real', 'imag', 'flat'))
SCALAR_ATTRS = frozenset(('shape', 'dtype', 'ndim', 'size', 'nbytes', 'start', 'stop', 'step', 'itemsize', 'name',
                          'status_code', 'reason', 'ok'))
CONSTRUCTION = ('__init__', '__new__', '__setstate__', '__post_init__')
OK_DECORATORS = ('property', 'staticmethod', 'classmethod', 'contextlib.contextmanager', 'abc.abstractmethod',
                 'abstractmethod', 'numba.jit', 'numba.njit', 'jit', 'njit', 'functools.wraps', 'wraps',
                 'numba.extending.overload', 'numba.extending.register_jitable', 'pytest.fixture')


def dotted(node):
    """'np.add.at' for the Attribute chain np.add.at, None for anything that is not a chain of names"""
    parts = []
    while isinstance(node, ast.Attribute):
        parts.append(node.attr)
        node = node.value
    if isinstance(node, ast.Name):
        parts.append(node.id)
        return '.'.join(reversed(parts))
    return None


def own_nodes(fn):
    """all nodes of the function's own scope: lambdas and comprehensions included, nested defs / classes not"""
    body = fn.body if isinstance(fn.body, list) else [fn.body]
    stack = [b for b in body if not isinstance(b, (ast.FunctionDef, ast.AsyncFunctionDef, ast.ClassDef))]
    if not isinstance(fn, ast.Lambda):
        stack += list(fn.decorator_list)
    stack += [d for d in fn.args.defaults + fn.args.kw_defaults if d is not None]
    while stack:
        n = stack.pop()
        yield n
        for c in ast.iter_child_nodes(n):
            if isinstance(c, (ast.FunctionDef, ast.AsyncFunctionDef, ast.ClassDef)):
                continue
            stack.append(c)


def chain_of(t):
    """(root node, [links from the root outwards]) of an Attribute / Subscript / Starred chain"""
    links = []
    while isinstance(t, (ast.Attribute, ast.Subscript, ast.Starred)):
        links.append(t)
        t = t.value
    return t, list(reversed(links))


class Scope:
    """freshness of the names of one function"""

    def __init__(self, fn):
        self.fn = fn
        a = fn.args
        self.params = {x.arg for x in a.args + a.kwonlyargs + a.posonlyargs}
        self.fresh_params = {x.arg for x in (a.vararg, a.kwarg) if x is not None}
        self.declared = set()
        self.bindings = {}
        for n in own_nodes(fn):
            if isinstance(n, (ast.Global, ast.Nonlocal)):
                self.declared.update(n.names)
            elif isinstance(n, ast.Assign):
                for t in n.targets:
                    self._bind(t, n.value)
            elif isinstance(n, ast.AnnAssign) and n.value is not None:
                self._bind(n.target, n.value)
            elif isinstance(n, ast.AugAssign) and isinstance(n.target, ast.Name):
                self._bind(n.target, ast.BinOp(left=n.target, op=n.op, right=n.value))
            elif isinstance(n, ast.NamedExpr):
                self._bind(n.target, n.value)
            elif isinstance(n, (ast.For, ast.AsyncFor)):
                self._bind_iter(n.target, n.iter)
            elif isinstance(n, ast.comprehension):
                self._bind_iter(n.target, n.iter)
            elif isinstance(n, (ast.With, ast.AsyncWith)):
                for i in n.items:
                    if i.optional_vars is not None:
                        self._bind(i.optional_vars, None)
            elif isinstance(n, ast.ExceptHandler) and n.name:
                self.bindings.setdefault(n.name, []).append(ast.Constant(value=None))     # an exception object: its own
            elif isinstance(n, (ast.Import, ast.ImportFrom)):
                for al in n.names:
                    self.bindings.setdefault((al.asname or al.name).split('.')[0], []).append(None)
            elif isinstance(n, ast.Lambda):
                for x in n.args.args + n.args.kwonlyargs:
                    self.bindings.setdefault(x.arg, []).append(None)      # a lambda's parameter: anything
        # greatest fixpoint: start from "every name bound here is fresh", drop the names that have a binding which is not
        # (so that `a = np.ones(n); a = np.ascontiguousarray(a.T)` keeps `a` fresh: a view of itself)
        self.fresh = set(self.fresh_params) | {n for n in self.bindings if n not in self.params and n not in self.declared}
        changed = True
        while changed:
            changed = False
            for name, vals in self.bindings.items():
                if name in self.fresh and name not in self.fresh_params \
                        and not all(v is not None and self.fresh_expr(v) for v in vals):
                    self.fresh.discard(name)
                    changed = True
        # a parameter that the function re-binds to a fresh object in a top-level statement of its body (`chunks =
        # list(chunks)`): fresh for the writes that come after that statement (see param_rebound_before)
        self.rebound = {}
        body = fn.body if isinstance(fn.body, list) else []
        for st in body:
            if isinstance(st, ast.Assign) and len(st.targets) == 1 and isinstance(st.targets[0], ast.Name) \
                    and st.targets[0].id in self.params and st.targets[0].id not in self.declared:
                nm = st.targets[0].id
                if all(v is not None and self.fresh_expr(v) for v in self.bindings.get(nm, [])):
                    self.rebound.setdefault(nm, st.lineno)

    def _bind(self, target, value):
        if isinstance(target, ast.Name):
            self.bindings.setdefault(target.id, []).append(value)
        elif isinstance(target, (ast.Tuple, ast.List)):
            if isinstance(value, (ast.Tuple, ast.List)) and len(value.elts) == len(target.elts) \
                    and not any(isinstance(e, ast.Starred) for e in target.elts + value.elts):
                for t, v in zip(target.elts, value.elts):
                    self._bind(t, v)
            else:
                # unpacking: the parts of a fresh tuple of fresh things are fresh only if we know the producer
                for t in target.elts:
                    self._bind(t.value if isinstance(t, ast.Starred) else t,
                               value if (value is not None and self._fresh_parts(value)) else None)
        # Attribute / Subscript targets bind no name

    def _bind_iter(self, target, it):
        if isinstance(it, ast.Call) and dotted(it.func) in ('range', 'np.ndindex', 'np.arange', 'itertools.count'):
            self._bind(target, ast.Constant(value=0))
        elif isinstance(it, ast.Call) and dotted(it.func) == 'enumerate' and isinstance(target, (ast.Tuple, ast.List)) \
                and len(target.elts) == 2 and it.args:
            self._bind(target.elts[0], ast.Constant(value=0))
            self._bind_iter(target.elts[1], it.args[0])
        elif isinstance(it, ast.Call) and dotted(it.func) == 'zip' and isinstance(target, (ast.Tuple, ast.List)) \
                and len(target.elts) == len(it.args):
            for t, a in zip(target.elts, it.args):
                self._bind_iter(t, a)
        else:
            # an element of a container: the container being fresh says nothing about what it holds
            self._bind(target, None)

    def _fresh_parts(self, value):
        """does unpacking `value` give fresh objects?  (scalars out of shape tuples, divmod, np.nonzero ...)"""
        if isinstance(value, ast.Call):
            return dotted(value.func) in ('divmod', 'np.nonzero', 'np.where', 'np.unique', 'np.divmod', 'np.unravel_index',
                                          '_connect_read_tuple', 'npy_header_and_body')
        if isinstance(value, ast.Attribute):
            return value.attr in SCALAR_ATTRS
        return False

    def name_fresh(self, name):
        return name in self.fresh

    def fresh_at(self, obj, line):
        """is the object written into fresh at this line?  (also: a parameter re-bound to a fresh copy further up)"""
        if self.fresh_expr(obj):
            return True
        root, links = chain_of(obj)
        if isinstance(root, ast.Name) and root.id in self.rebound and self.rebound[root.id] < line \
                and not any(isinstance(l, ast.Attribute) for l in links):
            return True
        return False

    def fresh_expr(self, e):
        if isinstance(e, (ast.Constant, ast.List, ast.Dict, ast.Set, ast.Tuple, ast.ListComp, ast.SetComp, ast.DictComp,
                          ast.GeneratorExp, ast.BinOp, ast.UnaryOp, ast.Compare, ast.JoinedStr, ast.FormattedValue,
                          ast.Lambda, ast.Slice)):
            return True
        if isinstance(e, ast.BoolOp):
            return all(self.fresh_expr(v) for v in e.values)
        if isinstance(e, ast.IfExp):
            return self.fresh_expr(e.body) and self.fresh_expr(e.orelse)
        if isinstance(e, ast.NamedExpr):
            return self.fresh_expr(e.value)
        if isinstance(e, ast.Name):
            return e.id in self.fresh or e.id in ('None', 'True', 'False')
        if isinstance(e, ast.Starred):
            return self.fresh_expr(e.value)
        if isinstance(e, ast.Subscript):
            return self.fresh_expr(e.value)          # an item / a view of something fresh
        if isinstance(e, ast.Attribute):
            if e.attr in SCALAR_ATTRS:
                return True
            return e.attr in VIEW_ATTRS and self.fresh_expr(e.value)
        if isinstance(e, ast.Call):
            d = dotted(e.func)
            if d is not None:
                if d in FRESH_CALLS:
                    return True
                if d in VIEW_CALLS:
                    return bool(e.args) and self.fresh_expr(e.args[0])
                last = d.split('.')[-1].lstrip('_')
                if last[:1].isupper() and not last.isupper():
                    return True          # a constructor: CorrectionParams(...), requests.adapters.HTTPAdapter()
            if isinstance(e.func, ast.Attribute):
                if e.func.attr in FRESH_METHODS:
                    return True
                if e.func.attr in VIEW_METHODS:
                    return self.fresh_expr(e.func.value)
            return False
        return False

    def shared_object(self, obj, line=0):
        """may the object denoted by expression `obj` (the thing that is written INTO) outlive the call?"""
        return not self.fresh_at(obj, line)


class Site:
    def __init__(self, rel, qual, line, kind, text, attr, construction=False):
        self.rel, self.qual, self.line, self.kind, self.text, self.attr = rel, qual, line, kind, text, attr
        self.construction = construction

    @property
    def ident(self):
        return '%s:%s:%s:%s' % (os.path.basename(self.rel), self.qual, self.kind, self.text)

    def __repr__(self):
        return '%s @%d' % (self.ident, self.line)


def _written_attr(target):
    """the attribute / item name that identifies WHAT is written: `_last_gains` of params._last_gains,
    `max_retries` of adapter.max_retries, `_raw` of self._raw[name]"""
    root, links = chain_of(target)
    for l in reversed(links):
        if isinstance(l, ast.Attribute):
            return l.attr
    return root.id if isinstance(root, ast.Name) else None


def function_sites(fn, qual, rel, in_class, modules=frozenset()):
    """the sites of ONE function (own scope)"""
    sc = Scope(fn)
    out = []
    name = getattr(fn, 'name', '<lambda>')

    def add(node, kind, text, attr, construction=False):
        out.append(Site(rel, qual, getattr(node, 'lineno', fn.lineno), kind, text, attr, construction))

    # while an object is being constructed it is not shared yet: `self.x = ...` in __init__ is no site, nor is a write
    # INTO self.x (`self.x[k] = v`, `self.x.append(v)`) when every `self.x = ...` of that method assigns a fresh object
    own_attrs = set()
    if in_class and name in CONSTRUCTION:
        assigned = {}
        for n in own_nodes(fn):
            if isinstance(n, ast.Assign):
                for t in n.targets:
                    if isinstance(t, ast.Attribute) and isinstance(t.value, ast.Name) and t.value.id == 'self':
                        assigned.setdefault(t.attr, []).append(n.value)
        own_attrs = {a for a, vs in assigned.items() if all(sc.fresh_expr(v) for v in vs)}

    def under_construction(root, links):
        if not (in_class and name in CONSTRUCTION and isinstance(root, ast.Name) and root.id == 'self' and links
                and isinstance(links[0], ast.Attribute)):
            return False
        if len(links) == 1:
            return True
        return links[0].attr in own_attrs and not any(isinstance(l, ast.Attribute) for l in links[1:])

    def target_site(node, t, kind):
        if isinstance(t, (ast.Tuple, ast.List)):
            for x in t.elts:
                target_site(node, x, kind)
            return
        if isinstance(t, ast.Starred):
            return target_site(node, t.value, kind)
        if isinstance(t, ast.Name):
            if kind == 'aug' and not sc.name_fresh(t.id) and (t.id in sc.params or t.id in sc.declared):
                add(node, 'aug', t.id, t.id)        # `x += y` on a parameter / global changes an array or list in place
            elif t.id in sc.declared:
                add(node, 'global', t.id, t.id)
            return
        if not isinstance(t, (ast.Attribute, ast.Subscript)):
            return
        obj = t.value                       # the object written into
        root, links = chain_of(t)
        if sc.shared_object(obj, node.lineno):
            add(node, kind, ast.unparse(t), _written_attr(t), under_construction(root, links))

    for n in own_nodes(fn):
        if isinstance(n, ast.Assign):
            for t in n.targets:
                target_site(n, t, 'set')
        elif isinstance(n, ast.AnnAssign) and n.value is not None:
            target_site(n, n.target, 'set')
        elif isinstance(n, ast.AugAssign):
            target_site(n, n.target, 'aug')
        elif isinstance(n, ast.Delete):
            for t in n.targets:
                target_site(n, t, 'del')
        elif isinstance(n, (ast.For, ast.AsyncFor)):
            target_site(n, n.target, 'set')
        elif isinstance(n, (ast.With, ast.AsyncWith)):
            for i in n.items:
                if i.optional_vars is not None:
                    target_site(n, i.optional_vars, 'set')
        elif isinstance(n, ast.NamedExpr):
            target_site(n, n.target, 'set')
        elif isinstance(n, (ast.Global, ast.Nonlocal)):
            for nm in n.names:
                add(n, 'declares', nm, nm)
        elif isinstance(n, ast.Call):
            d = dotted(n.func)
            if d in MUTATING_FUNCS:
                if n.args and sc.shared_object(n.args[0], n.lineno):
                    add(n, 'call', '%s(%s, ...)' % (d, ast.unparse(n.args[0])), _written_attr(n.args[0]))
            elif isinstance(n.func, ast.Attribute) and n.func.attr in MUTATORS:
                recv = n.func.value
                if isinstance(recv, ast.Call) and dotted(recv.func) == 'super':
                    pass
                elif dotted(recv) is not None and dotted(recv).split('.')[0] in modules:
                    pass            # toolz.partition(...), np.add(...): a function of a module, not a method of an object
                elif sc.shared_object(recv, n.lineno):
                    r2, l2 = chain_of(recv)
                    add(n, 'call', '%s.%s()' % (ast.unparse(recv), n.func.attr), _written_attr(recv),
                        under_construction(r2, l2 + [None]) if l2 else False)
            for kw in n.keywords:
                if kw.arg == 'out' and not (isinstance(kw.value, ast.Constant) and kw.value.value is None) \
                        and sc.shared_object(kw.value, n.lineno):
                    add(n, 'out', ast.unparse(kw.value), _written_attr(kw.value))
    if not isinstance(fn, ast.Lambda):
        for d in fn.decorator_list:
            txt = dotted(d.func if isinstance(d, ast.Call) else d) or ast.unparse(d)
            if txt not in OK_DECORATORS and not txt.endswith(('.setter', '.getter', '.deleter')):
                add(d, 'decorator', txt, None)
        a = fn.args
        pos = a.posonlyargs + a.args
        for arg, dflt in list(zip(pos[len(pos) - len(a.defaults):], a.defaults)) + list(zip(a.kwonlyargs, a.kw_defaults)):
            if dflt is not None and isinstance(dflt, (ast.List, ast.Dict, ast.Set, ast.ListComp, ast.DictComp, ast.SetComp,
                                                      ast.Call)):
                if isinstance(dflt, ast.Call) and dotted(dflt.func) in ('slice', 'tuple', 'frozenset', 'range', 'int', 'float',
                                                                         'str', 'bytes', 'bool', 'complex', 'object'):
                    continue        # an immutable default
                add(dflt, 'default', arg.arg, arg.arg)
    return out


def module_names(tree):
    """names that denote imported modules (a call `toolz.partition(...)` is a function of a module, no method call)"""
    modules = set()
    for n in tree.body:
        if isinstance(n, ast.Import):
            modules.update((al.asname or al.name).split('.')[0] for al in n.names)
        elif isinstance(n, ast.ImportFrom):
            modules.update(al.asname or al.name for al in n.names
                           if (al.asname or al.name) in ('toolz', 'np', 'da', 'dask', 'numba', 'requests'))
    return modules


def file_sites(repo, rel):
    """all sites of one file, functions in source order"""
    tree = ast.parse(open(os.path.join(repo, rel)).read())
    out = []
    modules = module_names(tree)

    def visit(node, prefix, in_class):
        for c in ast.iter_child_nodes(node):
            if isinstance(c, (ast.FunctionDef, ast.AsyncFunctionDef)):
                qual = prefix + c.name
                out.extend(function_sites(c, qual, rel, in_class, modules))
                visit(c, qual + '.<locals>.', False)
            elif isinstance(c, ast.ClassDef):
                visit(c, prefix + c.name + '.', True)
            else:
                visit(c, prefix, in_class)
    visit(tree, '', False)
    return out


def repo_root():
    import katdal
    return os.path.dirname(os.path.dirname(katdal.__file__))


_cache = {}


def sites_of(rel, repo=None):
    repo = repo or repo_root()
    key = (repo, rel)
    if key not in _cache:
        _cache[key] = file_sites(repo, rel)
    return _cache[key]


def read_lines_of(rel, attrs, repo=None):
    """(basename, line) of the statements that READ one of the attribute names `attrs` (through any object): the places
    where a check of shared state can go stale before it is acted upon"""
    repo = repo or repo_root()
    tree = ast.parse(open(os.path.join(repo, rel)).read())
    base = os.path.basename(rel)
    out = set()
    for fn in ast.walk(tree):
        if not isinstance(fn, (ast.FunctionDef, ast.AsyncFunctionDef)) or fn.name in CONSTRUCTION:
            continue
        for st in ast.walk(fn):
            if not isinstance(st, ast.stmt) or isinstance(st, (ast.FunctionDef, ast.AsyncFunctionDef, ast.ClassDef)):
                continue
            # the statement's own expressions (for a compound statement: its header only)
            heads = []
            if isinstance(st, (ast.If, ast.While)):
                heads = [st.test]
            elif isinstance(st, (ast.For, ast.AsyncFor)):
                heads = [st.iter]
            elif isinstance(st, (ast.With, ast.AsyncWith)):
                heads = [i.context_expr for i in st.items]
            elif isinstance(st, ast.Try):
                heads = []
            else:
                heads = [st]
            for h in heads:
                for n in ast.walk(h):
                    if isinstance(n, ast.Attribute) and isinstance(n.ctx, ast.Load) and n.attr in attrs:
                        out.add((base, st.lineno))
    return out
