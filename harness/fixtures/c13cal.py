"""C13 fixtures: a calibration stream ('cal', stream_type sdp.cal) added to a synthetic v4 telstate.

`cal_hook(cal)` returns a telstate_hook for fixtures.v4.build_v4.  `cal` is a JSON-able dict:
  antlist, pol_ordering, center_freq, bandwidth, n_chans,
  products: {'G': [(dump, array (pol, ant) or (chan, pol, ant)) ...], 'B': [...(chan, pol, ant)], 'K': [...(pol, ant)]}
  arrays are nested lists of [re, im] pairs, None (NaN) or 'inf' (inf + 0j); K arrays hold plain floats / None / 'inf'.
  parts (optional): {'B': n}  -> "split cal": the stream gets the attribute product_B_parts = n and the solutions
  live in the sensors product_B0 .. product_B<n-1> (keys 'B0', 'B1', ... of `products`, each with its OWN event
  list, array (chan_of_part, pol, ant)); a part without a key has no sensor at all.
build_v4 must be called with archived_override=[stream, 'cal'] so that katdal finds the stream.
"""
import numpy as np


def _carr(a):
    a = np.array([[np.nan, np.nan] if v is None else ([np.inf, 0.0] if v == 'inf' else v) for v in _flat(a, 2)],
                 np.float64)
    out = np.empty(len(a), np.complex64)
    out.real, out.imag = a[:, 0], a[:, 1]          # (inf + 0j) must not become (inf + nan j)
    return out


def _is_leaf(a, leaf):
    """None (NaN), 'inf' (an infinite solution) or a list of `leaf` numbers."""
    return a is None or isinstance(a, str) or (
        isinstance(a, (list, tuple)) and len(a) == leaf and not isinstance(a[0], (list, tuple, type(None), str)))


def _flat(a, leaf):
    """flatten nested lists down to leaves (None, 'inf' or list of `leaf` numbers)."""
    if _is_leaf(a, leaf):
        return [a]
    out = []
    for x in a:
        out += _flat(x, leaf)
    return out


def _shape(a, leaf):
    if _is_leaf(a, leaf):
        return ()
    return (len(a),) + _shape(a[0], leaf)


def complex_array(a):
    return _carr(a).reshape(_shape(a, 2))


def float_array(a):
    return np.array(a, np.float64) if a is not None else np.array(np.nan)


L2_IMAGE_STREAM = 'continuum_image'
L2_TARGET = 'tgt'
L2_STREAM = L2_IMAGE_STREAM + '_' + L2_TARGET + '_selfcal'


def l2_hook(cal2, **kw):
    """A self-calibration ("l2") stream: an archived stream of type sdp.continuum_image with one imaged target whose
    <stream>_<target>_selfcal namespace holds the stream attributes and the product sensors of `cal2` (same layout as
    `cal`).  build_v4 must be called with archived_override=[stream, 'cal', L2_IMAGE_STREAM]."""
    inner = cal_hook(cal2, cal_stream=L2_STREAM, stream_type=None, **kw)

    def hook(ts, cbid, stream):
        view = ts.view(L2_IMAGE_STREAM)
        view['stream_type'] = 'sdp.continuum_image'
        view['targets'] = {'T, radec, 0:00:00, -30:00:00': L2_TARGET}
        inner(ts, cbid, stream)
    return hook


def hooks(*hs):
    def hook(ts, cbid, stream):
        for h in hs:
            h(ts, cbid, stream)
    return hook


def cal_hook(cal, sync_time=1600000000.0, first_timestamp=123.0, int_time=2.0, cal_stream='cal',
             stream_type='sdp.cal'):
    def hook(ts, cbid, stream):
        view = ts.view(cal_stream)
        if stream_type is not None:
            view['stream_type'] = stream_type
        view['antlist'] = list(cal['antlist'])
        view['pol_ordering'] = list(cal['pol_ordering'])
        view['center_freq'] = float(cal['center_freq'])
        view['bandwidth'] = float(cal['bandwidth'])
        view['n_chans'] = int(cal['n_chans'])
        for ptype, n_parts in cal.get('parts', {}).items():
            view['product_%s_parts' % ptype] = int(n_parts)
        cb = ts.view(ts.join(cbid, cal_stream))
        t0 = sync_time + first_timestamp
        for ptype, events in cal['products'].items():
            for dump, arr in events:
                if ptype[0] == 'K':
                    value = np.array([[np.nan if v is None else (np.inf if v == 'inf' else v) for v in row]
                                      for row in arr], np.float64)
                else:
                    value = complex_array(arr)
                # the middle of dump `dump` (dump -1: well before the data)
                cb.add('product_' + ptype, value, ts=t0 + int_time * dump + (0.0 if dump >= 0 else -20.0))
    return hook


def cal_channel_freqs(cal):
    from katdal.spectral_window import SpectralWindow
    return SpectralWindow(float(cal['center_freq']), None, int(cal['n_chans']), sideband=1,
                          bandwidth=float(cal['bandwidth'])).channel_freqs
