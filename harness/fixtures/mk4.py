import numpy as np, warnings, logging, tempfile, shutil, katsdptelstate
warnings.simplefilter('ignore'); logging.disable(logging.CRITICAL)
from katdal.chunkstore_npy import NpyFileChunkStore
from katdal.test.test_datasources import make_fake_data_source
from katdal.datasources import TelstateDataSource, view_l0_capture_stream
from katdal.visdatav4 import VisibilityDataV4
def mk(tmp, cbid, T, F, B, first_ts, acts, targets, labels, **kw):
    store = NpyFileChunkStore(tmp)
    ts = katsdptelstate.TelescopeState()
    view, cbid, sn, l0data, l1flags = make_fake_data_source(ts, store, (T,F,B), cbid=cbid)
    ts.delete(ts.join(cbid, "sdp_l0", "first_timestamp")); ts.view(ts.join(cbid, "sdp_l0"))["first_timestamp"] = first_ts
    ts['sub_pool_resources'] = 'cbf_1,sdp_1,m000,m001'
    ts['sub_product'] = 'c856M4k'; ts['sub_band'] = 'l'
    ts['obs_params'] = {'observer': 'me', 'description': 'x'}
    for a in ('m000', 'm001'):
        ts[a + '_observer'] = a + ', -30:42:39.8, 21:26:38.0, 1086.6, 13.5, -8.264 -207.29 8.5965'
    t0 = 1600000000.0 + first_ts
    for d, v in acts: ts.add('obs_activity', v, ts=t0 + 2*d - 0.9)
    for d, v in targets: ts.add('cbf_target', v, ts=t0 + 2*d - 0.9)
    for d, v in labels: ts.add('obs_label', v, ts=t0 + 2*d - 0.9)
    ts.add('anc_air_temperature', 20.0, ts=t0); ts.add('anc_air_temperature', 30.0, ts=t0 + 2*T)
    src = TelstateDataSource(view, cbid, sn, chunk_store=store, **kw)
    return VisibilityDataV4(src), l0data
