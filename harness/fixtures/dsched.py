"""Deterministic line-level thread scheduler (C20).

Worker threads run under sys.settrace; every 'line' event inside the traced katdal files is a scheduling
point at which the baton is handed to the thread the schedule names next.  Locks of the objects under test
are replaced by instrumented ones whose acquire() deschedules a blocked thread (so a schedule can never
deadlock the harness unless the code under test really deadlocks).
"""
import os
import sys
import threading


class Deadlock(Exception):
    pass


class Sched:
    def __init__(self, files, schedule, max_steps=4000):
        self.files = tuple(files)
        self.schedule = list(schedule)
        self.pos = 0
        self.cv = threading.Condition()
        self.current = None
        self.alive = set()
        self.blocked = {}
        self.trace = []
        self.steps = 0
        self.max_steps = max_steps
        self.deadlocked = False

    # ---- called by worker threads
    def _yield(self, tid, where):
        with self.cv:
            self.steps += 1
            if len(self.trace) < 400:
                self.trace.append((tid, where))
            self._pick_next()
            while self.current != tid:
                self.cv.wait()

    def _pick_next(self):
        runnable = sorted(t for t in self.alive if t not in self.blocked)
        if not runnable:
            if self.alive:
                self.deadlocked = True
                # release everybody so that the run terminates; blocked acquires raise Deadlock
                self.current = None
            self.current = None
            self.cv.notify_all()
            return
        if self.pos < len(self.schedule):
            want = self.schedule[self.pos] % max(1, len(self.alive | set(self.blocked)))
            nxt = want if want in runnable else runnable[self.pos % len(runnable)]
        else:
            nxt = runnable[0]
        self.pos += 1
        self.current = nxt
        self.cv.notify_all()

    def tracer(self, tid):
        def local(frame, event, arg):
            if event == 'line':
                self._yield(tid, (os.path.basename(frame.f_code.co_filename), frame.f_lineno))
            return local

        def glob(frame, event, arg):
            if event == 'call' and frame.f_code.co_filename.endswith(self.files):
                return local
            return None
        return glob

    def run(self, funcs, timeout=30):
        results = {}

        def worker(tid, f):
            with self.cv:
                while self.current != tid:
                    self.cv.wait()
            sys.settrace(self.tracer(tid))
            try:
                results[tid] = ('ok', f())
            except BaseException as e:   # noqa
                results[tid] = ('exc', type(e).__name__, str(e)[:120])
            finally:
                sys.settrace(None)
                with self.cv:
                    self.alive.discard(tid)
                    self.blocked.pop(tid, None)
                    self._pick_next()
        ths = [threading.Thread(target=worker, args=(i, f), daemon=True) for i, f in enumerate(funcs)]
        self.alive = set(range(len(funcs)))
        for t in ths:
            t.start()
        with self.cv:
            self._pick_next()
        for t in ths:
            t.join(timeout)
        hung = [i for i, t in enumerate(ths) if t.is_alive()]
        for i in hung:
            results[i] = ('exc', 'Hung', 'thread did not finish (deadlock?)')
        return results, self.trace


class ILock:
    """Instrumented lock; reentrant=True behaves like threading.RLock."""
    def __init__(self, sched, reentrant=False):
        self.s = sched
        self.owner = None
        self.count = 0
        self.reentrant = reentrant

    def acquire(self, blocking=True, timeout=-1):
        s = self.s
        me = s.current
        with s.cv:
            if self.reentrant and self.owner == me:
                self.count += 1
                return True
            while self.owner is not None:
                if self.owner == me and not self.reentrant:
                    raise Deadlock('thread re-acquired a non-reentrant lock it already holds')
                s.blocked[me] = self
                s._pick_next()
                while s.current != me:
                    s.cv.wait()
                    if s.deadlocked:
                        raise Deadlock('all threads blocked')
            self.owner = me
            self.count = 1
        return True

    def release(self):
        s = self.s
        with s.cv:
            self.count -= 1
            if self.count <= 0:
                self.owner = None
                self.count = 0
                for t, l in list(s.blocked.items()):
                    if l is self:
                        del s.blocked[t]

    def __enter__(self):
        return self.acquire()

    def __exit__(self, *a):
        self.release()
