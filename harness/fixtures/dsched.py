"""Deterministic line-level thread scheduler (C20).

Schedule entries: an int t = "thread t runs the next traced line" (consumed one per line event); ['run', t] = "thread t
runs until it finishes or blocks" (for single-pre-emption schedules: [A]*k + [['run', B], ['run', C]]).

Worker threads run under sys.settrace; every 'line' event inside the traced katdal files is a scheduling
point at which the baton is handed to the thread the schedule names next.  Locks of the objects under test
are replaced by instrumented ones whose acquire() deschedules a blocked thread (so a schedule can never
deadlock the harness unless the code under test really deadlocks).
"""
import os
import sys
import threading


class Deadlock(Exception):
    pass


class Sched:
    def __init__(self, files, schedule, max_steps=4000, max_trace=400):
        self.files = tuple(files)
        self.schedule = list(schedule)
        self.pos = 0
        self.cv = threading.Condition()
        self.current = None
        self.alive = set()
        self.blocked = {}
        self.trace = []
        self.steps = 0
        self.max_steps = max_steps
        self.max_trace = max_trace
        self.stall = 8.0
        self.hung = False
        self.deadlocked = False
        self.lockops = []       # (thread, 'a' | 'r', lock): outermost acquisitions / final releases of instrumented locks, in order

    # ---- called by worker threads
    def _yield(self, tid, where):
        # fast path: the schedule says "this thread keeps the baton" (a ['run', tid] entry, or the schedule is used up
        # and this is the lowest runnable thread): nobody else can be running, so no hand-over and no locking
        pos, sched = self.pos, self.schedule
        if pos < len(sched):
            e = sched[pos]
            keep = isinstance(e, (list, tuple)) and e[1] == tid
        else:
            keep = all(t >= tid or t in self.blocked for t in self.alive)
        if keep and self.current == tid and tid not in self.blocked:
            self.steps += 1
            if len(self.trace) < self.max_trace:
                self.trace.append((tid, where))
            return
        with self.cv:
            self.steps += 1
            if len(self.trace) < self.max_trace:
                self.trace.append((tid, where))
            self._pick_next()
            while self.current != tid:
                self.cv.wait()

    def _pick_next(self):
        runnable = sorted(t for t in self.alive if t not in self.blocked)
        if not runnable:
            if self.alive:
                self.deadlocked = True
                # release everybody so that the run terminates; blocked acquires raise Deadlock
                self.current = None
            self.current = None
            self.cv.notify_all()
            return
        nxt = None
        while self.pos < len(self.schedule):
            e = self.schedule[self.pos]
            if isinstance(e, (list, tuple)):
                # ['run', t]: thread t keeps the baton until it finishes or blocks (the entry is not consumed before)
                if e[1] in runnable:
                    nxt = e[1]
                    self.pos -= 1
                    break
                self.pos += 1
                continue
            want = e % max(1, len(self.alive | set(self.blocked)))
            nxt = want if want in runnable else runnable[self.pos % len(runnable)]
            break
        if nxt is None:
            nxt = runnable[0]
        self.pos += 1
        self.current = nxt
        self.cv.notify_all()

    def tracer(self, tid):
        def local(frame, event, arg):
            if event == 'line':
                self._yield(tid, (os.path.basename(frame.f_code.co_filename), frame.f_lineno))
            return local

        def glob(frame, event, arg):
            if event == 'call' and frame.f_code.co_filename.endswith(self.files):
                return local
            return None
        return glob

    def run(self, funcs, timeout=30):
        results = {}

        def worker(tid, f):
            with self.cv:
                while self.current != tid:
                    self.cv.wait()
            sys.settrace(self.tracer(tid))
            try:
                results[tid] = ('ok', f())
            except BaseException as e:   # noqa
                results[tid] = ('exc', type(e).__name__, str(e)[:120])
            finally:
                sys.settrace(None)
                with self.cv:
                    self.alive.discard(tid)
                    self.blocked.pop(tid, None)
                    self._pick_next()
        # locks that the code under test creates ITSELF while it runs (a traced file calling threading.Lock()/RLock()
        # from one of the scheduled threads) become instrumented locks too, so that a thread blocking on one hands the
        # baton on instead of stalling the whole run
        real_lock, real_rlock = threading.Lock, threading.RLock
        workers = set()

        def factory(reentrant, real):
            def make(*a, **k):
                fr = sys._getframe(1)
                if threading.current_thread() in workers and fr.f_code.co_filename.endswith(self.files):
                    return ILock(self, reentrant)
                return real(*a, **k)
            return make
        ths = [threading.Thread(target=worker, args=(i, f), daemon=True) for i, f in enumerate(funcs)]
        workers.update(ths)
        self.alive = set(range(len(funcs)))
        threading.Lock, threading.RLock = factory(False, real_lock), factory(True, real_rlock)
        try:
            for t in ths:
                t.start()
            with self.cv:
                self._pick_next()
            # watchdog: a run whose threads make no step for `stall` seconds is hung (a thread blocks on something the
            # scheduler does not know about while it holds the baton)
            import time
            last, seen = time.time(), -1
            deadline = time.time() + timeout * len(funcs)
            while any(t.is_alive() for t in ths):
                time.sleep(0.002)
                now = time.time()
                if self.steps != seen:
                    seen, last = self.steps, now
                elif now - last > self.stall or now > deadline:
                    break
        finally:
            threading.Lock, threading.RLock = real_lock, real_rlock
        hung = [i for i, t in enumerate(ths) if t.is_alive()]
        for i in hung:
            results[i] = ('exc', 'Hung', 'thread did not finish (deadlock?)')
        self.hung = bool(hung)
        return results, self.trace


class ILock:
    """Instrumented lock; reentrant=True behaves like threading.RLock."""
    def __init__(self, sched, reentrant=False):
        self.s = sched
        self.owner = None
        self.count = 0
        self.reentrant = reentrant

    def acquire(self, blocking=True, timeout=-1):
        s = self.s
        me = s.current
        with s.cv:
            if self.reentrant and self.owner == me:
                self.count += 1
                return True
            while self.owner is not None:
                if self.owner == me and not self.reentrant:
                    raise Deadlock('thread re-acquired a non-reentrant lock it already holds')
                s.blocked[me] = self
                s._pick_next()
                while s.current != me:
                    s.cv.wait()
                    if s.deadlocked:
                        raise Deadlock('all threads blocked')
            self.owner = me
            self.count = 1
            s.lockops.append((me, 'a', id(self)))     # (outermost acquisition: what the lock-order check looks at)
        return True

    def release(self):
        s = self.s
        with s.cv:
            self.count -= 1
            if self.count <= 0:
                s.lockops.append((self.owner, 'r', id(self)))
                self.owner = None
                self.count = 0
                for t, l in list(s.blocked.items()):
                    if l is self:
                        del s.blocked[t]

    def __enter__(self):
        return self.acquire()

    def __exit__(self, *a):
        self.release()
