"""C07 fixtures: recording chunk stores (importable, so dask can pickle them by reference) and a
loopback fake S3 endpoint (object dict behind PUT/GET, bucket listing for ?max-keys=1)."""
import base64
import hashlib
import http.server
import threading
import urllib.parse

from katdal.chunkstore_dict import DictChunkStore
from katdal.chunkstore_npy import NpyFileChunkStore
from katdal.chunkstore_s3 import S3ChunkStore

CALLS = []      # (array_name, ((start, stop), ...)) of every get_chunk request, in order


def _rec(array_name, slices):
    CALLS.append((array_name, tuple((s.start, s.stop) for s in slices)))


class RecDict(DictChunkStore):
    def get_chunk(self, array_name, slices, dtype):
        _rec(array_name, slices)
        return super().get_chunk(array_name, slices, dtype)


class RecNpy(NpyFileChunkStore):
    def get_chunk(self, array_name, slices, dtype):
        _rec(array_name, slices)
        return super().get_chunk(array_name, slices, dtype)


class RecS3(S3ChunkStore):
    def get_chunk(self, array_name, slices, dtype):
        _rec(array_name, slices)
        return super().get_chunk(array_name, slices, dtype)


class _Handler(http.server.BaseHTTPRequestHandler):
    protocol_version = 'HTTP/1.1'
    wbufsize = 1 << 16          # headers and body leave in one segment (no Nagle / delayed-ACK stall per GET)
    disable_nagle_algorithm = True

    def log_message(self, *a):
        pass

    def _reply(self, code, body=b'', ctype='application/octet-stream'):
        self.send_response(code)
        self.send_header('Content-Length', str(len(body)))
        self.send_header('Content-Type', ctype)
        self.end_headers()
        if body and self.command != 'HEAD':
            self.wfile.write(body)

    def _body(self):
        if self.headers.get('Transfer-Encoding', '').lower() == 'chunked':
            out = b''
            while True:
                n = int(self.rfile.readline().split(b';')[0].strip() or b'0', 16)
                if n == 0:
                    self.rfile.readline()
                    break
                out += self.rfile.read(n)
                self.rfile.readline()
            return out
        return self.rfile.read(int(self.headers.get('Content-Length') or 0))

    def do_PUT(self):
        srv = self.server
        u = urllib.parse.urlsplit(self.path)
        path = urllib.parse.unquote(u.path)
        body = self._body()
        parts = path.lstrip('/').split('/', 1)
        with srv.lock:
            srv.requests.append(('PUT', path, u.query))
            if len(parts) == 1 or parts[1] == '':
                if u.query:
                    return self._reply(200)
                if parts[0] in srv.buckets:
                    return self._reply(409)
                srv.buckets.add(parts[0])
                return self._reply(200)
            if parts[0] not in srv.buckets:
                return self._reply(404, b'NoSuchBucket', 'text/plain')
            md5 = self.headers.get('Content-MD5')
            if md5 is not None and base64.b64encode(hashlib.md5(body).digest()).decode() != md5:
                return self._reply(400, b'BadDigest', 'text/plain')
            srv.objects[path] = body
        self._reply(200)

    def do_GET(self):
        srv = self.server
        u = urllib.parse.urlsplit(self.path)
        path = urllib.parse.unquote(u.path)
        parts = path.lstrip('/').split('/', 1)
        with srv.lock:
            srv.requests.append(('GET', path, u.query))
            if len(parts) == 1 or parts[1] == '':
                if parts[0] not in srv.buckets:
                    return self._reply(404, b'NoSuchBucket', 'text/plain')
                pre = '/' + parts[0] + '/'
                has = any(k.startswith(pre) for k in srv.objects)
                xml = ('<?xml version="1.0"?><ListBucketResult><Name>%s</Name>%s</ListBucketResult>'
                       % (parts[0], '<Contents><Key>k</Key></Contents>' if has else '')).encode()
                return self._reply(200, xml, 'application/xml')
            body = srv.objects.get(path)
        if body is None:
            return self._reply(404, b'NoSuchKey', 'text/plain')
        self._reply(200, body)


class _Server(http.server.ThreadingHTTPServer):
    # the threaded dask scheduler opens one connection per worker thread at once; the default backlog of 5 overflows on a
    # loaded machine and the client sees 'Connection aborted' (S3ServerGlitch) although nothing is wrong with katdal
    request_queue_size = 128


class FakeS3:
    """with FakeS3() as s: s.url, s.objects (path -> bytes), s.buckets, s.requests."""

    def __enter__(self):
        self.srv = _Server(('127.0.0.1', 0), _Handler)
        self.srv.daemon_threads = True
        self.srv.objects = {}
        self.srv.buckets = set()
        self.srv.requests = []
        self.srv.lock = threading.Lock()
        self.objects = self.srv.objects
        self.buckets = self.srv.buckets
        self.requests = self.srv.requests
        self.url = 'http://127.0.0.1:%d' % self.srv.server_address[1]
        self.thread = threading.Thread(target=self.srv.serve_forever, kwargs=dict(poll_interval=0.05), daemon=True)
        self.thread.start()
        return self

    def reset(self):
        with self.srv.lock:
            self.objects.clear()
            self.buckets.clear()
            del self.requests[:]

    def __exit__(self, *a):
        self.srv.shutdown()
        self.srv.server_close()
