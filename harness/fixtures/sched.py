"""Prototype deterministic line-level scheduler for C20 (throw-away spike)."""
import sys, threading, itertools, os
class Sched:
    def __init__(self, files, schedule):
        self.files = tuple(files); self.schedule = list(schedule); self.pos = 0
        self.cv = threading.Condition(); self.current = None; self.alive = set(); self.blocked = {}; self.trace = []
        self.done = {}
    # --- called by worker threads
    def _yield(self, tid, where):
        with self.cv:
            self.trace.append((tid, where))
            self._pick_next()
            while self.current != tid: self.cv.wait()
    def _pick_next(self):
        runnable = sorted(t for t in self.alive if t not in self.blocked)
        if not runnable:
            self.current = None; self.cv.notify_all(); return
        if self.pos < len(self.schedule) and self.schedule[self.pos] in runnable: nxt = self.schedule[self.pos]
        else: nxt = runnable[0]
        self.pos += 1; self.current = nxt; self.cv.notify_all()
    def tracer(self, tid):
        def local(frame, event, arg):
            if event == 'line': self._yield(tid, (os.path.basename(frame.f_code.co_filename), frame.f_lineno))
            return local
        def glob(frame, event, arg):
            if event == 'call' and frame.f_code.co_filename.endswith(self.files): return local
            return None
        return glob
    def run(self, funcs):
        results = {}
        def worker(tid, f):
            with self.cv:
                while self.current != tid: self.cv.wait()
            sys.settrace(self.tracer(tid))
            try: results[tid] = ('ok', f())
            except BaseException as e: results[tid] = ('exc', type(e).__name__, str(e)[:80])
            finally:
                sys.settrace(None)
                with self.cv:
                    self.alive.discard(tid); self._pick_next()
        ths = [threading.Thread(target=worker, args=(i, f)) for i, f in enumerate(funcs)]
        self.alive = set(range(len(funcs)))
        for t in ths: t.start()
        with self.cv: self._pick_next()
        for t in ths: t.join(20)
        return results, self.trace
class ILock:
    """Instrumented non-reentrant lock: acquire is a scheduling point; a blocked thread is descheduled."""
    def __init__(self, sched): self.s = sched; self.owner = None
    def tid(self): return self.s.current
    def acquire(self):
        s = self.s; me = s.current
        with s.cv:
            while self.owner is not None:
                s.blocked[me] = self; s._pick_next()
                while s.current != me: s.cv.wait()
            self.owner = me
        return True
    def release(self):
        s = self.s
        with s.cv:
            self.owner = None
            for t, l in list(s.blocked.items()):
                if l is self: del s.blocked[t]
    __enter__ = lambda self: self.acquire()
    def __exit__(self, *a): self.release()
class NoLock:
    def __enter__(self): return True
    def __exit__(self, *a): pass
if __name__ == '__main__':
    import numpy as np, dask.array as da
    from katdal.lazy_indexer import DaskLazyIndexer
    x = da.from_array(np.arange(12).reshape(3, 4), chunks=2)
    def trial(schedule, locked=True):
        s = Sched(['katdal/lazy_indexer.py'], schedule)
        li = DaskLazyIndexer(x, (slice(1, 3),))
        li._lock = ILock(s) if locked else NoLock()
        f = lambda: li.dataset.shape
        return s.run([f, f])
    bad = 0; n = 0
    for schedule in itertools.product([0, 1], repeat=10):
        r, tr = trial(schedule, locked=True); n += 1
        if any(v[0] != 'ok' or v[1] != (2, 4) for v in r.values()) or len(r) != 2: bad += 1
    print('locked: schedules', n, 'bad', bad)
    bad = 0; n = 0; first = None
    for schedule in itertools.product([0, 1], repeat=10):
        r, tr = trial(schedule, locked=False); n += 1
        if any(v[0] != 'ok' or v[1] != (2, 4) for v in r.values()) or len(r) != 2:
            bad += 1; first = first or (schedule, r)
    print('unlocked: schedules', n, 'bad', bad, first)
