import numpy as np, h5py, warnings, logging
warnings.simplefilter('ignore'); logging.disable(logging.CRITICAL)
def sens(g, name, rows, vdtype='S64'):
    dt = np.dtype([('timestamp', np.float64), ('value', vdtype), ('status', 'S7')])
    g.create_dataset(name, data=np.array([(t, v, b'nominal') for t, v in rows], dtype=dt))
def mkv2(fn, T=10, F=8, ants=('ant1', 'ant2'), t0=1300000000.0, dt=2.0, acts=(), targets=(), labels=(), dup_last=False, seed=0, flags=None):
    inputs = [a + p for a in ants for p in 'hv']
    cps = [(inputs[i], inputs[j]) for i in range(len(inputs)) for j in range(i, len(inputs))]
    B = len(cps); rs = np.random.RandomState(seed)
    f = h5py.File(fn, 'w'); f.attrs['version'] = '2.1'; f.attrs['augment_ts'] = 1.0
    data = f.create_group('Data'); Tfile = T + (1 if dup_last else 0)
    vis = rs.randint(-50, 50, size=(Tfile, F, B, 2)).astype(np.float32)
    data.create_dataset('correlator_data', data=vis); stored = {'vis': vis}
    ts = t0 + dt * np.arange(Tfile)
    if dup_last: ts[-1] = ts[-2]
    data.create_dataset('timestamps', data=ts)
    md = f.create_group('MetaData'); S = md.create_group('Sensors'); C = md.create_group('Configuration')
    O = C.create_group('Observation'); O.attrs['script_ants'] = ','.join(ants); O.attrs['script_observer'] = 'me'
    K = C.create_group('Correlator'); K.attrs['int_time'] = dt; K.attrs['n_chans'] = F; K.attrs['bandwidth'] = 400e6
    K.attrs['bls_ordering'] = np.array(cps, dtype='S')
    A = C.create_group('Antennas'); SA = S.create_group('Antennas')
    for k, a in enumerate(ants):
        g = A.create_group(a); g.attrs['description'] = '%s, -30:42:39.8, 21:26:38.0, 1086.6, 12.0, %d 0 0' % (a, 10 * k)
        sg = SA.create_group(a)
        sens(sg, 'activity', [(t0 + dt * d - 0.9, v.encode()) for d, v in acts])
        sens(sg, 'target', [(t0 + dt * d - 0.9, v.encode()) for d, v in targets], 'S128')
    R = S.create_group('RFE'); sens(R, 'center-frequency-hz', [(t0 - 5, 1822e6)], np.float64)
    D = S.create_group('DBE'); sens(D, 'dbe.mode', [(t0 - 5, b'wbc')])
    M = f.create_group('Markup')
    M.create_dataset('labels', data=np.array([(t0 + dt * d - 0.9, v.encode()) for d, v in labels], dtype=[('timestamp', np.float64), ('label', 'S32')]))
    stored['flags'] = rs.randint(0, 256, size=(Tfile, F, B)).astype(np.uint8) if flags is None else flags; M.create_dataset('flags', data=stored['flags'])
    stored['weights'] = rs.randint(1, 9, size=(Tfile, F, B)).astype(np.float32); M.create_dataset('weights', data=stored['weights'])
    H = f.create_group('History'); H.create_dataset('script_log', data=np.array([(t0, b'hello')], dtype=[('timestamp', np.float64), ('log', 'S32')]))
    f.close(); stored['timestamps'] = ts; return stored, cps
