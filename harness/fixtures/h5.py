"""Synthetic HDF5 v1/v2/v3 files in the scratch directory, opened through katdal.open."""
import os
import tempfile

import katdal
from fixtures.mkv1 import mkv1
from fixtures.mkv2 import mkv2
from fixtures.mkv3 import mkv3
from fixtures.v4 import SCRATCH, scratch_dir

A = 'A, radec bpcal, 19:39:25.03, -63:42:45.6'
B = 'B, radec gaincal, 10:00:00.0, -30:00:00.0'


def open_v3(tmp, name='1500000000.h5', open_kwargs=None, **kw):
    fn = os.path.join(tmp, name)
    kw.setdefault('acts', [(0, 'slew'), (2, 'track')])
    kw.setdefault('targets', [(0, A)])
    kw.setdefault('labels', [(0, 'track')])
    stored, cps = mkv3(fn, **kw)
    ok = dict(centre_freq=1284e6)
    ok.update(open_kwargs or {})
    return katdal.open(fn, **ok), stored, cps


def open_v2(tmp, name='1300000000.h5', open_kwargs=None, **kw):
    fn = os.path.join(tmp, name)
    kw.setdefault('acts', [(0, 'slew'), (2, 'track')])
    kw.setdefault('targets', [(0, A)])
    kw.setdefault('labels', [(0, 'track')])
    stored, cps = mkv2(fn, **kw)
    return katdal.open(fn, **(open_kwargs or {})), stored, cps
