"""C01 fixtures: synthetic data sets of the four formats whose stored arrays carry injective labels.

Every stored array of shape (rows, F, B) is a function of the C-order position p of the sample:
  vis       p + (p + 1)j   (complex64; v2 / v3 store the float32 pair); a conjugated read shows up as p - (p + 1)j
  flags     (37 p + 11 (p // 256) + 5) mod 256                     (uint8)
  weights   v2: p + 1 (float32);  v3 / v4: lo = 1 + (7 p mod 251) (uint8) times the channel weight hi[t, f] = 1 + t F + f
The products stay below 2**24, so float32 arithmetic on them is exact.
"""
import os

import h5py
import numpy as np

from fixtures.mkv3 import sens

SENS_F = np.dtype([('timestamp', np.float64), ('value', np.float64), ('status', 'S7')])


def labelled(rows, F, B):
    p = np.arange(rows * F * B, dtype=np.int64).reshape(rows, F, B)
    vis = (p + 1j * (p + 1)).astype(np.complex64)
    flags = ((37 * p + 11 * (p // 256) + 5) % 256).astype(np.uint8)
    w_lo = (1 + (7 * p) % 251).astype(np.uint8)
    w_hi = (1 + np.arange(rows * F, dtype=np.int64).reshape(rows, F)).astype(np.float32)
    return dict(p=p, vis=vis, flags=flags, w_lo=w_lo, w_hi=w_hi, w_v2=(p + 1).astype(np.float32))


def expected(kind, fmt, st, labels, conv):
    """Converted stored samples at the given labels (C-order positions); conv as sent by the model."""
    labels = np.asarray(labels, dtype=np.int64)
    if kind == 'vis':
        v = st['vis'].ravel()[labels]
        return v.conj() if conv[1] else v
    if kind == 'flags':
        return (st['flags'].ravel()[labels] & np.uint8(conv[1])) != 0
    if kind == 'raw_flags':
        return st['flags'].ravel()[labels]
    if kind == 'weights':
        if not conv[1]:
            return np.ones(labels.shape, dtype=np.float32)
        if fmt == 'v2':
            return st['w_v2'].ravel()[labels]
        B = st['p'].shape[2]
        return st['w_lo'].ravel()[labels].astype(np.float32) * st['w_hi'].ravel()[labels // B]
    raise ValueError(kind)


def ant_desc(a, k):
    return '%s, -30:42:39.8, 21:26:38.0, 1086.6, 13.5, %d %d 0' % (a, 10 * k, -7 * k)


def write_v1(fn, scans, F=4, ants=('ant1', 'ant2'), t0=1200000000.0, dt=1.0):
    """scans: list of (compscan_no, compscan_label, target, scan_label, n_dumps).  Returns (stored, products, ts_ms)."""
    f = h5py.File(fn, 'w')
    f.attrs['version'] = '1.0'
    f.attrs['augment'] = 'yes'
    A = f.create_group('Antennas')
    T = sum(s[4] for s in scans)
    for k, a in enumerate(ants):
        g = A.create_group('Antenna%d' % (k + 1))
        g.attrs['description'] = ant_desc(a, k)
        for pol, dbe in (('H', 'x'), ('V', 'y')):
            g.create_group(pol).attrs['dbe_input'] = '%d%s' % (k, dbe)
        sg = g.create_group('Sensors')
        sg.create_dataset('pos_actual_scan_azim', data=np.array([(t0 - 10, 10., b'nominal'), (t0 + dt * T + 10, 20., b'nominal')], dtype=SENS_F))
        sg.create_dataset('pos_actual_scan_elev', data=np.array([(t0 - 10, 30., b'nominal'), (t0 + dt * T + 10, 40., b'nominal')], dtype=SENS_F))
    dbe_inputs = ['%d%s' % (k, p) for k in range(len(ants)) for p in 'xy']
    prods = [dbe_inputs[i] + dbe_inputs[j] for i in range(len(dbe_inputs)) for j in range(i, len(dbe_inputs))]
    B = len(prods)
    C = f.create_group('Correlator')
    C.attrs['dump_rate_hz'] = 1.0 / dt
    C.attrs['center_frequency_hz'] = 1822e6
    C.attrs['num_freq_channels'] = F
    C.attrs['channel_bandwidth_hz'] = 1e6
    C.create_dataset('input_map', data=np.array([(i, p.encode()) for i, p in enumerate(prods)],
                                                dtype=[('correlator_product_id', np.int32), ('dbe_inputs', 'S8')]))
    S = f.create_group('Scans')
    st = labelled(T, F, B)
    dtv = np.dtype([(str(i), np.complex64) for i in range(B)])
    t = 0
    ts_ms = 1000.0 * (t0 + dt * np.arange(T))
    for (cs, cslabel, target, slabel, nd) in scans:
        name = 'CompoundScan%d' % cs
        cg = S[name] if name in S else S.create_group(name)
        cg.attrs['label'] = cslabel
        cg.attrs['target'] = target
        sg = cg.create_group('Scan%d' % len(cg))
        sg.attrs['label'] = slabel
        rec = np.zeros((nd, F), dtype=dtv)
        for i in range(B):
            rec[str(i)] = st['vis'][t:t + nd, :, i]
        sg.create_dataset('data', data=rec)
        sg.create_dataset('timestamps', data=ts_ms[t:t + nd])
        t += nd
    f.close()
    return st, prods, ts_ms


def write_v2(fn, T=10, F=8, ants=('ant1', 'ant2'), t0=1300000000.0, dt=2.0, acts=(), targets=(), labels=(), dup_last=False):
    inputs = [a + p for a in ants for p in 'hv']
    cps = [(inputs[i], inputs[j]) for i in range(len(inputs)) for j in range(i, len(inputs))]
    B = len(cps)
    f = h5py.File(fn, 'w')
    f.attrs['version'] = '2.1'
    f.attrs['augment_ts'] = 1.0
    data = f.create_group('Data')
    rows = T + (1 if dup_last else 0)
    st = labelled(rows, F, B)
    data.create_dataset('correlator_data', data=np.stack([st['vis'].real, st['vis'].imag], axis=-1).astype(np.float32))
    ts = t0 + dt * np.arange(rows)
    if dup_last:
        ts[-1] = ts[-2]
    data.create_dataset('timestamps', data=ts)
    md = f.create_group('MetaData')
    S = md.create_group('Sensors')
    C = md.create_group('Configuration')
    O = C.create_group('Observation')
    O.attrs['script_ants'] = ','.join(ants)
    O.attrs['script_observer'] = 'me'
    K = C.create_group('Correlator')
    K.attrs['int_time'] = dt
    K.attrs['n_chans'] = F
    K.attrs['bandwidth'] = 390625.0 * F
    K.attrs['bls_ordering'] = np.array(cps, dtype='S')
    A = C.create_group('Antennas')
    SA = S.create_group('Antennas')
    for k, a in enumerate(ants):
        A.create_group(a).attrs['description'] = ant_desc(a, k)
        sg = SA.create_group(a)
        sens(sg, 'activity', [(t0 + dt * d - 0.9, v.encode()) for d, v in acts])
        sens(sg, 'target', [(t0 + dt * d - 0.9, v.encode()) for d, v in targets], 'S128')
        sg.create_dataset('pos.actual-scan-azim', data=np.array([(t0 - 10, 10., b'nominal'), (t0 + dt * T + 10, 20., b'nominal')], dtype=SENS_F))
        sg.create_dataset('pos.actual-scan-elev', data=np.array([(t0 - 10, 30., b'nominal'), (t0 + dt * T + 10, 40., b'nominal')], dtype=SENS_F))
    sens(S.create_group('RFE'), 'center-frequency-hz', [(t0 - 5, 1822e6)], np.float64)
    sens(S.create_group('DBE'), 'dbe.mode', [(t0 - 5, b'wbc')])
    M = f.create_group('Markup')
    M.create_dataset('labels', data=np.array([(t0 + dt * d - 0.9, v.encode()) for d, v in labels],
                                             dtype=[('timestamp', np.float64), ('label', 'S32')]))
    M.create_dataset('flags', data=st['flags'])
    M.create_dataset('weights', data=st['w_v2'])
    H = f.create_group('History')
    H.create_dataset('script_log', data=np.array([(t0, b'hello')], dtype=[('timestamp', np.float64), ('log', 'S32')]))
    f.close()
    return st, cps, ts


def write_v3(fn, T=10, F=8, ants=('m000', 'm001'), t0=1500000000.0, dt=2.0, acts=(), targets=(), labels=(),
             dup_last=False, centroid=False, lower=False, cbf_dt=0.5):
    """lower: a "fake UHF" file (bandwidth 856 MHz, to be opened with band='u') whose spectral window has sideband -1."""
    inputs = [a + p for a in ants for p in 'hv']
    cps = [(inputs[i], inputs[j]) for i in range(len(inputs)) for j in range(i, len(inputs))]
    B = len(cps)
    f = h5py.File(fn, 'w')
    f.attrs['version'] = '3.0'
    data = f.create_group('Data')
    tm = f.create_group('TelescopeModel')
    rows = T + (1 if dup_last else 0)
    st = labelled(rows, F, B)
    data.create_dataset('correlator_data', data=np.stack([st['vis'].real, st['vis'].imag], axis=-1).astype(np.float32))
    ts = t0 + dt * np.arange(rows)
    if dup_last:
        ts[-1] = ts[-2]
    tsd = data.create_dataset('timestamps', data=ts)
    if centroid:
        tsd.attrs['timestamp_reference'] = 'centroid'
    data.create_dataset('flags', data=st['flags'])
    data.create_dataset('weights', data=st['w_lo'])
    data.create_dataset('weights_channel', data=st['w_hi'])
    cbf = tm.create_group('cbf')
    cbf.attrs['class'] = 'CorrelatorBeamformer'
    cbf.attrs['int_time'] = cbf_dt
    cbf.attrs['n_chans'] = F
    cbf.attrs['bandwidth'] = 856e6 if lower else 856e6 / 4096 * F
    cbf.attrs['bls_ordering'] = np.array(cps, dtype='S')
    cbf.attrs['scale_factor_timestamp'] = 1712e6
    cbf.attrs['sync_time'] = t0 - 1000.0
    sdp = tm.create_group('sdp')
    sdp.attrs['class'] = 'ScienceDataProcessor'
    sdp.attrs['l0_int_time'] = dt
    obs = tm.create_group('obs')
    obs.attrs['class'] = 'Observation'
    sens(obs, 'label', [(t0 + dt * d - 0.9, v.encode()) for d, v in labels] or [(t0 - 5, b'')])
    for k, a in enumerate(ants):
        g = tm.create_group(a)
        g.attrs['class'] = 'AntennaPositioner'
        g.attrs['observer'] = ant_desc(a, k)
        sens(g, 'activity', [(t0 + dt * d - 0.9, v.encode()) for d, v in acts])
        sens(g, 'target', [(t0 + dt * d - 0.9, v.encode()) for d, v in targets])
        g.create_dataset('pos_actual_scan_azim', data=np.array([(t0 - 10, 10., b'nominal'), (t0 + dt * T + 10, 20., b'nominal')], dtype=SENS_F))
        g.create_dataset('pos_actual_scan_elev', data=np.array([(t0 - 10, 30., b'nominal'), (t0 + dt * T + 10, 40., b'nominal')], dtype=SENS_F))
    f.close()
    return st, cps, ts
