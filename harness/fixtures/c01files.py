"""C01 fixtures: synthetic data sets of the four formats whose stored arrays carry injective labels.

Every stored array of shape (rows, F, B) is a function of the C-order position p of the sample:
  vis       p + (p + 1)j   (complex64; v2 / v3 store the float32 pair); a conjugated read shows up as p - (p + 1)j
  flags     (37 p + 11 (p // 256) + 5) mod 256                     (uint8)
  weights   v2: p + 1 (float32);  v3 / v4: lo = 1 + (7 p mod 251) (uint8) times the channel weight hi[t, f] = 1 + t F + f
The products stay below 2**24, so float32 arithmetic on them is exact.

Time: `grid4` gives the start of every dump in QUARTER dump periods after the first one (regular: 0, 4, 8, ...; a late
dump: +1 / +2; a dropped dump: +4 for everything after it), so every timestamp is a dyadic rational.  Sensors: `hist`
gives the stored histories -- numeric ones (piecewise linear, nodes every dt / 2 with integer slopes: np.interp is exact
on them) and a categorical one (`drive_mode`, events at odd multiples of dt / 32: never on a dump boundary).
"""
import os

import h5py
import numpy as np

from fixtures.mkv3 import sens

SENS_F = np.dtype([('timestamp', np.float64), ('value', np.float64), ('status', 'S7')])


def labelled(rows, F, B):
    p = np.arange(rows * F * B, dtype=np.int64).reshape(rows, F, B)
    vis = (p + 1j * (p + 1)).astype(np.complex64)
    flags = ((37 * p + 11 * (p // 256) + 5) % 256).astype(np.uint8)
    w_lo = (1 + (7 * p) % 251).astype(np.uint8)
    w_hi = (1 + np.arange(rows * F, dtype=np.int64).reshape(rows, F)).astype(np.float32)
    return dict(p=p, vis=vis, flags=flags, w_lo=w_lo, w_hi=w_hi, w_v2=(p + 1).astype(np.float32))


def expected(kind, fmt, st, labels, conv):
    """Converted stored samples at the given labels (C-order positions); conv as sent by the model."""
    labels = np.asarray(labels, dtype=np.int64)
    if kind == 'vis':
        v = st['vis'].ravel()[labels]
        return v.conj() if conv[1] else v
    if kind == 'flags':
        return (st['flags'].ravel()[labels] & np.uint8(conv[1])) != 0
    if kind == 'raw_flags':
        return st['flags'].ravel()[labels]
    if kind == 'weights':
        if not conv[1]:
            return np.ones(labels.shape, dtype=np.float32)
        if fmt == 'v2':
            return st['w_v2'].ravel()[labels]
        B = st['p'].shape[2]
        return st['w_lo'].ravel()[labels].astype(np.float32) * st['w_hi'].ravel()[labels // B]
    raise ValueError(kind)


SENS_S = np.dtype([('timestamp', np.float64), ('value', 'S16'), ('status', 'S7')])


def times_of(t0, dt, rows_or_grid4, T=None):
    """Start time of every dump (seconds): t0 + dt / 4 * grid4[i]."""
    if rows_or_grid4 is None:
        rows_or_grid4 = [4 * i for i in range(T)]
    return t0 + (dt / 4.0) * np.array(rows_or_grid4, dtype=np.float64)


def gen_hist(rng, ants, t0, dt, span):
    """Sensor histories for a data set whose dumps start between t0 and t0 + span (seconds), any time_offset <= 2 dt + 4.

    num[ant][azim|elev]: nodes (t, v) every h = dt / 2, first node at t0 - 3 dt - 6 + dt / 8, v = h * m with integer m and
    non-zero integer steps of m: slope (v1 - v0) / (t1 - t0) is a non-zero integer, so a sensor evaluated at the wrong
    time ALWAYS has the wrong value, and slope * (t - t0) + v0 is exact in float64 for dyadic t.
    cat[ant]: events (t, value) at odd multiples of dt / 32 after t0 - 2 dt, about one per 1.5 dumps, cycling values."""
    h = dt / 2.0
    lo = t0 - 3 * dt - 6.0 + dt / 8.0
    n = int((span + 7 * dt + 12.0) / h) + 2
    num, cat = {}, {}
    for a in ants:
        num[a] = {}
        for which, base in (('azim', 40), ('elev', 120)):
            m = base + rng.randint(-20, 20)
            nodes = []
            for j in range(n):
                nodes.append((lo + j * h, h * m))
                m += rng.choice([-3, -2, -1, 1, 2, 3])
            num[a][which] = nodes
        ev, t, k = [], -2 * 32, rng.randrange(5)
        while t * dt / 32.0 < span + 2 * dt:
            ev.append((t0 + (t | 1) * dt / 32.0, 'mode%d' % (k % 5)))
            k += rng.randint(1, 4)
            t += rng.randint(8, 80)
        cat[a] = ev
    return dict(num=num, cat=cat)


def _num(nodes):
    return np.array([(t, v, b'nominal') for t, v in nodes], dtype=SENS_F)


def _cat(events):
    return np.array([(t, v.encode(), b'nominal') for t, v in events], dtype=SENS_S)


def _default_hist(ants, t0, dt, T):
    two = lambda a, b: [(t0 - 10, a), (t0 + dt * T + 10, b)]       # noqa: E731
    return dict(num=dict((a, dict(azim=two(10., 20.), elev=two(30., 40.))) for a in ants),
                cat=dict((a, [(t0 - 10, 'mode0')]) for a in ants))


def ant_desc(a, k):
    return '%s, -30:42:39.8, 21:26:38.0, 1086.6, 13.5, %d %d 0' % (a, 10 * k, -7 * k)


def write_v1(fn, scans, F=4, ants=('ant1', 'ant2'), t0=1200000000.0, dt=1.0, grid4=None, hist=None):
    """scans: list of (compscan_no, compscan_label, target, scan_label, n_dumps).  Returns (stored, products, ts_ms)."""
    f = h5py.File(fn, 'w')
    f.attrs['version'] = '1.0'
    f.attrs['augment'] = 'yes'
    A = f.create_group('Antennas')
    T = sum(s[4] for s in scans)
    hist = hist or _default_hist(ants, t0, dt, T)
    for k, a in enumerate(ants):
        g = A.create_group('Antenna%d' % (k + 1))
        g.attrs['description'] = ant_desc(a, k)
        for pol, dbe in (('H', 'x'), ('V', 'y')):
            g.create_group(pol).attrs['dbe_input'] = '%d%s' % (k, dbe)
        sg = g.create_group('Sensors')
        sg.create_dataset('pos_actual_scan_azim', data=_num(hist['num'][a]['azim']))
        sg.create_dataset('pos_actual_scan_elev', data=_num(hist['num'][a]['elev']))
        sg.create_dataset('drive_mode', data=_cat(hist['cat'][a]))
    dbe_inputs = ['%d%s' % (k, p) for k in range(len(ants)) for p in 'xy']
    prods = [dbe_inputs[i] + dbe_inputs[j] for i in range(len(dbe_inputs)) for j in range(i, len(dbe_inputs))]
    B = len(prods)
    C = f.create_group('Correlator')
    C.attrs['dump_rate_hz'] = 1.0 / dt
    C.attrs['center_frequency_hz'] = 1822e6
    C.attrs['num_freq_channels'] = F
    C.attrs['channel_bandwidth_hz'] = 1e6
    C.create_dataset('input_map', data=np.array([(i, p.encode()) for i, p in enumerate(prods)],
                                                dtype=[('correlator_product_id', np.int32), ('dbe_inputs', 'S8')]))
    S = f.create_group('Scans')
    st = labelled(T, F, B)
    dtv = np.dtype([(str(i), np.complex64) for i in range(B)])
    t = 0
    ts_ms = 1000.0 * times_of(t0, dt, grid4, T)
    for (cs, cslabel, target, slabel, nd) in scans:
        name = 'CompoundScan%d' % cs
        cg = S[name] if name in S else S.create_group(name)
        cg.attrs['label'] = cslabel
        cg.attrs['target'] = target
        sg = cg.create_group('Scan%d' % len(cg))
        sg.attrs['label'] = slabel
        rec = np.zeros((nd, F), dtype=dtv)
        for i in range(B):
            rec[str(i)] = st['vis'][t:t + nd, :, i]
        sg.create_dataset('data', data=rec)
        sg.create_dataset('timestamps', data=ts_ms[t:t + nd])
        t += nd
    f.close()
    return st, prods, ts_ms


def write_v2(fn, T=10, F=8, ants=('ant1', 'ant2'), t0=1300000000.0, dt=2.0, acts=(), targets=(), labels=(), dup_last=False,
             grid4=None, hist=None, old=False, centre=1822e6):
    """old: a version 2.0 file: the centre frequency is NOT in RFE/center-frequency-hz (a decoy value is stored there)
    but 4200 MHz below the RFE7 LO1 frequency sensor."""
    inputs = [a + p for a in ants for p in 'hv']
    cps = [(inputs[i], inputs[j]) for i in range(len(inputs)) for j in range(i, len(inputs))]
    B = len(cps)
    f = h5py.File(fn, 'w')
    f.attrs['version'] = '2.0' if old else '2.1'
    f.attrs['augment_ts'] = 1.0
    data = f.create_group('Data')
    rows = T + (1 if dup_last else 0)
    st = labelled(rows, F, B)
    data.create_dataset('correlator_data', data=np.stack([st['vis'].real, st['vis'].imag], axis=-1).astype(np.float32))
    ts = times_of(t0, dt, grid4, T)
    if dup_last:
        ts = np.r_[ts, ts[-1]]
    data.create_dataset('timestamps', data=ts)
    hist = hist or _default_hist(ants, t0, dt, T)
    md = f.create_group('MetaData')
    S = md.create_group('Sensors')
    C = md.create_group('Configuration')
    O = C.create_group('Observation')
    O.attrs['script_ants'] = ','.join(ants)
    O.attrs['script_observer'] = 'me'
    K = C.create_group('Correlator')
    K.attrs['int_time'] = dt
    K.attrs['n_chans'] = F
    K.attrs['bandwidth'] = 390625.0 * F
    K.attrs['bls_ordering'] = np.array(cps, dtype='S')
    A = C.create_group('Antennas')
    SA = S.create_group('Antennas')
    for k, a in enumerate(ants):
        A.create_group(a).attrs['description'] = ant_desc(a, k)
        sg = SA.create_group(a)
        sens(sg, 'activity', [(t0 + dt * d - 0.9, v.encode()) for d, v in acts])
        sens(sg, 'target', [(t0 + dt * d - 0.9, v.encode()) for d, v in targets], 'S128')
        sg.create_dataset('pos.actual-scan-azim', data=_num(hist['num'][a]['azim']))
        sg.create_dataset('pos.actual-scan-elev', data=_num(hist['num'][a]['elev']))
        sg.create_dataset('drive.mode', data=_cat(hist['cat'][a]))
    rfe = S.create_group('RFE')
    sens(rfe, 'center-frequency-hz', [(t0 - 5, 1500e6 if old else centre)], np.float64)
    if old:
        sens(rfe, 'rfe7.lo1.frequency', [(t0 - 5, centre + 4200e6)], np.float64)
    sens(S.create_group('DBE'), 'dbe.mode', [(t0 - 5, b'wbc')])
    M = f.create_group('Markup')
    M.create_dataset('labels', data=np.array([(t0 + dt * d - 0.9, v.encode()) for d, v in labels],
                                             dtype=[('timestamp', np.float64), ('label', 'S32')]))
    M.create_dataset('flags', data=st['flags'])
    M.create_dataset('weights', data=st['w_v2'])
    H = f.create_group('History')
    H.create_dataset('script_log', data=np.array([(t0, b'hello')], dtype=[('timestamp', np.float64), ('log', 'S32')]))
    f.close()
    return st, cps, ts


def write_v3(fn, T=10, F=8, ants=('m000', 'm001'), t0=1500000000.0, dt=2.0, acts=(), targets=(), labels=(),
             dup_last=False, centroid=False, lower=False, cbf_dt=0.5, grid4=None, hist=None, bandwidth=None,
             l0_centre=None):
    """lower: a "fake UHF" file (bandwidth 856 MHz, to be opened with band='u') whose spectral window has sideband -1."""
    inputs = [a + p for a in ants for p in 'hv']
    cps = [(inputs[i], inputs[j]) for i in range(len(inputs)) for j in range(i, len(inputs))]
    B = len(cps)
    f = h5py.File(fn, 'w')
    f.attrs['version'] = '3.0'
    data = f.create_group('Data')
    tm = f.create_group('TelescopeModel')
    rows = T + (1 if dup_last else 0)
    st = labelled(rows, F, B)
    data.create_dataset('correlator_data', data=np.stack([st['vis'].real, st['vis'].imag], axis=-1).astype(np.float32))
    ts = times_of(t0, dt, grid4, T)
    if dup_last:
        ts = np.r_[ts, ts[-1]]
    hist = hist or _default_hist(ants, t0, dt, T)
    tsd = data.create_dataset('timestamps', data=ts)
    if centroid:
        tsd.attrs['timestamp_reference'] = 'centroid'
    data.create_dataset('flags', data=st['flags'])
    data.create_dataset('weights', data=st['w_lo'])
    data.create_dataset('weights_channel', data=st['w_hi'])
    cbf = tm.create_group('cbf')
    cbf.attrs['class'] = 'CorrelatorBeamformer'
    cbf.attrs['int_time'] = cbf_dt
    cbf.attrs['n_chans'] = F
    cbf.attrs['bandwidth'] = bandwidth if bandwidth is not None else (856e6 if lower else 856e6 / 4096 * F)
    cbf.attrs['bls_ordering'] = np.array(cps, dtype='S')
    cbf.attrs['scale_factor_timestamp'] = 1712e6
    cbf.attrs['sync_time'] = t0 - 1000.0
    sdp = tm.create_group('sdp')
    sdp.attrs['class'] = 'ScienceDataProcessor'
    sdp.attrs['l0_int_time'] = dt
    if l0_centre is not None:
        sdp.attrs['l0_center_freq'] = l0_centre
    obs = tm.create_group('obs')
    obs.attrs['class'] = 'Observation'
    sens(obs, 'label', [(t0 + dt * d - 0.9, v.encode()) for d, v in labels] or [(t0 - 5, b'')])
    for k, a in enumerate(ants):
        g = tm.create_group(a)
        g.attrs['class'] = 'AntennaPositioner'
        g.attrs['observer'] = ant_desc(a, k)
        sens(g, 'activity', [(t0 + dt * d - 0.9, v.encode()) for d, v in acts])
        sens(g, 'target', [(t0 + dt * d - 0.9, v.encode()) for d, v in targets])
        g.create_dataset('pos_actual_scan_azim', data=_num(hist['num'][a]['azim']))
        g.create_dataset('pos_actual_scan_elev', data=_num(hist['num'][a]['elev']))
        g.create_dataset('drive_mode', data=_cat(hist['cat'][a]))
    f.close()
    return st, cps, ts


def write_v2_windows(fn, retunes, off=0.0, T=10, F=8, ants=('m000', 'm001'), t0=1300000000.0, dt=2.0, grid4=None, old=False,
                     **kw):
    """An MVF v2 file whose RFE centre frequency is RETUNED during the observation (several spectral windows).

    retunes: [(dump, centre_hz), ...] in time order, first dump 0: the LO is retuned just after the start of that dump
    (dt / 32 into it, as seen by a reader that is given time_offset=off), so that dump and all later ones up to the
    next retune are recorded with that centre frequency.  Everything else as write_v2 (which writes the file; the RFE
    sensors are then replaced).  old: version 2.0, the centre frequency is the RFE7 LO1 sensor minus 4200 MHz and
    RFE/center-frequency-hz holds a decoy.  Returns (stored, products, ts, dump_centre) with dump_centre[i] the centre
    frequency dump i was recorded with."""
    assert retunes and retunes[0][0] == 0 and all(a[0] < b[0] for a, b in zip(retunes, retunes[1:]))
    st, cps, ts = write_v2(fn, T=T, F=F, ants=ants, t0=t0, dt=dt, grid4=grid4, old=old, centre=retunes[0][1], **kw)
    starts = times_of(t0, dt, grid4, T)
    events = [(t0 - 5.0, retunes[0][1])] + [(starts[d] + off + dt / 32.0, c) for d, c in retunes[1:]]
    with h5py.File(fn, 'r+') as f:
        rfe = f['MetaData/Sensors/RFE']
        for name in list(rfe):
            del rfe[name]
        if old:
            sens(rfe, 'center-frequency-hz', [(t, 1500e6 + 1e6 * i) for i, (t, c) in enumerate(events)], np.float64)
            sens(rfe, 'rfe7.lo1.frequency', [(t, c + 4200e6) for t, c in events], np.float64)
        else:
            sens(rfe, 'center-frequency-hz', events, np.float64)
    dump_centre = np.zeros(T)
    for d, c in retunes:
        dump_centre[d:] = c
    return st, cps, ts, dump_centre


def relabel_h5(fn, fmt, st):
    """Replace the stored samples of an MVF v2 / v3 file written by write_v2 / write_v3 (without duplicate final dump) by
    the given labelled arrays (a slice along time of labelled(total rows, F, B)): files that are opened TOGETHER
    (katdal.open of a list) then carry injective labels across the whole concatenated time axis."""
    with h5py.File(fn, 'r+') as f:
        def put(path, arr):
            assert f[path].shape == arr.shape, (path, f[path].shape, arr.shape)
            f[path][...] = arr
        put('Data/correlator_data', np.stack([st['vis'].real, st['vis'].imag], axis=-1).astype(np.float32))
        if fmt == 'v2':
            put('Markup/flags', st['flags'])
            put('Markup/weights', st['w_v2'])
        else:
            put('Data/flags', st['flags'])
            put('Data/weights', st['w_lo'])
            put('Data/weights_channel', st['w_hi'])


def set_bls_ordering(fn, fmt, cps):
    """Rewrite the product ordering of an MVF v2 / v3 file (same antennas, another ordering = another subarray)."""
    with h5py.File(fn, 'r+') as f:
        g = f['MetaData/Configuration/Correlator'] if fmt == 'v2' else f['TelescopeModel/cbf']
        assert len(g.attrs['bls_ordering']) == len(cps)
        g.attrs['bls_ordering'] = np.array(cps, dtype='S')


def slice_labelled(st, a, b):
    """Rows a:b of every labelled array."""
    return dict((k, v[a:b]) for k, v in st.items())
