"""C04 joint worlds: several recording DictChunkStores, one call log per store tag (the log lives outside the store, so
the store's state - which dask tokenises into the array name - does not change while it is being read)."""
from katdal.chunkstore_dict import DictChunkStore

LOG = {}          # store tag -> [(array name, ((lo, hi), ...)), ...]


class JRec(DictChunkStore):
    def __init__(self, tag, **arrays):
        super().__init__(**arrays)
        self.tag = tag

    def get_chunk(self, array_name, slices, dtype):
        LOG.setdefault(self.tag, []).append((array_name, tuple((s.start, s.stop) for s in slices)))
        return super().get_chunk(array_name, slices, dtype)
