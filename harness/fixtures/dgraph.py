"""Dask task graphs as the machine of coq/Model/TaskGraph.v (C20, threaded load = single-threaded load).

* ModelScheduler: a dask scheduler (`dask.config.set(scheduler=ModelScheduler(...))`) that executes the REAL graph
  exactly as the Coq machine `crun` does: an event list of Start w i / Finish w chosen by a seeded policy among the
  enabled events (any number of workers, adversarial orders).  Every run is recorded (graph as (deps, fid) in a
  topological index order, events, shadow values) so that the same schedule can be replayed in the extracted model.
* Recorder: a dask Callback that records what the real local schedulers (synchronous / threads) did, as the same kind
  of event list (pretask = Start, posttask = Finish).
"""
import dask.callbacks
from dask._task_spec import convert_legacy_graph
from dask.core import flatten
from dask.local import nested_get

P = 1000003


def zmix(fid, args):
    """Coq: TaskGraph.zmix."""
    a = (fid * 31 + 7) % P
    for v in args:
        a = (a * 131 + v + 1) % P
    return a


def _closure(dsk, keys):
    need, stack = set(), list(keys)
    while stack:
        k = stack.pop()
        if k in need:
            continue
        need.add(k)
        stack.extend(dsk[k].dependencies)
    return need


def _toposort(dsk, need, rank=None):
    """Deterministic topological order of the needed keys (Kahn; ties by `rank` then by repr of the key)."""
    deps = {k: set(dsk[k].dependencies) for k in need}
    users = {k: [] for k in need}
    for k, ds in deps.items():
        for d in ds:
            users[d].append(k)
    tie = (lambda k: (rank(k), repr(k))) if rank else repr
    ready = sorted([k for k in need if not deps[k]], key=tie)
    left = {k: len(ds) for k, ds in deps.items()}
    out = []
    while ready:
        k = ready.pop(0)
        out.append(k)
        new = []
        for u in users[k]:
            left[u] -= 1
            if left[u] == 0:
                new.append(u)
        if new:
            ready = sorted(ready + new, key=tie)
    if len(out) != len(need):
        raise ValueError('graph has a cycle')
    return out


class ModelScheduler:
    """policy: 'random' | 'fifo' | 'lifo' | 'greedy' (start as much as possible before any result is published) |
    'reverse' (always the highest-numbered ready task).  late=True runs the task function when the result is
    published (Finish) on the dependency values captured at Start, else at Start."""

    def __init__(self, rng, workers, policy='random', late=False):
        self.rng, self.workers, self.policy, self.late = rng, workers, policy, late
        self.runs = []

    def __call__(self, dsk, keys, **kwargs):
        if not isinstance(dsk, dict):
            dsk = dict(dsk.__dask_graph__()) if hasattr(dsk, '__dask_graph__') else dict(dsk)
        dsk = convert_legacy_graph(dsk)
        flat = list(flatten(keys)) if isinstance(keys, list) else [keys]
        need = _closure(dsk, flat)
        order = _toposort(dsk, need)
        index = {k: i for i, k in enumerate(order)}
        deps = [sorted(index[d] for d in dsk[k].dependencies) for k in order]
        n = len(order)
        rng = self.rng
        cache, shadow = {}, {}
        users = [[] for _ in range(n)]
        for i, ds in enumerate(deps):
            for dd in ds:
                users[dd].append(i)
        waiting = [len(ds) for ds in deps]
        ready = [i for i in range(n) if waiting[i] == 0]      # kept sorted by index
        ndone = 0
        running = {}          # worker -> (i, data or result)
        events = []
        import bisect
        while ndone < n:
            free = [w for w in range(self.workers) if w not in running]
            can_start = bool(free and ready)
            finishes = sorted(running)
            pol = self.policy
            if pol == 'random':
                k = rng.randrange((len(free) * len(ready) if can_start else 0) + len(finishes))
                if can_start and k < len(free) * len(ready):
                    ev = (0, free[k // len(ready)], ready[k % len(ready)])
                else:
                    ev = (1, finishes[k - (len(free) * len(ready) if can_start else 0)])
            elif pol == 'greedy':
                ev = (0, free[0], rng.choice(ready)) if can_start else (1, rng.choice(finishes))
            elif pol == 'fifo':
                ev = (0, free[0], ready[0]) if can_start and (not finishes or rng.random() < 0.5) else (1, finishes[0])
            elif pol == 'lifo':
                ev = (0, free[0], ready[-1]) if can_start and (not finishes or rng.random() < 0.5) else (1, finishes[-1])
            elif pol == 'reverse':
                ev = (0, free[0], ready[-1]) if can_start else (1, finishes[-1])
            else:
                raise ValueError(pol)
            events.append(list(ev))
            if ev[0] == 0:
                _, w, i = ev
                k = order[i]
                data = {d: cache[d] for d in dsk[k].dependencies}
                ready.remove(i)
                running[w] = (i, data) if self.late else (i, dsk[k](data))
            else:
                w = ev[1]
                i, payload = running.pop(w)
                k = order[i]
                cache[k] = dsk[k](payload) if self.late else payload
                shadow[i] = zmix(i, [shadow[d] for d in deps[i]])
                ndone += 1
                for u in users[i]:
                    waiting[u] -= 1
                    if waiting[u] == 0:
                        bisect.insort(ready, u)
        self.runs.append(dict(graph=[[deps[i], i] for i in range(n)], events=events,
                              shadow=[shadow[i] for i in range(n)], keys=[repr(k)[:60] for k in order]))
        return nested_get(keys, cache)


class Recorder(dask.callbacks.Callback):
    """Event list of a run of dask's own local scheduler.  One virtual worker per task (dask does not say at hand-out
    time which thread will run the task); tasks are numbered in the order they were handed out, which is a
    topological order because dask hands a task out only after its dependencies were published."""

    def __init__(self):
        self.runs = []

    def _start_state(self, dsk, state):
        self.cur = dict(deps={k: set(v) for k, v in state['dependencies'].items()}, index={}, events=[],
                        preloaded=set(state['cache']), threads=set())
        self.runs.append(self.cur)

    def _pretask(self, key, dsk, state):
        c = self.cur
        c['index'][key] = len(c['index'])
        c['events'].append([0, c['index'][key], c['index'][key]])

    def _posttask(self, key, result, dsk, state, worker_id):
        c = self.cur
        c['threads'].add(worker_id)
        c['events'].append([1, c['index'].get(key, -1)])

    def model_case(self, run):
        """-> (graph, events, problems) ; dependencies on data nodes that were in the cache from the start are dropped."""
        idx = run['index']
        problems = []
        order = sorted(idx, key=idx.get)
        graph = []
        for k in order:
            ds = []
            for d in run['deps'].get(k, ()):
                if d in idx:
                    ds.append(idx[d])
                elif d not in run['preloaded']:
                    problems.append('dependency %r of %r was never handed out' % (d, k))
            graph.append([sorted(ds), idx[k]])
        return graph, run['events'], problems
