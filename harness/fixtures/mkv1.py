import numpy as np, h5py, warnings, logging
warnings.simplefilter('ignore'); logging.disable(logging.CRITICAL)
def mkv1(fn, scans, F=6, ants=('ant1', 'ant2'), t0=1200000000.0, dt=1.0, seed=0):
    """scans: list of (compscan_no, compscan_label, target, scan_label, n_dumps)"""
    rs = np.random.RandomState(seed)
    f = h5py.File(fn, 'w'); f.attrs['version'] = '1.0'; f.attrs['augment'] = 'yes'
    A = f.create_group('Antennas')
    inputs = {}
    n = 0
    for k, a in enumerate(ants):
        g = A.create_group('Antenna%d' % (k + 1)); g.attrs['description'] = '%s, -30:42:39.8, 21:26:38.0, 1086.6, 12.0, %d 0 0' % (a, 10 * k)
        for pol, dbe in (('H', 'x'), ('V', 'y')):
            pg = g.create_group(pol); pg.attrs['dbe_input'] = '%d%s' % (k, dbe)
        sg = g.create_group('Sensors')
        dtf = np.dtype([('timestamp', np.float64), ('value', np.float64), ('status', 'S7')])
        sg.create_dataset('pos_actual_scan_azim', data=np.array([(t0, 10., b'nominal'), (t0 + 100, 20., b'nominal')], dtype=dtf))
        sg.create_dataset('pos_actual_scan_elev', data=np.array([(t0, 30., b'nominal'), (t0 + 100, 40., b'nominal')], dtype=dtf))
    dbe_inputs = ['%d%s' % (k, p) for k in range(len(ants)) for p in 'xy']
    prods = [dbe_inputs[i] + dbe_inputs[j] for i in range(len(dbe_inputs)) for j in range(i, len(dbe_inputs))]
    B = len(prods)
    C = f.create_group('Correlator'); C.attrs['dump_rate_hz'] = 1.0 / dt; C.attrs['center_frequency_hz'] = 1822e6
    C.attrs['num_freq_channels'] = F; C.attrs['channel_bandwidth_hz'] = 1e6
    C.create_dataset('input_map', data=np.array([(i, p.encode()) for i, p in enumerate(prods)], dtype=[('correlator_product_id', np.int32), ('dbe_inputs', 'S8')]))
    S = f.create_group('Scans')
    t = 0; allvis = []
    dtv = np.dtype([(str(i), np.complex64) for i in range(B)])
    for (cs, cslabel, target, slabel, nd) in scans:
        name = 'CompoundScan%d' % cs
        cg = S[name] if name in S else S.create_group(name)
        cg.attrs['label'] = cslabel; cg.attrs['target'] = target
        sg = cg.create_group('Scan%d' % len(cg)); sg.attrs['label'] = slabel
        v = (rs.randint(-50, 50, size=(nd, F, B)) + 1j * rs.randint(-50, 50, size=(nd, F, B))).astype(np.complex64)
        rec = np.zeros((nd, F), dtype=dtv)
        for i in range(B): rec[str(i)] = v[:, :, i]
        sg.create_dataset('data', data=rec)
        sg.create_dataset('timestamps', data=(1000.0 * (t0 + dt * (t + np.arange(nd)))))
        t += nd; allvis.append(v)
    f.close(); return np.concatenate(allvis), prods
if __name__ == '__main__':
    import katdal, os
    A='A, radec, 19:39, -63:42'; Bt='B, radec, 10:00, -30:00'
    fn = '/tmp/probe/1200000000.h5'
    vis, prods = mkv1(fn, [(0,'track',A,'slew',2),(0,'track',A,'scan',3),(1,'raster',Bt,'slew',2),(1,'raster',Bt,'scan',4)])
    d = katdal.open(fn)
    print(d.version, d.shape, d.scan_indices, d.compscan_indices, [t.name for t in d.catalogue.targets], d.corr_products[:3].tolist())
    print(np.array_equal(d.vis[:], vis.conj()), d.timestamps[:3] - 1200000000.0, d.freqs[:2])
    for s in d.scans(): print(s[0], s[1], s[2].name, d.dumps)
    d.select(); v = d.vis; s0 = v[:].shape; d.select(ants='ant1', reset=''); print('v1 vis indexer shape before/after later select:', s0, v[:].shape, v.shape)
    print(d.flags[:].shape, d.weights[:].shape, d.vis[2:5, 1, [0, 2]].shape)
    os.remove(fn)
