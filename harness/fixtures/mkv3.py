import numpy as np, h5py, warnings, logging
warnings.simplefilter('ignore'); logging.disable(logging.CRITICAL)
SENS = np.dtype([('timestamp', np.float64), ('value', 'S64'), ('status', 'S7')])
def sens(g, name, rows, vdtype='S64'):
    dt = np.dtype([('timestamp', np.float64), ('value', vdtype), ('status', 'S7')])
    a = np.array([(t, v, b'nominal') for t, v in rows], dtype=dt)
    g.create_dataset(name, data=a)
def mkv3(fn, T=10, F=8, ants=('m000', 'm001'), t0=1500000000.0, dt=2.0, acts=(), targets=(), labels=(), dup_last=False, seed=0, flags=None):
    inputs = [a + p for a in ants for p in 'hv']
    cps = [(inputs[i], inputs[j]) for i in range(len(inputs)) for j in range(i, len(inputs))]
    B = len(cps)
    rs = np.random.RandomState(seed)
    f = h5py.File(fn, 'w')
    f.attrs['version'] = '3.0'
    data = f.create_group('Data'); tm = f.create_group('TelescopeModel')
    Tfile = T + (1 if dup_last else 0)
    vis = rs.randint(-50, 50, size=(Tfile, F, B, 2)).astype(np.float32)
    data.create_dataset('correlator_data', data=vis); stored = {'vis': vis}
    ts = t0 + dt * np.arange(Tfile);
    if dup_last: ts[-1] = ts[-2]
    data.create_dataset('timestamps', data=ts)
    stored['flags'] = rs.randint(0, 256, size=(Tfile, F, B)).astype(np.uint8) if flags is None else flags; data.create_dataset('flags', data=stored['flags'])
    stored['weights'] = rs.randint(1, 9, size=(Tfile, F, B)).astype(np.uint8); data.create_dataset('weights', data=stored['weights'])
    stored['weights_channel'] = rs.randint(1, 5, size=(Tfile, F)).astype(np.float32); data.create_dataset('weights_channel', data=stored['weights_channel'])
    cbf = tm.create_group('cbf'); cbf.attrs['class'] = 'CorrelatorBeamformer'
    cbf.attrs['int_time'] = dt; cbf.attrs['n_chans'] = F; cbf.attrs['bandwidth'] = 856e6 / 4096 * F
    cbf.attrs['bls_ordering'] = np.array(cps, dtype='S')
    cbf.attrs['scale_factor_timestamp'] = 1712e6; cbf.attrs['sync_time'] = t0 - 1000.0
    obs = tm.create_group('obs'); obs.attrs['class'] = 'Observation'
    sens(obs, 'label', [(t0 + dt * d - 0.9, v.encode()) for d, v in labels] or [(t0 - 5, b'')])
    pass
    for k, a in enumerate(ants):
        g = tm.create_group(a); g.attrs['class'] = 'AntennaPositioner'
        g.attrs['observer'] = '%s, -30:42:39.8, 21:26:38.0, 1086.6, 13.5, %d 0 0' % (a, 10 * k)
        sens(g, 'activity', [(t0 + dt * d - 0.9, v.encode()) for d, v in acts])
        sens(g, 'target', [(t0 + dt * d - 0.9, v.encode()) for d, v in targets])
        dtf = np.dtype([('timestamp', np.float64), ('value', np.float64), ('status', 'S7')])
        g.create_dataset('pos_actual_scan_azim', data=np.array([(t0, 10., b'nominal'), (t0 + dt * T, 20., b'nominal')], dtype=dtf))
        g.create_dataset('pos_actual_scan_elev', data=np.array([(t0, 30., b'nominal'), (t0 + dt * T, 40., b'nominal')], dtype=dtf))
    f.close()
    stored['timestamps'] = ts
    return stored, cps
