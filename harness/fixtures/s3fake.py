"""Scripted HTTP/1.1 endpoint on 127.0.0.1 playing the part of an S3 server (C09).

Every GET/PUT is logged (kind, method, path, Authorization header, length and md5 of the request body).  Requests whose query contains
`max-keys` are *bucket listings* and consume `bucket_script`; all other requests are *object*
requests and consume `object_script`.  When a script is exhausted the good response is sent.

Actions (tuples):
  ('status', c)   response with status c and Content-Length 0
  ('trunc', k)    200, full Content-Length, k body bytes, then orderly shutdown
  ('reset', k)    200, full Content-Length, k body bytes, then RST (SO_LINGER 0)
  ('stall', k)    200, full Content-Length, k body bytes, then silence until the client gives up
  ('hreset',)     RST before any byte of the response
  ('hstall',)     silence before any byte of the response
  ('hclose',)     orderly close before any byte of the response
  ('ok',)         the complete good response
The good bucket listing depends on `bucket_state` in {'full', 'empty', 'missing'}.
"""
import hashlib
import http.server
import select
import socket
import struct
import threading

LISTING_FULL = b'<?xml version="1.0"?><ListBucketResult><Name>b</Name><Contents><Key>k</Key></Contents></ListBucketResult>'
LISTING_EMPTY = b'<?xml version="1.0"?><ListBucketResult><Name>b</Name></ListBucketResult>'


class FakeS3:
    def __init__(self):
        self.object_script = []
        self.bucket_script = []
        self.bucket_state = 'full'
        self.payload = b''
        self.log = []
        self.lock = threading.Lock()
        self.max_wait = 10.0
        fake = self

        class H(http.server.BaseHTTPRequestHandler):
            protocol_version = 'HTTP/1.1'

            def log_message(self, *a):
                pass

            def _wait_for_client(self):
                # silence until the client closes the connection (its read timeout) or max_wait
                try:
                    select.select([self.connection], [], [], fake.max_wait)
                except (OSError, ValueError):
                    pass
                self.close_connection = True

            def _rst(self):
                self.connection.setsockopt(socket.SOL_SOCKET, socket.SO_LINGER, struct.pack('ii', 1, 0))
                self.close_connection = True

            def _send(self, status, body, nbytes=None):
                self.send_response(status)
                self.send_header('Content-Length', str(len(body)))
                self.end_headers()
                self.wfile.write(body if nbytes is None else body[:nbytes])
                self.wfile.flush()

            def _serve(self):
                n = int(self.headers.get('Content-Length') or 0)
                sent = self.rfile.read(n) if n else b''
                is_bucket = 'max-keys' in self.path
                with fake.lock:
                    fake.log.append(('B' if is_bucket else 'O', self.command, self.path,
                                     self.headers.get('Authorization'), len(sent), hashlib.md5(sent).hexdigest()))
                    script = fake.bucket_script if is_bucket else fake.object_script
                    act = script.pop(0) if script else ('ok',)
                    state = fake.bucket_state
                    payload = fake.payload
                if is_bucket:
                    if state == 'missing' and act[0] == 'ok':
                        act = ('status', 404)
                    body = LISTING_FULL if state == 'full' else LISTING_EMPTY
                else:
                    body = payload
                kind = act[0]
                if kind == 'status':
                    self._send(act[1], b'')
                elif kind == 'trunc':
                    self._send(200, body, act[1])
                    self.close_connection = True
                    try:
                        self.connection.shutdown(socket.SHUT_RDWR)
                    except OSError:
                        pass
                elif kind == 'reset':
                    self._send(200, body, act[1])
                    self._rst()
                elif kind == 'stall':
                    self._send(200, body, act[1])
                    self._wait_for_client()
                elif kind == 'hreset':
                    self._rst()
                elif kind == 'hstall':
                    self._wait_for_client()
                elif kind == 'hclose':
                    self.close_connection = True
                    try:
                        self.connection.shutdown(socket.SHUT_RDWR)
                    except OSError:
                        pass
                else:
                    self._send(200, body)

            do_GET = do_PUT = _serve

        class S(http.server.ThreadingHTTPServer):
            daemon_threads = True
            request_queue_size = 64

            def handle_error(self, request, client_address):
                pass

        self.srv = S(('127.0.0.1', 0), H)
        self.port = self.srv.server_address[1]
        self.url = 'http://127.0.0.1:%d' % self.port
        self.thread = threading.Thread(target=self.srv.serve_forever, kwargs={'poll_interval': 0.05}, daemon=True)
        self.thread.start()

    def arm(self, object_script=(), bucket_script=(), bucket_state='full', payload=None):
        with self.lock:
            self.object_script = list(object_script)
            self.bucket_script = list(bucket_script)
            self.bucket_state = bucket_state
            if payload is not None:
                self.payload = payload
            self.log = []

    def requests(self):
        with self.lock:
            return list(self.log)

    def close(self):
        self.srv.shutdown()
        self.srv.server_close()
