"""C20 — Lazily initialised shared state is safe under every thread interleaving.

The theorems (Props/C20.v) quantify over all schedules of the translated critical sections; this module
(a) cross-checks the extracted interleaving semantics on random schedules (locked: safe, unlocked: unsafe
schedules exist), (b) drives the REAL objects under a deterministic line-level scheduler with instrumented
locks and checks that every thread gets the single-thread value, nothing raises and initialisation happens
once, (c) compares threaded and synchronous dask loads of a v4 data set.  When an obligation is broken (e.g.
a lock was removed) the same exploration is the failing-schedule search.
"""
import itertools

import dask
import dask.array as da
import numpy as np

from fixtures import v4
from fixtures.dsched import ILock, Sched
from katdal.lazy_indexer import DaskLazyIndexer
from katdal.sensordata import SensorCache, SimpleSensorGetter
from katdal.spectral_window import SpectralWindow
from katdal.chunkstore_s3 import _Pool

RULE = ('schedules = lists of thread ids consumed at every traced source line of the katdal file under test '
        '(2-3 threads; random schedules, plus all schedules with <= 2 pre-emptions in the thorough tier) on shared '
        'DaskLazyIndexer (plain and nested), SpectralWindow, SensorCache (plain, aliased and virtual sensors, '
        'membership/assignment) and _Pool objects whose locks are replaced by instrumented ones; a case is one '
        '(site, schedule); non-trivial when at least two threads overlap inside the traced code; distinct by '
        '(site, executed line trace)')
ASSUMPTIONS = ['CPython switches threads only between source lines of the traced files (line-level atomicity); '
               'C-level races inside numpy/dask are not explored',
               'instrumented lock objects replace threading.Lock/RLock attributes of the objects under test',
               'the threaded-vs-synchronous dask load is a differential run only (no model)']


def body_wire(code):
    return [[c, a] for (c, a) in code]


DASK_BODY = [(0, 6), (1, 0), (1, 0), (2, 0), (2, 0), (3, 0), (4, 0), (5, 0)]


def model_cross_check(ctx):
    """Extracted interleaving semantics on random schedules: locked -> every finished thread has 42, one init."""
    if not ctx.model_ok:
        return
    rng = ctx.rng
    cases = []
    for _ in range(ctx.scale(300, 3000)):
        n = rng.randint(2, 4)
        sched = [rng.randrange(n) for _ in range(rng.randint(5, 40))]
        cases.append([20, [body_wire(DASK_BODY), n, sched, 1]])
        cases.append([20, [body_wire(DASK_BODY), n, sched, 0]])
    outs = ctx.model(cases)
    unsafe = 0
    for c, o in zip(cases, outs):
        states, ncomp = o
        locked = c[1][3] == 1
        bad = any(s[0] == 3 or (s[0] == 2 and s[1] != 42) for s in states) or ncomp > 1
        if locked and bad:
            ctx.disagree('what=model_locked_unsafe', dict(schedule=c[1][2], threads=c[1][1]), None, o,
                         'extracted model: a locked schedule is unsafe (contradicts the theorem)')
        if not locked and bad:
            unsafe += 1
        ctx.note_case(('model', c[1][1], tuple(c[1][2]), locked), nontrivial=True)
    ctx.extra['model_unlocked_unsafe_schedules'] = unsafe
    ctx.count('model_schedules', len(cases))


# ------------------------------------------------------------------------------------------------ real sites

def gen_schedules(ctx, nthreads, n_random, length=60):
    rng = ctx.rng
    for _ in range(n_random):
        # mostly-sequential schedules with a few pre-emptions find more than uniformly random ones
        if rng.random() < 0.5:
            sched = [rng.randrange(nthreads) for _ in range(length)]
        else:
            sched = []
            cur = rng.randrange(nthreads)
            for _ in range(length):
                if rng.random() < 0.15:
                    cur = rng.randrange(nthreads)
                sched.append(cur)
        yield sched
    if ctx.tier == 'thorough':
        # all schedules with <= 2 switches among 2 threads over the first 24 steps
        for a in range(0, 24):
            for b in range(a, 24):
                for first in (0, 1):
                    yield [first] * a + [1 - first] * (b - a) + [first] * (40 - b)


def run_site(ctx, site, make, files, expect_equal=True):
    """make(sched) -> (funcs, check) ; check(results) -> None or description of the failure."""
    n = ctx.scale(70, 600)
    for schedule in gen_schedules(ctx, 3, n):
        s = Sched(files, schedule)
        funcs, check = make(s)
        results, trace = s.run(funcs)
        problem = None
        for tid in range(len(funcs)):
            r = results.get(tid)
            if r is None or r[0] != 'ok':
                problem = 'thread %d: %s' % (tid, r)
                break
        if problem is None:
            problem = check(results)
        overlap = len({t for t, _ in trace}) > 1 and any(a[0] != b[0] for a, b in zip(trace, trace[1:]))
        if problem is not None:
            ctx.disagree('site=%s;symptom=%s' % (site, problem.split(':')[0].split(' ')[0] if problem.startswith('thread') else problem.split(';')[0]),
                         dict(site=site, schedule=schedule, trace=trace[:60]), problem, None,
                         'threads performing first accesses concurrently did not all obtain the single-thread value')
        ctx.traces_validated += 1
        ctx.note_case((site, tuple(trace[:200])), nontrivial=overlap,
                      sample=dict(site=site, schedule=schedule[:20], first_lines=trace[:6]))
        ctx.count('site=' + site)


def site_dask(nested):
    x = da.from_array(np.arange(24).reshape(4, 6), chunks=2)
    base = np.arange(24).reshape(4, 6)
    expect = ((base[1:4][:, ::2] if not nested else base[1:4][1:3][:, ::2]).astype(np.float32) + 0.5) * 2

    def make(s):
        calls = []

        def tr(a):
            calls.append(1)
            return a.astype(np.float32) + 0.5

        def tr2(a):
            return a * 2
        if nested:
            inner = DaskLazyIndexer(x, (slice(1, 4),))
            inner._lock = ILock(s)
            li = DaskLazyIndexer(inner, (slice(1, 3), slice(None, None, 2)), transforms=[tr, tr2])
        else:
            li = DaskLazyIndexer(x, (slice(1, 4), slice(None, None, 2)), transforms=[tr, tr2])
        li._lock = ILock(s)

        def f():
            d = li.dataset
            # every thread must see the fully transformed array (values, not only shape)
            return (d.shape, str(d.dtype), np.asarray(d.compute(scheduler='synchronous')).tolist())

        def check(results):
            want = (expect.shape, str(expect.dtype), expect.tolist())
            for tid, r in results.items():
                if r[1] != want:
                    return 'wrong_value; thread %d got dtype %s' % (tid, r[1][1])
            if len(calls) != 1:
                return 'initialised_%d_times' % len(calls)
            if not np.array_equal(li.dataset.compute(), expect):
                return 'wrong_array'
            return None
        return [f, f, f], check
    return make


def site_spw():
    def make(s):
        w = SpectralWindow(1284.0, 2.0, 8, sideband=1)
        w._channel_freqs_lock = ILock(s)
        expect = 1284.0 + 2.0 * (np.arange(8) - 4)

        def f():
            return w.channel_freqs

        def check(results):
            arrs = [r[1] for r in results.values()]
            if not all(np.array_equal(a, expect) for a in arrs):
                return 'wrong_value'
            if not all(a is arrs[0] for a in arrs):
                return 'different_objects'
            return None
        return [f, f, f], check
    return make


def site_sensor(kind):
    ts = np.arange(8.0)

    def make(s):
        calls = []

        def virt(cache, name, **kw):
            calls.append(name)
            base = cache.get('a')
            out = base * 2
            cache[name] = out
            return out
        raw = {'a': SimpleSensorGetter('a', np.array([0.0, 7.0]), np.array([10.0, 17.0])),
               'b': SimpleSensorGetter('b', np.array([0.0, 7.0]), np.array([0.0, 70.0]))}
        cache = SensorCache(raw, ts, 1.0, keep=np.ones(8, bool), virtual={'double/a': virt}, aliases={'alias': 'a'})
        cache._lock = ILock(s, reentrant=(type(cache._lock).__name__ == 'RLock'))
        exp_a = 10.0 + ts
        if kind == 'same':
            fs = [lambda: cache.get('a'), lambda: cache.get('a'), lambda: cache.get('a')]
            exp = [exp_a, exp_a, exp_a]
        elif kind == 'alias':
            fs = [lambda: cache.get('a'), lambda: cache.get('a_alias') if 'a_alias' in cache else cache.get('a'), lambda: cache['a']]
            exp = [exp_a, exp_a, exp_a]
        elif kind == 'virtual':
            fs = [lambda: cache.get('double/a'), lambda: cache.get('double/a'), lambda: cache.get('a')]
            exp = [2 * exp_a, 2 * exp_a, exp_a]
        else:   # mixed mapping operations
            def setter():
                cache['c'] = np.full(8, 3.0)
                return cache.get('c')
            fs = [lambda: cache.get('b'), setter, lambda: ('a' in cache, cache.get('a'))[1]]
            exp = [10.0 * ts, np.full(8, 3.0), exp_a]

        def check(results):
            for tid, e in enumerate(exp):
                if not np.array_equal(np.asarray(results[tid][1]), e):
                    return 'wrong_value; thread %d' % tid
            if kind == 'virtual' and len(calls) > 2:
                return 'virtual_created_%d_times' % len(calls)
            return None
        return fs, check
    return make


def site_pool():
    def make(s):
        made = []

        def factory():
            made.append(object())
            return made[-1]
        pool = _Pool(factory)
        pool._lock = ILock(s)
        held = {}
        clashes = []

        def f():
            got = []
            for _ in range(2):
                item = pool.get()
                if id(item) in held:
                    clashes.append(id(item))
                held[id(item)] = True
                got.append(item)
                del held[id(item)]
                pool.put(item)
            return len(got)

        def check(results):
            if clashes:
                return 'item_held_twice'
            if len(pool._pool) != len(made) or len({id(x) for x in pool._pool}) != len(made):
                return 'items_not_conserved; pool=%d made=%d' % (len(pool._pool), len(made))
            return None
        return [f, f, f], check
    return make


def threaded_vs_sync(ctx):
    x = v4.build_v4(T=6, F=8, seed=ctx.seed, chunks={'correlator_data': (2, 4, 6), 'flags': (3, 8, 4), 'weights': (1, 2, 12)})
    try:
        d = x.d
        d.select(dumps=slice(1, 6), channels=slice(1, 7))
        with dask.config.set(scheduler='synchronous'):
            ref = [np.asarray(d.vis[:]), np.asarray(d.weights[:]), np.asarray(d.flags[:])]
        for workers in (1, 2, 4, 8):
            with dask.config.set(scheduler='threads', num_workers=workers):
                got = [np.asarray(d.vis[:]), np.asarray(d.weights[:]), np.asarray(d.flags[:])]
                joint = DaskLazyIndexer.get([d.vis, d.weights, d.flags], np.s_[:])
            for nm, a, b, c in zip(('vis', 'weights', 'flags'), ref, got, joint):
                if not (np.array_equal(a, b) and np.array_equal(a, c)):
                    ctx.disagree('what=threaded_load;array=%s' % nm, dict(workers=workers), 'differs', None,
                                 'multi-threaded dask load differs from the single-threaded load')
            ctx.note_case(('load', workers), sample=None)
            ctx.count('threaded_loads')
    finally:
        v4.cleanup(x)


def run(ctx):
    model_cross_check(ctx)
    run_site(ctx, 'dask', site_dask(False), ['katdal/lazy_indexer.py'])
    run_site(ctx, 'dask_nested', site_dask(True), ['katdal/lazy_indexer.py'])
    run_site(ctx, 'spw', site_spw(), ['katdal/spectral_window.py'])
    for kind in ('same', 'alias', 'virtual', 'mixed'):
        run_site(ctx, 'sensor_' + kind, site_sensor(kind), ['katdal/sensordata.py'])
    run_site(ctx, 'pool', site_pool(), ['katdal/chunkstore_s3.py'])
    threaded_vs_sync(ctx)


def replay(ctx, doc):
    case = doc.get('case', {})
    site = case.get('site', 'dask')
    makers = {'dask': (site_dask(False), ['katdal/lazy_indexer.py']), 'dask_nested': (site_dask(True), ['katdal/lazy_indexer.py']),
              'spw': (site_spw(), ['katdal/spectral_window.py']), 'pool': (site_pool(), ['katdal/chunkstore_s3.py'])}
    for k in ('same', 'alias', 'virtual', 'mixed'):
        makers['sensor_' + k] = (site_sensor(k), ['katdal/sensordata.py'])
    make, files = makers[site]
    s = Sched(files, case.get('schedule', []))
    funcs, check = make(s)
    results, trace = s.run(funcs)
    problem = None
    for tid in range(len(funcs)):
        if results.get(tid, ('x',))[0] != 'ok':
            problem = 'thread %d: %s' % (tid, results.get(tid))
    problem = problem or check(results)
    if problem:
        ctx.disagree('site=%s;replay' % site, case, problem, None, 'replayed schedule fails')
    ctx.note_case((site, 'replay'))
