"""C20 — Lazily initialised shared state is safe under every thread interleaving.

The theorems (Props/C20.v) quantify over all schedules of the translated critical sections, over all get/put
histories of the translated pool operations and over all schedules of any number of dask workers on a pure task graph.
This module
(a) cross-checks the extracted interleaving semantics on random schedules of the bodies AS TRANSLATED (wire_201), and
    the extracted pool on random get/put histories against the real _Pool (wire_202);
(b) drives the REAL objects (DaskLazyIndexer plain / mixed accessors / nested / shared inner, SpectralWindow,
    SensorCache, _Pool, S3ChunkStore.get_chunk against a local endpoint, the indexers of a v4 data set) under a
    deterministic line-level scheduler with instrumented locks and checks that every thread gets the single-thread
    value, nothing raises and initialisation happens once;
(c) loads a v4 data set under the synchronous scheduler, dask's threaded scheduler with 1..16 workers and a scheduler
    of its own that executes the real graph as the Coq machine `crun` does under adversarial event orders; arrays must
    be identical, every recorded schedule is replayed in the extracted model (wire_203), chunk reads must be
    idempotent and no task may mutate what it was given; the output stage's cell writes are checked distinct (wire_204).
When an obligation is broken (e.g. a lock was removed) the same exploration is the failing-schedule search.
"""
import hashlib
import random

import dask
import dask.array as da
import numpy as np

from fixtures import v4
from fixtures.dgraph import ModelScheduler, Recorder
from fixtures.dsched import ILock, Sched
from katdal.lazy_indexer import DaskLazyIndexer, dask_getitem
from katdal.sensordata import SensorCache, SimpleSensorGetter
from katdal.spectral_window import SpectralWindow
from katdal.chunkstore_s3 import _Pool
from katdal.concatdata import ConcatenatedSensorCache

RULE = ('schedules = lists of thread ids consumed at every traced source line of the katdal file(s) under test '
        '(3 threads; random schedules, plus all schedules with <= 2 pre-emptions in the thorough tier) on shared '
        'DaskLazyIndexer (dataset only / dataset+shape+dtype+[idx]+len / nested / two outers sharing an inner), '
        'SpectralWindow, SensorCache (same, aliased, virtual and nested virtual sensors, wildcard properties, '
        'selection, lazily materialised timestamps, membership/assignment), _Pool (get/put and context manager), '
        'S3ChunkStore.get_chunk on a local endpoint and the vis/weights/flags indexers of a v4 data set, whose locks '
        'are replaced by instrumented ones; a case is one (site, schedule); non-trivial when at least two threads '
        'overlap inside the traced code; distinct by (site, executed line trace).  Loads: 4 v4 fixtures (odd sizes, applycal G/B/K, '
        'ragged chunks, power-scaled weights, lost chunks) x {synchronous, threads with 1,2,3,4,8,16 workers, model '
        'scheduler with policies random/greedy/fifo/lifo/reverse x early/late execution x 1..5 workers}; a case is '
        '(fixture, index, scheduler, event list).  Extension: loads also of a 1x1 single-chunk set and a set with a separate flag '
        'stream, with one extra index shape per fixture (boolean masks, scalars only, empty, negative/strided, ellipsis, index '
        'list) separately / jointly / jointly into out=; sites sensor_dag* (SensorCache whose virtual sensors form a random DAG: '
        'chains, diamonds, repeated inputs, raw only; 3 threads x 2 requests incl. an unknown name), concat_* '
        '(ConcatenatedSensorCache: different / same sensors, sensor missing in one cache, virtual, selection), s3x_* '
        '(get_chunk with truncated responses -> read retries with back-off, lost chunks, empty and missing buckets), v4_props '
        '(sensor-backed properties of a v4 data set); model-only cases: random template DAGs x wants x schedules x '
        'locked/unlocked (wire_205), property-map histories and schedules (206), server states x buckets x schedules (207), '
        'interleavings of request programs and arbitrary event lists (208/209).  Strengthening: sites applycal_vis / applycal_mixed '
        '(three dask workers computing different blocks of the calibrated vis / weights / flags of a v4 data set opened with '
        'applycal=K,B whose solutions change during the observation: the block functions over the one CorrectionParams object of '
        'the graph, line by line) and s3b (three threads, requests with per-request retry budgets: truncated body -> used-up budget '
        'stored for the second attempt, hung-up connection -> urllib3 retries with the budget the adapter holds, a retries=0 '
        'override; data path get_chunk_or_default), each compared with what ONE thread gets; pre-emption windows: before / after '
        'every dynamic occurrence of a write to state that outlives the call (aliases of shared objects included) and of a read of '
        'what such a write writes, windows at write sites no model covers first and exhaustively, the rest spread evenly over the '
        'source lines; two-level pre-emptions (three requests in flight) for s3b in the thorough tier or when the translated facts '
        'about the pooled sessions differ from the model; model-only: block machines with / without memo / locked memo (wire_213), '
        'retry-budget machine on interleaved request programs, event soups and a shared-adapter topology (211/212)')
ASSUMPTIONS = ['CPython switches threads only between source lines of the traced files (line-level atomicity); '
               'C-level races inside numpy/dask/requests are not explored',
               'instrumented lock objects replace the threading.Lock/RLock attributes of the objects under test (a '
               'guard of any other type is left in place)',
               'threaded load = single-threaded load is proved for graphs of pure tasks under the event semantics of '
               'dask.local.get_async; purity/idempotence of the real tasks is observed (digests), not proved',
               'the real thread pool runs are non-deterministic samples; the model scheduler runs are seeded',
               'sensor cache theorems: virtual-sensor templates form a well-founded graph (no sensor needs itself) and the '
               'creating functions are pure functions of the values they fetch (observed on the real functions, not proved)',
               'verified-bucket theorem: the answer of the server about a bucket does not change during the run',
               'a stalled run of a site that talks to the loopback HTTP endpoint is repeated once under the same schedule '
               'before it is reported',
               'per-call-state theorem: the classification of the statements of the block functions (reads shared state / call-local '
               '/ modelled write / returns fresh or argument) and the freshness analysis behind the write-site inventory are the '
               "translator's (flow-insensitive ast analysis, fixtures/sharedwrites.py); numba kernels are one line each",
               'retry budget: urllib3 reads adapter.max_retries once per attempt (HTTPAdapter.send); Retry objects are immutable']

LOCKED_SAFE = 42


class Hang(Exception):
    pass


def guarded(fn, timeout=90):
    """fn() in a helper thread: a load that never returns (a self-deadlock) must not take the check down with it."""
    import threading
    box = {}

    def body():
        try:
            box['v'] = fn()
        except BaseException as e:   # noqa
            box['e'] = e
    t = threading.Thread(target=body, daemon=True)
    t.start()
    t.join(timeout)
    if t.is_alive():
        raise Hang('no result after %d s' % timeout)
    if 'e' in box:
        raise box['e']
    return box['v']


# ------------------------------------------------------------------------------------------------ extracted models

def model_cross_check(ctx):
    """Extracted interleaving semantics on random schedules of the TRANSLATED bodies: locked -> every finished
    thread has f(s0) = 42, nothing failed, one initialisation; unlocked -> unsafe schedules exist (counted)."""
    if not ctx.model_ok or ctx.searching:
        return      # (a broken obligation may leave a stale model binary behind: only the real objects count then)
    bodies = ctx.model([[201, []]])[0]
    if bodies == [-999] or len(bodies) != 3:
        return
    rng = ctx.rng
    cases = []
    for name, body in zip(('dask', 'spw', 'sensor_get'), bodies):
        for _ in range(ctx.scale(120, 1500)):
            n = rng.randint(2, 4)
            sched = [rng.randrange(n) for _ in range(rng.randint(5, 60))]
            cases.append((name, [20, [body, n, sched, 1]]))
            cases.append((name, [20, [body, n, sched, 0]]))
    outs = ctx.model([c for _, c in cases])
    unsafe = {}
    for (name, c), o in zip(cases, outs):
        states, ncomp = o
        locked = c[1][3] == 1
        bad = any(s[0] == 3 or (s[0] == 2 and s[1] != LOCKED_SAFE) for s in states) or ncomp > 1
        if locked and bad:
            ctx.disagree('what=model_locked_unsafe;site=%s' % name,
                         dict(kind='model', site=name, schedule=c[1][2], threads=c[1][1], body=c[1][0]), None, o,
                         'extracted model of the translated body: a locked schedule is unsafe (contradicts the theorem)')
        if not locked and bad:
            unsafe[name] = unsafe.get(name, 0) + 1
        ctx.note_case(('model', name, c[1][1], tuple(c[1][2]), locked), nontrivial=True)
    ctx.extra['model_unlocked_unsafe_schedules'] = unsafe
    ctx.count('model_schedules', len(cases))


def real_pool_history(ops):
    """ops: [kind, thread]; kind 0 get, 1 put (most recent item of the thread), 2 `with pool() as item` (get+put)."""
    made = []

    def factory():
        made.append(len(made))
        return made[-1]
    pool = _Pool(factory)
    held = {}
    outs = []
    raised = False
    for kind, t in ops:
        if raised:
            break
        try:
            if kind == 0:
                x = pool.get()
                held.setdefault(t, []).insert(0, x)
                outs.append(x)
            elif kind == 1:
                if held.get(t):
                    x = held[t].pop(0)
                    pool.put(x)
                    outs.append(x)
                else:
                    outs.append(-1)
            else:
                with pool() as x:
                    outs.append(x)
                outs.append(x)
        except Exception:   # noqa
            outs.append(-2)
            raised = True
    return outs, list(pool._pool), raised, sorted(x for v in held.values() for x in v)


def pool_history_case(ctx, ops):
    mops = []
    for kind, t in ops:
        mops += [[0, t], [1, t]] if kind == 2 else [[kind, t]]
    outs, free, raised, held = real_pool_history(ops)
    impl = [outs, free, int(raised), held]
    model = None
    out = ctx.model([[202, mops]])[0] if ctx.model_ok and not ctx.searching else [-999]
    if out != [-999]:
        m_outs, m_free, m_err, m_held = out
        if m_err:
            # the model stops being meaningful after the first raise: compare up to it
            k = m_outs.index(-2) if -2 in m_outs else len(m_outs)
            m_outs = m_outs[:k + 1]
        model = [m_outs, m_free, int(bool(m_err)), sorted(m_held)] if not m_err else [m_outs, free, 1, held]
    if model is not None and impl != model:
        ctx.disagree('what=pool_history;symptom=%s' % ('raises' if raised != bool(m_err) else 'items_differ'),
                     dict(kind='pool_history', ops=ops), impl, model,
                     '_Pool driven by one thread differs from the model of its translated get/put', kind='tie')
    lent = [x for x in held]
    if len(set(lent)) != len(lent) or set(lent) & set(free) or len(set(free)) != len(free) or raised:
        ctx.disagree('what=pool_history;symptom=%s' % ('raises' if raised else 'item_lent_twice'),
                     dict(kind='pool_history', ops=ops), impl, model,
                     '_Pool lends an item twice / raises on a get-put history', spec='no item lent twice, nothing raises')
    ctx.traces_validated += 1
    ctx.note_case(('pool_history', tuple(map(tuple, ops))), nontrivial=len(ops) > 2)
    ctx.count('pool_histories')


def pool_histories(ctx):
    rng = ctx.rng
    for _ in range(ctx.scale(150, 2000)):
        ops = [[rng.choice((0, 0, 1, 1, 2)), rng.randrange(3)] for _ in range(rng.randint(1, 14))]
        pool_history_case(ctx, ops)


# ------------------------------------------------------------------------------------------------ real sites

def ilock_like(s, real):
    """An instrumented lock of the kind of the real guard; a guard that is not a lock is left alone."""
    kind = type(real).__name__
    if kind not in ('RLock', 'lock'):
        return real
    # objects that share one real lock share one instrumented lock
    if not hasattr(s, 'lockmap'):
        s.lockmap = {}
    if id(real) not in s.lockmap:
        s.lockmap[id(real)] = (real, ILock(s, reentrant=(kind == 'RLock')))
    return s.lockmap[id(real)][1]


def gen_schedules(ctx, nthreads, n_random, length=60, two_switch=True):
    rng = ctx.rng
    for _ in range(n_random):
        # mostly-sequential schedules with a few pre-emptions find more than uniformly random ones
        r = rng.random()
        if r < 0.4:
            sched = [rng.randrange(nthreads) for _ in range(length)]
        else:
            p = 0.15 if r < 0.8 else 0.04
            sched = []
            cur = rng.randrange(nthreads)
            for _ in range(length):
                if rng.random() < p:
                    cur = rng.randrange(nthreads)
                sched.append(cur)
        yield sched
    if ctx.tier == 'thorough' and two_switch:
        # all schedules with <= 2 switches among 2 threads over the first 24 steps
        for a in range(0, 24):
            for b in range(a, 24):
                for first in (0, 1):
                    yield [first] * a + [1 - first] * (b - a) + [first] * (40 - b)


def symptom_of(problem):
    if problem.startswith('thread'):
        # thread 1: ('exc', 'AttributeError', ...)
        if "'exc'" in problem:
            try:
                return 'raises_' + problem.split("'exc', '")[1].split("'")[0]
            except IndexError:
                return 'raises'
        return 'thread'
    return problem.split(';')[0]


def lock_order_problem(ctx, s):
    """The instrumented locks of one run: which lock was asked for while which other one was held.  A cycle among these
    'held -> asked for' edges is a deadlock waiting for its schedule (even if this run went through).  Without a cycle the
    locks are ranked topologically and the threads' Acq/Rel programs are given to the model (wire_210): they must satisfy
    the discipline `ordered` of Model/LockOrder.v, for which the theorems C20_lock_order_* hold."""
    ops = s.lockops
    locks = []
    for _, _, l in ops:
        if l not in locks:
            locks.append(l)
    if len(locks) < 2:
        return None
    held, edges, progs = {}, set(), {}
    for t, k, l in ops:
        if t is None:
            continue
        if k == 'a':
            for h in held.get(t, []):
                edges.add((h, l))
            held.setdefault(t, []).append(l)
        elif l in held.get(t, []):
            held[t].remove(l)
        progs.setdefault(t, []).append((k, l))
    rank, remaining = {}, list(locks)
    while remaining:
        free = [l for l in remaining if not any((h, l) in edges for h in remaining if h != l)]
        if not free:
            return 'lock_order_cycle; %d locks ask for each other while held' % len(remaining)
        for l in free:
            rank[l] = len(rank)
            remaining.remove(l)
    ctx.extra['lock_order_edges_max'] = max(ctx.extra.get('lock_order_edges_max', 0), len(edges))
    if edges and ctx.model_ok and not ctx.searching:
        plist = [[[0 if k == 'a' else 1, rank[l]] for k, l in progs.get(t, [])] for t in range(max(progs) + 1)]
        out = ctx.model([[210, [plist, []]]])[0]
        if out != [-999] and not out[0]:
            return 'model_lock_order_differs; the lock operations of the run do not fit the ranked discipline %r' % (plist,)
        ctx.count('lock_order_programs_checked')
    return None


def run_one(ctx, site, make, files, schedule, replaying=False):
    s = Sched(files, schedule)
    funcs, check = make(s)
    results, trace = s.run(funcs)
    if s.hung and site.startswith('s3'):
        # the sites that talk to a local HTTP endpoint: a run that stalls is run once more under the same schedule -- a
        # deadlock of the code under test is a property of the schedule and stalls again, a hiccup of the loopback
        # connection on a loaded machine does not
        ctx.count('s3_stalled_run_repeated')
        s = Sched(files, schedule)
        funcs, check = make(s)
        results, trace = s.run(funcs)
    trace = [(t, tuple(w)) for t, w in trace]
    problem = None
    for tid in range(len(funcs)):
        r = results.get(tid)
        if r is None or r[0] != 'ok':
            problem = 'thread %d: %s' % (tid, r)
            break
    if problem is None:
        problem = check(results)
    if problem is None:
        problem = lock_order_problem(ctx, s)
    overlap = len({t for t, _ in trace}) > 1 and any(a[0] != b[0] for a, b in zip(trace, trace[1:]))
    if problem is not None:
        sym = symptom_of(problem)
        ctx.disagree('site=%s;symptom=%s' % (site, sym),
                     dict(site=site, schedule=schedule, trace=trace[:60]), problem, None,
                     'threads performing first accesses concurrently did not all obtain the single-thread value'
                     if not sym.startswith('model_') else 'the real object and the extracted model of the site disagree',
                     kind='tie' if sym.startswith('model_') else 'property')
    ctx.traces_validated += 1
    ctx.note_case((site, tuple(trace[:200])) if not replaying else (site, 'replay'), nontrivial=overlap,
                  sample=dict(site=site, schedule=schedule[:20], first_lines=trace[:6]))
    ctx.count('site=' + site)
    return s.hung


_wl = {}
_adj = {}
_rd = {}
_un = {}


def _scan(files):
    """The places of the traced files where state that OUTLIVES A CALL is written (fixtures/sharedwrites.py: an assignment /
    deletion / augmented assignment through an attribute or item of an object the function did not create itself -- aliases
    such as `adapter = session.get_adapter(url)` included --, a mutating method call on such an object, an out= argument;
    outside __init__), the ones that leave a multi-field update half done, and the places where what they write is READ."""
    import ast
    import os
    from fixtures import sharedwrites as sw
    from vh.items.c20 import ALLOWED, INVENTORY_FILES
    root = sw.repo_root()
    for rel in files:
        if rel in _wl:
            continue
        base = os.path.basename(rel)
        sites = [st for st in sw.sites_of(rel) if not st.construction and st.kind in ('set', 'aug', 'del', 'call', 'out', 'global')]
        writes = {(base, st.line) for st in sites}
        _un[rel] = {(base, st.line) for st in sites if st.ident not in ALLOWED} if rel in INVENTORY_FILES else set()
        wlines = {ln for _, ln in writes}
        half = set()
        tree = ast.parse(open(os.path.join(root, rel)).read())

        def site_line(x):
            if isinstance(x, (ast.For, ast.While, ast.If, ast.With, ast.Try, ast.FunctionDef, ast.AsyncFunctionDef, ast.ClassDef)):
                return None
            ls = [ln for ln in range(x.lineno, (x.end_lineno or x.lineno) + 1) if ln in wlines]
            return ls[-1] if ls else None

        def first_is_write(y):
            if isinstance(y, (ast.For, ast.While, ast.If, ast.With, ast.Try)):
                body = getattr(y, 'body', [])
                return bool(body) and first_is_write(body[0])
            return site_line(y) is not None
        for n in ast.walk(tree):
            for field in ('body', 'orelse', 'finalbody'):
                block = getattr(n, field, None)
                if not isinstance(block, list) or not block or not isinstance(block[0], ast.stmt):
                    continue
                for x, y in zip(block, block[1:]):
                    if site_line(x) is not None and first_is_write(y):
                        half.add((base, site_line(x)))
                # a loop whose body ends with a write: every iteration is a step of a multi-step update
                if isinstance(n, (ast.For, ast.While)) and field == 'body' and site_line(block[-1]) is not None:
                    half.add((base, site_line(block[-1])))
        attrs = {st.attr for st in sites if st.attr and st.attr not in ('self',)}
        _wl[rel], _adj[rel] = writes, half
        _rd[rel] = sw.read_lines_of(rel, attrs) - writes


def write_lines(files):
    """(basename, line) of every statement outside __init__ that writes to an object the function did not create: the
    places next to which a pre-emption can expose a half-done update or a stale check."""
    _scan(files)
    return set().union(*[_wl[f] for f in files])


def half_done_lines(files):
    """... of those, the ones directly followed in the same block by another such write (or closing a loop body):
    suspending a thread right after them leaves a multi-field update half done."""
    _scan(files)
    return set().union(*[_adj[f] for f in files])


def read_lines(files):
    """(basename, line) of the statements that READ an attribute some write site of the traced files writes: between such
    a read (a check) and what the thread does next (the act) the state can change under its feet."""
    _scan(files)
    return set().union(*[_rd[f] for f in files])


def unmodelled_lines(files):
    """write sites that are NOT on the translator's list of modelled sites (a broken obligation): searched first"""
    _scan(files)
    return set().union(*[_un[f] for f in files])


def stratified(rng, items, cap):
    """at most `cap` of the (key, value) items, spread evenly over the keys (the static source lines), seeded"""
    groups = {}
    for k, v in items:
        groups.setdefault(k, []).append(v)
    for g in groups.values():
        rng.shuffle(g)
    out = []
    keys = sorted(groups)
    rng.shuffle(keys)
    while len(out) < cap and any(groups.values()):
        for k in keys:
            if groups[k] and len(out) < cap:
                out.append(groups[k].pop())
    return out


def write_point_schedules(ctx, site, make, files, cap, nthreads=3, read_cap=None):
    """Single-pre-emption schedules placed at the shared state: for every thread A and every dynamic occurrence, in A's
    solo run, of a line that writes to state that outlives the call -- or that reads what such a line writes --, suspend A
    just before / just after that line, let the other threads run to completion (or until they block on A's lock), then
    resume A.  Windows at write sites no model covers (a broken obligation) and windows that leave a multi-field update
    half done go first; the others are capped, spread evenly over the distinct source lines."""
    wl = write_lines(files)
    hd = half_done_lines(files)
    rl = read_lines(files)
    un = unmodelled_lines(files)
    scheds, first, reads, urgent = [], [], [], []
    for a in range(nthreads):
        others = [t for t in range(nthreads) if t != a]
        s = Sched(files, [['run', a]] + [['run', o] for o in others], max_trace=20000)
        funcs, _ = make(s)
        _, trace = s.run(funcs)
        steps = [tuple(w) for (t, w) in trace if t == a]
        for i, w in enumerate(steps):
            if w in wl or w in rl:
                for k in (i + 1, i + 2):
                    o = list(others)
                    ctx.rng.shuffle(o)
                    sch = [a] * k + [['run', t] for t in o]
                    key = (w, k - i)
                    if w in un:
                        urgent.append((key, sch))
                    elif w in rl and w not in wl:
                        reads.append((key, sch))
                    elif k == i + 2 and w in hd:
                        # suspended right after the first of two consecutive writes: a half-done update -- these go first
                        first.append((key, sch))
                    else:
                        scheds.append((key, sch))
    ctx.extra.setdefault('write_points', {})[site] = [len(urgent), len(first), len(scheds), len(reads)]
    if un and urgent:
        # the neighbourhood of an unmodelled site: the reads of what it writes are part of the same search
        urgent += reads
        reads = []
    urgent = stratified(ctx.rng, urgent, min(6 * cap, 80))
    first = stratified(ctx.rng, first, 4 * cap)
    scheds = stratified(ctx.rng, scheds, cap)
    reads = stratified(ctx.rng, reads, max(2, cap // 15) if read_cap is None else read_cap)
    return urgent + first + scheds + reads


def two_level_schedules(ctx, site, make, files, cap):
    """Schedules with TWO pre-emptions among three threads: A is suspended next to one of its shared-state writes, then B
    next to one of its own (both keep what they hold -- a borrowed session, a half-done update), the third thread runs to
    completion, then B, then A.  Needed when the damage takes three parties (A's and C's sessions share a part while B
    keeps the pool from handing A's partner out earlier).  Spread evenly over the pairs of source lines, seeded."""
    wl = write_lines(files)
    pts = {}
    for a in range(3):
        others = [t for t in range(3) if t != a]
        s = Sched(files, [['run', a]] + [['run', o] for o in others], max_trace=20000)
        funcs, _ = make(s)
        _, trace = s.run(funcs)
        steps = [tuple(w) for (t, w) in trace if t == a]
        pts[a] = [(w, i + 2) for i, w in enumerate(steps) if w in wl]
    items = []
    for a in range(3):
        for b in range(3):
            if b == a:
                continue
            c = 3 - a - b
            for wa, ka in pts[a]:
                for wb, kb in pts[b]:
                    items.append(((wa, wb), [a] * ka + [b] * kb + [['run', c], ['run', b], ['run', a]]))
    ctx.extra.setdefault('two_level_points', {})[site] = len(items)
    return stratified(ctx.rng, items, cap)


def run_site(ctx, site, make, files, n=None, length=60, cap=None, nthreads=3, read_cap=None, points_first=False):
    n = ctx.scale(24, 500) if n is None else n
    two = cap is None
    points = write_point_schedules(ctx, site, make, files, ctx.scale(60, 2000) if cap is None else cap, nthreads, read_cap)
    rand = list(gen_schedules(ctx, nthreads, n, length, two_switch=two))
    before = len(ctx.disagreements)
    for schedule in (points + rand if (points_first or unmodelled_lines(files)) else rand + points):
        if run_one(ctx, site, make, files, schedule):
            return          # a hung run leaves stuck threads behind and has been reported: leave this site
        if ctx.searching and len(ctx.disagreements) - before >= 4:
            return          # (failing-input search: this site has delivered; the time goes to the other sites)


def site_dask(variant):
    base = np.arange(24).reshape(4, 6)
    x = da.from_array(base, chunks=2)

    def expected(a):
        return (a.astype(np.float32) + 0.5) * 2

    def make(s):
        calls = []

        def tr(a):
            calls.append(1)
            return a.astype(np.float32) + 0.5

        def tr2(a):
            return a * 2

        def values(d):
            # every thread must see the fully transformed array (values, not only shape)
            return (tuple(d.shape), str(d.dtype), np.asarray(d.compute(scheduler='synchronous')).tolist())

        def want(a):
            return (a.shape, str(a.dtype), a.tolist())
        if variant == 'nested':
            inner = DaskLazyIndexer(x, (slice(1, 4),))
            inner._lock = ilock_like(s, inner._lock)
            li = DaskLazyIndexer(inner, (slice(1, 3), slice(None, None, 2)), transforms=[tr, tr2])
            li._lock = ilock_like(s, li._lock)
            e = expected(base[1:4][1:3][:, ::2])
            fs = [lambda: values(li.dataset)] * 3
            exp = [want(e)] * 3
            n_calls = 1
        elif variant == 'shared_inner':
            # two outer indexers over ONE inner indexer: the first accesses of the outers race on the inner
            inner = DaskLazyIndexer(x, (slice(1, 4),), transforms=[tr])
            inner._lock = ilock_like(s, inner._lock)
            o1 = DaskLazyIndexer(inner, (slice(0, 2), slice(None, None, 2)), transforms=[tr2])
            o2 = DaskLazyIndexer(inner, (slice(1, 3), slice(1, 5)))
            o1._lock = ilock_like(s, o1._lock)
            o2._lock = ilock_like(s, o2._lock)
            ei = base[1:4].astype(np.float32) + 0.5
            fs = [lambda: values(o1.dataset), lambda: values(o2.dataset), lambda: values(inner.dataset)]
            exp = [want(ei[0:2][:, ::2] * 2), want(ei[1:3][:, 1:5]), want(ei)]
            li = o1
            e = ei[0:2][:, ::2] * 2
            n_calls = 1
        else:
            li = DaskLazyIndexer(x, (slice(1, 4), slice(None, None, 2)), transforms=[tr, tr2])
            li._lock = ilock_like(s, li._lock)
            e = expected(base[1:4][:, ::2])
            if variant == 'mixed':
                # first accesses through every public door: dataset, [idx] (two different ones), shape/dtype/len
                def second_stage(idx):
                    def f():
                        with dask.config.set(scheduler='synchronous'):
                            out = li[idx]
                        return (out.shape, str(out.dtype), out.tolist())
                    return f
                i1, i2 = np.s_[1:3, ::2], np.s_[[2, 0], 1]
                fs = [second_stage(i1), second_stage(i2),
                      lambda: (tuple(li.shape), str(li.dtype), len(li)) + values(li.dataset)]
                exp = [want(e[i1]), want(e[[2, 0]][:, 1]), (e.shape, str(e.dtype), len(e)) + want(e)]
            else:
                fs = [lambda: values(li.dataset)] * 3
                exp = [want(e)] * 3
            n_calls = 1

        def check(results):
            for tid, r in results.items():
                if r[1] != exp[tid]:
                    got = r[1]
                    what = 'dtype %s' % (got[1],) if got[:2] != exp[tid][:2] else 'values differ'
                    return 'wrong_value; thread %d got %s' % (tid, what)
            if len(calls) != n_calls:
                return 'initialised_%d_times' % len(calls)
            if not np.array_equal(li.dataset.compute(scheduler='synchronous'), e):
                return 'wrong_array'
            return None
        return fs, check
    return make


def site_spw():
    def make(s):
        w = SpectralWindow(1284.0, 2.0, 8, sideband=1)
        w._channel_freqs_lock = ilock_like(s, w._channel_freqs_lock)
        expect = 1284.0 + 2.0 * (np.arange(8) - 4)

        def f():
            return w.channel_freqs

        def check(results):
            arrs = [r[1] for r in results.values()]
            if not all(np.array_equal(a, expect) for a in arrs):
                return 'wrong_value'
            if not all(a is arrs[0] for a in arrs):
                return 'different_objects'
            return None
        return [f, f, f], check
    return make


class LazyTimestamps:
    """Timestamps that are materialised on first use (`timestamps[:]`), as the data sets provide them."""

    def __init__(self, ts, log):
        self.ts, self.log = ts, log

    def __getitem__(self, idx):
        self.log.append(idx)
        return self.ts[idx]

    def __len__(self):
        return len(self.ts)


def site_sensor(kind):
    ts = np.arange(8.0)

    def make(s):
        calls = []
        tlog = []

        def virt(cache, name, **kw):
            calls.append(name)
            base = cache.get('a')
            out = base * 2
            cache[name] = out
            return out

        def virt2(cache, name, **kw):
            calls.append(name)
            out = cache.get('double/a') + cache.get('b')
            cache[name] = out
            return out
        raw = {'a': SimpleSensorGetter('a', np.array([0.0, 7.0]), np.array([10.0, 17.0])),
               'b': SimpleSensorGetter('b', np.array([0.0, 7.0]), np.array([0.0, 70.0])),
               'x/pos': SimpleSensorGetter('x/pos', np.array([0.5, 7.5]), np.array([5.0, 12.0])),
               'y/pos': SimpleSensorGetter('y/pos', np.array([0.5, 7.5]), np.array([50.0, 120.0]))}
        props = {'*/pos': {'time_offset': -0.5}, '*': {}} if kind == 'props' else None
        keep = np.array([1, 0, 1, 1, 0, 0, 1, 1], bool) if kind == 'select' else np.ones(8, bool)
        stamps = LazyTimestamps(ts, tlog) if kind in ('props', 'select', 'virtual2') else ts
        cache = SensorCache(raw, stamps, 1.0, keep=keep, props=props,
                            virtual={'double/a': virt, 'sum/ab': virt2}, aliases={'alias': 'a'})
        cache._lock = ilock_like(s, cache._lock)
        exp_a = 10.0 + ts
        exp_b = 10.0 * ts
        if kind == 'same':
            fs = [lambda: cache.get('a'), lambda: cache.get('a'), lambda: cache.get('a')]
            exp = [exp_a, exp_a, exp_a]
        elif kind == 'alias':
            fs = [lambda: cache.get('a'), lambda: cache.get('a_alias') if 'a_alias' in cache else cache.get('a'), lambda: cache['a']]
            exp = [exp_a, exp_a, exp_a]
        elif kind == 'virtual':
            fs = [lambda: cache.get('double/a'), lambda: cache.get('double/a'), lambda: cache.get('a')]
            exp = [2 * exp_a, 2 * exp_a, exp_a]
        elif kind == 'virtual2':
            # a virtual sensor built from another virtual sensor: three levels of the re-entrant lock
            fs = [lambda: cache.get('sum/ab'), lambda: cache.get('double/a'), lambda: cache.get('sum/ab')]
            exp = [2 * exp_a + exp_b, 2 * exp_a, 2 * exp_a + exp_b]
        elif kind == 'props':
            # first extraction of DIFFERENT sensors: the shared property map is updated and scanned by each
            fs = [lambda: cache.get('x/pos'), lambda: cache.get('y/pos'), lambda: cache.get('b')]
            exp = [5.0 + ts, 50.0 + 10.0 * ts, exp_b]
        elif kind == 'select':
            fs = [lambda: cache['a'], lambda: cache.get('a', select=True), lambda: cache.get('b')[keep]]
            exp = [exp_a[keep], exp_a[keep], exp_b[keep]]
        else:   # mixed mapping operations
            def setter():
                cache['c'] = np.full(8, 3.0)
                return cache.get('c')
            fs = [lambda: cache.get('b'), setter, lambda: ('a' in cache, cache.get('a'))[1]]
            exp = [exp_b, np.full(8, 3.0), exp_a]

        def check(results):
            for tid, e in enumerate(exp):
                got = np.asarray(results[tid][1])
                if got.shape != e.shape or not np.array_equal(got, e):
                    return 'wrong_value; thread %d' % tid
            if kind == 'virtual' and len(calls) > 2:
                return 'virtual_created_%d_times' % len(calls)
            if kind == 'virtual2' and (calls.count('sum/ab') > 2 or calls.count('double/a') > 3):
                return 'virtual_created_%d_times' % len(calls)
            # the cache must end up holding the single-thread values
            for nm, e in (('a', exp_a), ('b', exp_b)):
                if nm in cache._raw and isinstance(cache._raw[nm], np.ndarray) and not np.array_equal(cache._raw[nm], e):
                    return 'cache_holds_wrong_value; %s' % nm
            return None
        return fs, check
    return make


def site_pool(ctxmgr):
    def make(s):
        made = []

        def factory():
            made.append(object())
            return made[-1]
        pool = _Pool(factory)
        pool._lock = ilock_like(s, pool._lock)
        held = {}
        clashes = []

        from katdal import chunkstore_s3

        def use(item):
            # the borrower works with the item for a while: a few traced lines (= pre-emption points) in between
            if id(item) in held:
                clashes.append(id(item))
            held[id(item)] = True
            chunkstore_s3._connect_read_tuple((1, 2))
            if held.get(id(item)) is not True:
                clashes.append(id(item))
            held.pop(id(item), None)

        def f():
            n = 0
            for _ in range(2):
                if ctxmgr:
                    with pool() as item:
                        use(item)
                        n += 1
                else:
                    item = pool.get()
                    use(item)
                    n += 1
                    pool.put(item)
            return n

        def check(results):
            if clashes:
                return 'item_held_twice'
            if len(pool._pool) != len(made) or len({id(x) for x in pool._pool}) != len(made):
                return 'items_not_conserved; pool=%d made=%d' % (len(pool._pool), len(made))
            return None
        return [f, f, f], check
    return make


_s3 = {}


def s3_env():
    if 's' not in _s3:
        import logging
        from fixtures.s3mini import MiniS3
        from katdal.chunkstore import npy_header_and_body
        logging.getLogger('urllib3').setLevel(logging.CRITICAL)
        chunks = {}
        objects = {}
        for k in range(3):
            a = (np.arange(12, dtype=np.int32).reshape(3, 4) + 100 * k)
            hdr, body = npy_header_and_body(a)
            objects['/bkt/arr/%05d_00000.npy' % (3 * k)] = hdr + body.tobytes()
            chunks[k] = a
        _s3['s'] = MiniS3(objects)
        _s3['chunks'] = chunks
    return _s3['s'], _s3['chunks']


def site_s3():
    from katdal.chunkstore_s3 import S3ChunkStore

    def make(s):
        srv, chunks = s3_env()
        store = S3ChunkStore(srv.url, timeout=(2, 5), retries=0)
        pool = store._session_pool
        pool._lock = ilock_like(s, pool._lock)
        inuse = {}
        clashes = []
        made = []
        inner = pool._factory

        def factory():
            session = inner()
            made.append(session)
            sid = len(made)
            orig = session.request

            def request(*a, **k):
                me = s.current
                if inuse.get(sid) is not None and inuse[sid] != me:
                    clashes.append((sid, inuse[sid], me))
                inuse[sid] = me
                resp = orig(*a, **k)
                close = resp.close

                def closing():
                    if inuse.get(sid) == me:
                        inuse[sid] = None
                    close()
                resp.close = closing
                return resp
            session.request = request
            return session
        pool._factory = factory

        def getter(k):
            def f():
                out = []
                for j in (k, (k + 1) % 3):
                    out.append(store.get_chunk('bkt/arr', (slice(3 * j, 3 * j + 3), slice(0, 4)), np.int32).tolist())
                return out
            return f

        def check(results):
            for tid in range(3):
                want = [chunks[tid].tolist(), chunks[(tid + 1) % 3].tolist()]
                if results[tid][1] != want:
                    return 'wrong_value; thread %d' % tid
            if clashes:
                return 'session_used_by_two_requests; %r' % (clashes[0],)
            if len(pool._pool) != len(made) or len({id(x) for x in pool._pool}) != len(made):
                return 'sessions_not_conserved; pool=%d made=%d' % (len(pool._pool), len(made))
            return None
        return [getter(0), getter(1), getter(2)], check
    return make


LOAD_FILES = ['katdal/lazy_indexer.py', 'katdal/chunkstore.py', 'katdal/chunkstore_npy.py', 'katdal/vis_flags_weights.py']
_ld = {}


def load_lines_env(seed):
    if 'x' not in _ld:
        x = guarded(lambda: v4.build_v4(T=6, F=8, seed=seed, need_weights_power_scale=True,
                                        chunks={'correlator_data': (2, 4, 6), 'flags': (3, 8, 4), 'weights': (1, 2, 12)}), 150)
        _ld['x'] = x
        d = x.d
        d.select(dumps=slice(1, 6), channels=slice(1, 7))
        with dask.config.set(scheduler='synchronous'):
            _ld['exp'] = guarded(lambda: [d.vis[0:2], d.flags[1:3], (d.flags[2:4], d.weights[3], d.vis[3])])
    return _ld['x'], _ld['exp']


def site_load_lines(seed):
    """The vis / flags / weights indexers of a v4 data set (flags is an indexer over an indexer), freshly selected,
    indexed from three threads: first accesses of shared indexers + the whole load path at line granularity."""
    def make(s):
        x, exp = load_lines_env(seed)
        d = x.d
        d.select(dumps=slice(1, 6), channels=slice(1, 7))
        for nm in ('_vis', '_weights', '_raw_flags', '_flags', '_excision'):
            ind = getattr(d, nm, None)
            if isinstance(ind, DaskLazyIndexer):
                ind._lock = ilock_like(s, ind._lock)
        fs = [lambda: d.vis[0:2], lambda: d.flags[1:3], lambda: (d.flags[2:4], d.weights[3], d.vis[3])]

        def same(a, b):
            if isinstance(a, tuple):
                return all(same(p, q) for p, q in zip(a, b))
            return a.shape == b.shape and a.dtype == b.dtype and np.array_equal(a, b)

        def check(results):
            for tid in range(3):
                if not same(results[tid][1], exp[tid]):
                    return 'wrong_value; thread %d' % tid
            return None
        return fs, check
    return make


def run_load_lines(ctx):
    try:
        load_lines_env(ctx.seed)
    except Hang as e:
        ctx.disagree('what=single_thread_load;symptom=hangs', dict(site='load_lines', schedule=[]), str(e), None,
                     'indexing vis/flags/weights of a v4 data set from ONE thread does not return')
        return
    with dask.config.set(scheduler='synchronous'):
        run_site(ctx, 'load_lines', site_load_lines(ctx.seed), LOAD_FILES, n=ctx.scale(10, 120), length=1500, cap=ctx.scale(30, 600))


def load_lines_cleanup():
    if 'x' in _ld:
        v4.cleanup(_ld.pop('x'))
        _ld.clear()


# ------------------------------------------------------------------------------------------------ loads

FIXTURES = {
    'even': dict(T=6, F=8, chunks={'correlator_data': (2, 4, 6), 'flags': (3, 8, 4), 'weights': (1, 2, 12)},
                 select=dict(dumps=[1, 6], channels=[1, 7])),
    'odd_scaled': dict(T=7, F=9, need_weights_power_scale=True,
                       chunks={'correlator_data': (2, 4, 5), 'flags': (3, 5, 12), 'weights': (3, 4, 7),
                               'weights_channel': (4, 3)},
                       select=dict(dumps=[0, 7], channels=[0, 9])),
    'lost': dict(T=5, F=6, need_weights_power_scale=True,
                 chunks={'correlator_data': (2, 3, 6), 'flags': (5, 2, 12), 'weights': (2, 6, 4)},
                 lose=[['sdp_l0', 'correlator_data', [1, 0, 1]], ['sdp_l0', 'weights', [0, 0, 2]],
                       ['sdp_l0', 'flags', [0, 1, 0]]],
                 select=dict(dumps=[0, 5], channels=[1, 6])),
}
FIXTURES['cal'] = dict(T=5, F=6, cal=True, chunks={'correlator_data': (2, 4, 12), 'flags': (3, 3, 12), 'weights': (5, 2, 12)},
                       select=dict(dumps=[0, 5], channels=[0, 6]))
# one chunk for everything / a single dump and channel and antenna / flags improved by a separate flag stream
FIXTURES['tiny'] = dict(T=1, F=1, ants=['m000'], chunks={}, select=dict(dumps=[0, 1], channels=[0, 1]))
FIXTURES['l1'] = dict(T=5, F=6, l1=True, chunks={'correlator_data': (2, 4, 4), 'flags': (3, 3, 4), 'weights': (5, 2, 2)},
                      select=dict(dumps=[0, 5], channels=[0, 6]))
INDICES = {'all': np.s_[:], 'fancy': np.s_[::2, [0, 3, 4], 1:], 'dump': np.s_[2],
           # more load shapes (functions of the selected shape): boolean masks, scalars only, nothing at all, negative /
           # strided, ellipsis, an index list on the time axis
           'mask': lambda sh: np.s_[:, np.arange(sh[1]) % 2 == 0, sh[2] - 1],
           'maskT': lambda sh: np.s_[np.arange(sh[0]) % 2 == (sh[0] + 1) % 2],
           'single': lambda sh: np.s_[sh[0] - 1, sh[1] // 2, 0],
           'empty': np.s_[0:0],
           'neg': np.s_[-1, ::3],
           'ell': np.s_[..., 0],
           'list_t': lambda sh: np.s_[sorted({0, sh[0] // 2, sh[0] - 1})]}
EXTRA_INDICES = ('mask', 'maskT', 'single', 'empty', 'neg', 'ell', 'list_t')


def index_of(iname, d):
    idx = INDICES[iname]
    return idx(tuple(int(n) for n in d.shape)) if callable(idx) else idx


def digest(a):
    a = np.ascontiguousarray(a)
    return hashlib.sha1(a.tobytes() + str((a.shape, a.dtype)).encode()).hexdigest()[:16]


class ReadLog:
    """Wraps store.get_chunk: which chunks were read, what they contained when handed out, and the arrays themselves
    (to see afterwards whether some task wrote into what it was given)."""

    def __init__(self, store):
        self.store = store
        self.inner = store.get_chunk
        self.reads = []
        store.get_chunk = self

    def __call__(self, array_name, slices, dtype):
        chunk = self.inner(array_name, slices, dtype)
        key = (array_name, tuple((s.start, s.stop) for s in slices))
        self.reads.append((key, digest(chunk), chunk))
        return chunk

    def take(self):
        out, self.reads = self.reads, []
        return out

    def remove(self):
        del self.store.get_chunk


def build_fixture(name, seed):
    """(under a hang guard: opening a data set with applycal instantiates virtual sensors, which a broken sensor-cache
    lock turns into a self-deadlock of the calling thread)"""
    return guarded(lambda: _build_fixture(name, seed), 150)


def _build_fixture(name, seed):
    p = dict(FIXTURES[name])
    sel = p.pop('select')
    lose = [(a, b, tuple(c)) for a, b, c in p.pop('lose', [])]
    if p.pop('cal', False):
        # a calibration stream with G (per dump), B (per channel) and K products: applycal transforms in the graph
        from fixtures import c13cal
        import math
        r = random.Random(seed)
        F, ants = p['F'], ['m000', 'm001']

        def cval():
            m, ph = r.uniform(0.5, 2.0), r.uniform(-math.pi, math.pi)
            return [m * math.cos(ph), m * math.sin(ph)]
        products = {'G': [[dd, [[cval() for _ in ants] for _ in range(2)]] for dd in (-1, 2)],
                    'B': [[-1, [[[cval() for _ in ants] for _ in range(2)] for _ in range(F)]]],
                    'K': [[0, [[r.uniform(-2e-9, 2e-9) for _ in ants] for _ in range(2)]]]}
        chan_w = 1048576.0
        cal = dict(antlist=ants, pol_ordering=['v', 'h'], center_freq=1284e6, bandwidth=F * chan_w, n_chans=F,
                   products=products)
        p.update(bandwidth=F * chan_w, center_freq=1284e6, telstate_hook=c13cal.cal_hook(cal),
                 archived_override=['sdp_l0', 'cal'], open_kwargs=dict(applycal=['l1.G', 'l1.B', 'l1.K']))
    if p.pop('l1', False):
        nb = 4 * len(p.get('ants', ('m000', 'm001'))) * (len(p.get('ants', ('m000', 'm001'))) + 1) // 2
        rs = np.random.RandomState(seed)
        p.update(l1_flags=rs.randint(0, 256, (p['T'], p['F'], nb)).astype(np.uint8), l1_chunks=(2, 3, nb))
    x = v4.build_v4(seed=seed, lose=lose, **p)
    x.d.select(dumps=slice(*sel['dumps']), channels=slice(*sel['channels']))
    return x


def do_load(d, idx, joint):
    """One load: the three arrays one by one, jointly (twice the same array included: DaskLazyIndexer.get copies), or
    (joint == 2) jointly into arrays the caller provides (`out=`), pre-filled with garbage."""
    if joint == 2:
        kept = [dask_getitem(a.dataset, idx) for a in (d.vis, d.weights, d.flags)]
        out = [np.full(a.shape, 77, a.dtype) for a in kept]
        res = DaskLazyIndexer.get([d.vis, d.weights, d.flags], idx, out=out)
        return [np.asarray(a) for a in res] + [np.asarray(out[0])]
    if joint:
        out = DaskLazyIndexer.get([d.vis, d.weights, d.flags, d.vis], idx)
        return [np.asarray(a) for a in out]
    return [np.asarray(d.vis[idx]), np.asarray(d.weights[idx]), np.asarray(d.flags[idx])]


def scheduler_of(desc):
    if desc['type'] == 'model':
        return ModelScheduler(random.Random(desc['seed']), desc['workers'], desc['policy'], desc['late'])
    return None


_replayed = [0]


def load_case(ctx, x, fixture, iname, joint, desc, ref, ref_reads, rl, seed):
    """Run one load of data set x.d under the scheduler `desc` and compare with the synchronous reference."""
    d = x.d
    idx = index_of(iname, d)
    case = dict(kind='load', fixture=fixture, seed=seed, index=iname, joint=joint, sched=desc)
    names = ('vis', 'weights', 'flags', 'vis_again') if joint != 2 else ('vis', 'weights', 'flags', 'vis_out_param')
    ms = scheduler_of(desc)
    rec = Recorder()
    try:
        if ms is not None:
            with dask.config.set(scheduler=ms):
                got = guarded(lambda: do_load(d, idx, joint))
        else:
            with dask.config.set(scheduler='threads', num_workers=desc['workers']), rec:
                got = guarded(lambda: do_load(d, idx, joint))
    except Exception as e:   # noqa
        ctx.disagree('what=threaded_load;sched=%s;symptom=raises_%s' % (desc['type'], type(e).__name__), case,
                     repr(e)[:200], None, 'a load under a multi-worker schedule raised; the single-threaded load does not')
        rl.take()
        return
    reads = rl.take()
    for nm, a, b in zip(names, ref, got):
        if a.shape != b.shape or a.dtype != b.dtype or not np.array_equal(a, b, equal_nan=(a.dtype.kind in 'fc')):
            where = np.argwhere(np.asarray(a != b))[:1].tolist() if a.shape == b.shape else 'shape'
            ctx.disagree('what=threaded_load;sched=%s;array=%s' % (desc['type'], nm), dict(case, first_diff=where),
                         'differs', None, 'multi-threaded dask load differs from the single-threaded load',
                         spec='arrays identical to the synchronous load')
    # chunk reads: the same chunks, each with the same content as in the single-threaded load (idempotent reads)
    want = {}
    for key, dg, _ in ref_reads:
        want.setdefault(key, dg)
    for key, dg, chunk in reads:
        if key not in want:
            ctx.disagree('what=chunk_reads;symptom=extra_chunk', dict(case, chunk=list(map(str, key))), key, None,
                         'a multi-threaded load read a chunk the single-threaded load does not read')
        elif want[key] != dg:
            ctx.disagree('what=chunk_reads;symptom=content_differs', dict(case, chunk=list(map(str, key))), dg, want[key],
                         'reading the same chunk again returned different content (reads are not idempotent)')
        elif not isinstance(chunk, np.ndarray) or digest(chunk) != dg:
            ctx.extra['chunks_written_into_after_read'] = ctx.extra.get('chunks_written_into_after_read', 0) + 1
    if sorted(k for k, _, _ in reads) != sorted(k for k, _, _ in ref_reads):
        ctx.disagree('what=chunk_reads;symptom=different_multiset', case, len(reads), len(ref_reads),
                     'the multi-threaded load does not read each chunk as often as the single-threaded load')
    # the schedule that was executed is a schedule of the theorem: replay it in the extracted model
    mcases = []
    if ms is not None:
        for r in ms.runs:
            mcases.append((r['graph'], r['events'], r['shadow']))
    else:
        for r in rec.runs:
            g, ev, problems = rec.model_case(r)
            if problems:
                ctx.disagree('what=schedule_replay;symptom=unknown_dependency', case, problems[:3], None,
                             'recorded dask run does not fit the task-graph model', kind='tie')
            mcases.append((g, ev, None))
    # (large graphs: every fourth run only -- the extracted machine indexes tasks by unary numbers)
    _replayed[0] += 1
    mcases = [m for m in mcases if len(m[0]) <= 300 or _replayed[0] % 4 == 0]
    if ctx.model_ok and not ctx.searching and mcases:
        outs = ctx.model([[203, [g, ev]] for g, ev, _ in mcases])
        for (g, ev, shadow), o in zip(mcases, outs):
            if o == [-999]:
                continue
            wf, enabled, alldone, agree, cache, seqv = o
            if not (wf and enabled and alldone and agree):
                ctx.disagree('what=schedule_replay;sched=%s;symptom=wf%d_enabled%d_done%d_agree%d'
                             % (desc['type'], wf, enabled, alldone, agree), dict(case, tasks=len(g), events=len(ev)),
                             [wf, enabled, alldone, agree], [1, 1, 1, 1],
                             'the schedule the real scheduler executed is not a complete schedule of the model', kind='tie')
            elif shadow is not None and [c[0] if c else None for c in cache] != shadow:
                ctx.disagree('what=schedule_replay;symptom=shadow_values', dict(case, tasks=len(g)), shadow[:8],
                             [c[0] if c else None for c in cache][:8],
                             'dependency values captured by the real run differ from the model run', kind='tie')
            ctx.traces_validated += 1
    ctx.note_case(('load', fixture, iname, joint, desc['type'], desc.get('policy'), desc['workers'], desc.get('late'),
                   tuple(map(tuple, ms.runs[-1]['events'][:80])) if ms is not None and ms.runs else None),
                  nontrivial=desc['workers'] > 1,
                  sample=dict(fixture=fixture, index=iname, joint=joint, sched=desc))
    ctx.count('load:%s' % desc['type'])
    ctx.count('load_fixture=%s' % fixture)


def store_writes_case(ctx, x, fixture, iname):
    """The cells DaskLazyIndexer.get's output stage writes (one region per chunk of each kept array, lock=False): they are
    pairwise distinct, so that the theorem applies; the model confirms order independence on a random permutation."""
    d = x.d
    try:
        kept = guarded(lambda: [dask_getitem(a.dataset, index_of(iname, d)) for a in (d.vis, d.weights, d.flags)], 30)
    except Hang:
        return
    except (IndexError, ValueError):
        ctx.count('store_writes_index_rejected')        # (the index does not fit this data set, e.g. dump 2 of a 1-dump set)
        return
    writes = []
    offset = 0
    for arr in kept:
        size = int(np.prod(arr.shape)) if arr.shape else 1
        pos = np.arange(size).reshape(arr.shape) + offset
        starts = [np.cumsum((0,) + c) for c in arr.chunks]
        for ci, block in enumerate(np.ndindex(*[len(c) for c in arr.chunks])):
            region = tuple(slice(int(st[b]), int(st[b + 1])) for st, b in zip(starts, block))
            for p in pos[region].ravel().tolist():
                writes.append([p, (ci * 7 + 1) % 251])
        offset += size
    positions = [w[0] for w in writes]
    nodup = len(set(positions)) == len(positions)
    covered = set(positions) == set(range(offset))
    a = b = None
    if len(writes) <= 450 and ctx.model_ok and not ctx.searching:
        # small enough for the extracted model (positions are unary numbers there): it must agree with the direct count
        perm = list(range(len(writes)))
        ctx.rng.shuffle(perm)
        out = ctx.model([[204, [writes, perm, offset]]])[0]
        if out != [-999]:
            m_nodup, a, b = out
            if bool(m_nodup) != nodup:
                ctx.disagree('what=store_writes;symptom=model_disagrees', dict(kind='store_writes', fixture=fixture, index=iname),
                             nodup, m_nodup, 'distinctness of the written cells: model and direct count differ', kind='tie')
    if not nodup or a != b or not covered:
        ctx.disagree('what=store_writes;symptom=%s' % ('overlap' if not nodup else 'gap' if not covered else 'order_dependent'),
                     dict(kind='store_writes', fixture=fixture, index=iname), [nodup, covered], [1, 1],
                     'the chunk regions written by the unsynchronised output stage overlap or leave gaps')
    ctx.note_case(('store_writes', fixture, iname), nontrivial=True)
    ctx.count('store_writes')


def schedulers_for(ctx, rng):
    descs = [dict(type='threads', workers=w) for w in (1, 2, 3, 4, 8, 16)]
    for policy in ('random', 'greedy', 'fifo', 'lifo', 'reverse'):
        for late in (False, True):
            descs.append(dict(type='model', policy=policy, late=late, workers=rng.choice((1, 2, 3, 5)),
                              seed=rng.randrange(2 ** 30)))
    for _ in range(ctx.scale(1, 30)):
        descs.append(dict(type='model', policy='random', late=rng.random() < 0.5, workers=rng.randint(2, 6),
                          seed=rng.randrange(2 ** 30)))
    return descs


def threaded_vs_sync(ctx):
    rng = ctx.rng
    for fixture in FIXTURES:
        seed = rng.randrange(2 ** 20)
        try:
            x = build_fixture(fixture, seed)
        except Hang as e:
            ctx.disagree('what=single_thread_load;symptom=open_hangs',
                         dict(kind='load', fixture=fixture, seed=seed, index='all', joint=False,
                              sched=dict(type='threads', workers=1)), str(e), None,
                         'opening and selecting a v4 data set from ONE thread does not return')
            continue
        rl = ReadLog(x.store)
        try:
            if ctx.tier == 'thorough' and fixture in ('tiny', 'l1'):
                combos = [(i, rng.choice((False, True, 2))) for i in INDICES]
            elif ctx.tier == 'thorough':
                combos = [(i, j) for i in ('all', 'fancy', 'dump') for j in (False, True)] + \
                    [(i, j) for i in EXTRA_INDICES for j in (rng.choice((False, True)), 2)]
            elif fixture in ('tiny', 'l1'):
                combos = [('all', True), (rng.choice(EXTRA_INDICES), rng.choice((False, 2)))]
            else:
                # the three standing shapes + one more per fixture, drawn from the pool of extra shapes, into `out=` or not
                combos = [('all', False), ('all', True), ('fancy', True), (rng.choice(EXTRA_INDICES), rng.choice((False, True, 2)))]
            for iname, joint in combos:
                try:
                    with dask.config.set(scheduler='synchronous'):
                        ref = guarded(lambda: do_load(x.d, index_of(iname, x.d), joint))
                except Hang as e:
                    ctx.disagree('what=single_thread_load;symptom=hangs',
                                 dict(kind='load', fixture=fixture, seed=seed, index=iname, joint=joint,
                                      sched=dict(type='threads', workers=1)), str(e), None,
                                 'the single-threaded load of a v4 data set does not return')
                    return
                except Exception as e:   # noqa
                    # the single-threaded load itself rejects this shape: nothing to compare (not this property's business)
                    ctx.count('load_reference_raises:%s:%s' % (iname, type(e).__name__))
                    rl.take()
                    continue
                ref_reads = rl.take()
                descs = schedulers_for(ctx, rng)
                if (ctx.tier != 'thorough' and not (iname == 'all' and joint is True and fixture not in ('tiny', 'l1'))) or \
                        (ctx.tier == 'thorough' and (iname in EXTRA_INDICES or fixture in ('tiny', 'l1'))):
                    descs = [q for q in descs if q['type'] == 'model'][::2] + descs[1:4:2]
                ctx.count('load_index=%s' % iname)
                ctx.count('load_joint=%s' % {False: 'separate', True: 'joint', 2: 'joint_out'}[joint])
                for desc in descs:
                    load_case(ctx, x, fixture, iname, joint, desc, ref, ref_reads, rl, seed)
                store_writes_case(ctx, x, fixture, iname)
            store_writes_case(ctx, x, fixture, 'dump')
        finally:
            rl.remove()
            v4.cleanup(x)



# ================================================================================================ extension
# Models of the remaining shared sites (coq/Model/SharedSites.v): sensor cache as a memoised DAG (wire_205), the wildcard
# property map (206), the verified-bucket set (207), the request-level pool (208/209) -- cross-checked against the
# theorems on random inputs and tied to the real objects below.

ZMOD = 1000003


def zmix(fid, args):
    a = (fid * 31 + 7) % ZMOD
    for v in args:
        a = (a * 131 + v + 1) % ZMOD
    return a


def random_dag(rng, n):
    """[deps, fid] per node in topological order + 'is created by a virtual-sensor function' flags; shapes: chains,
    diamonds, the same input fetched twice, raw sensors only, virtual sensors without inputs (Timestamps/mjd)"""
    g, virt = [], []
    shape = rng.choice(('mixed', 'mixed', 'chain', 'flat', 'diamond'))
    for k in range(n):
        if k == 0 or shape == 'flat' or (shape == 'mixed' and rng.random() < 0.35):
            g.append([[], rng.randrange(1000)])
            virt.append(rng.random() < 0.15)
        elif shape == 'chain':
            g.append([[k - 1], rng.randrange(1000)])
            virt.append(True)
        elif shape == 'diamond' and k >= 3:
            g.append([[k - 1, k - 2, k - 1], rng.randrange(1000)])
            virt.append(True)
        else:
            g.append([[rng.randrange(k) for _ in range(rng.randint(1, min(3, k)))], rng.randrange(1000)])
            virt.append(True)
    return g, virt


def dag_values(g):
    out = []
    for deps, fid in g:
        out.append(zmix(fid, [out[d] for d in deps]))
    return out


def memo_eval(ctx, g, virt, wants, sched, locked, o):
    states, cache, counts, seqv, hist = o
    want_vals = dag_values(g)
    bad = None
    if [c[0] if c else None for c in seqv] != want_vals:
        bad = 'seq_values'
    for t, st in enumerate(states):
        w = wants[t]
        if st[0] == 4:
            bad = 'crash'
        elif st[0] == 2 and (w >= len(g) or st[1] != want_vals[w]):
            bad = 'wrong_value'
        elif st[0] == 3 and w < len(g):
            bad = 'keyerror_for_known_name'
    for k, c in enumerate(cache):
        if c and c[0] != want_vals[k]:
            bad = 'cache_inconsistent'
    if locked and any(c > 1 for c in counts):
        bad = 'created_twice_under_lock'
    if bad:
        ctx.disagree('what=model_memo;symptom=%s' % bad,
                     dict(kind='model_memo', graph=g, virt=[int(v) for v in virt], wants=wants, schedule=sched, locked=locked),
                     None, o, 'extracted sensor-cache machine contradicts the theorems', kind='tie')
    return int(not locked and any(c > 1 for c in counts))


def memo_cross_check(ctx):
    """Extracted stack machine on random template DAGs, wants (incl. names nothing creates) and schedules, with and
    without the lock: values = single-thread values, KeyError exactly for unknown names, locked -> created once."""
    if not ctx.model_ok or ctx.searching:
        return
    rng = ctx.rng
    cases = []
    for _ in range(ctx.scale(150, 2500)):
        n = rng.randint(1, 8)
        g, virt = random_dag(rng, n)
        nt = rng.randint(1, 4)
        wants = [rng.randrange(n + 1) for _ in range(nt)]
        sched = [rng.randrange(nt) for _ in range(rng.choice((0, 3, 20, 60, 150, 300)))]
        for locked in (1, 0):
            cases.append((g, virt, wants, sched, locked))
    outs = ctx.model([[205, [g, [int(v) for v in virt], wants, sched, locked]] for g, virt, wants, sched, locked in cases])
    twice = 0
    for (g, virt, wants, sched, locked), o in zip(cases, outs):
        if o == [-999]:
            continue
        twice += memo_eval(ctx, g, virt, wants, sched, locked, o)
        ctx.note_case(('model_memo', str(g), tuple(wants), tuple(sched), locked), nontrivial=len(sched) > 3)
    ctx.extra['model_memo_unlocked_created_twice'] = twice
    ctx.count('model_memo', len(cases))


def props_cross_check(ctx):
    """(a) the REAL SensorCache._get_props driven by one thread for a history of sensor names on a map with wildcard
    entries vs the extracted machine run serially: same key order of the map afterwards, every pattern entry that
    matches is merged; (b) extracted machine under random schedules: locked -> no crash and all pattern keys seen,
    unlocked -> crashes exist (counted)."""
    if not ctx.model_ok or ctx.searching:
        return
    rng = ctx.rng
    crashes = 0
    for _ in range(ctx.scale(60, 800)):
        # keys: ints; patterns 100+j stand for '*sfx_j' (match names whose number % 3 == j), plain keys = sensor names
        nkeys = rng.randint(0, 5)
        keys = []
        for _ in range(nkeys):
            k = rng.choice([100, 101, 102, rng.randrange(20)])
            if k not in keys:
                keys.append(k)
        nt = rng.randint(1, 4)
        names = [rng.randrange(20) for _ in range(nt)]

        def real_key(k):
            return '*_s%d' % (k - 100) if k >= 100 else 'n%d_s%d' % (k, k % 3)
        prop_map = {real_key(k): ({'p%d' % k: k} if k >= 100 else {}) for k in keys}
        order = list(range(nt))
        rng.shuffle(order)
        merged = {}
        for t in order:
            merged[t] = dict(SensorCache._get_props(real_key(names[t]), prop_map))
        serial = [t for t in order for _ in range(40)]
        sched = [rng.randrange(nt) for _ in range(rng.choice((5, 30, 80)))]
        out = ctx.model([[206, [keys, names, serial, 1]], [206, [keys, names, sched, 1]], [206, [keys, names, sched, 0]]])
        if [-999] in out:
            continue
        (st_serial, keys_serial), (st_l, keys_l), (st_u, keys_u) = out
        case = dict(kind='model_props', keys=keys, names=names, order=order, schedule=sched)
        if [real_key(k) for k in keys_serial] != list(prop_map):
            ctx.disagree('what=model_props;symptom=key_order', case, list(prop_map), keys_serial,
                         'keys of the property map after a history of _get_props calls: real dict vs model', kind='tie')
        for t in order:
            st = st_serial[t]
            pats = [k for k in (st[1] if st[0] == 2 else []) if k >= 100 and (names[t] % 3) == k - 100]
            want = {}
            for k in pats:
                want['p%d' % k] = k
            if st[0] != 2 or want != merged[t]:
                ctx.disagree('what=model_props;symptom=merged_entries', case, merged[t], st,
                             'properties merged by the real _get_props vs the pattern entries the model iterates over', kind='tie')
        if any(st[0] == 4 for st in st_l) or any(st[0] == 2 and [k for k in st[1] if k >= 100] != [k for k in keys if k >= 100]
                                                  for st in st_l):
            ctx.disagree('what=model_props;symptom=locked_unsafe', case, None, st_l,
                         'extracted property-map machine contradicts the theorem', kind='tie')
        crashes += any(st[0] == 4 for st in st_u)
        ctx.traces_validated += 1
        ctx.note_case(('model_props', tuple(keys), tuple(names), tuple(sched)), nontrivial=nt > 1)
        ctx.count('model_props')
    ctx.extra['model_props_unlocked_crashes'] = crashes


def verify_cross_check(ctx):
    """extracted verified-bucket machine (never locked) on random server states / buckets / schedules: every finished
    thread has the single-thread outcome, only good buckets are remembered"""
    if not ctx.model_ok or ctx.searching:
        return
    rng = ctx.rng
    cases = []
    for _ in range(ctx.scale(150, 2500)):
        nb = rng.randint(1, 4)
        sts = [rng.choice((0, 1, 2, 2, 5)) for _ in range(nb)]
        nt = rng.randint(1, 5)
        bs = [rng.randrange(nb) for _ in range(nt)]
        sched = [rng.randrange(nt) for _ in range(rng.choice((0, 4, 12, 40, 90)))]
        cases.append((sts, bs, sched))
    outs = ctx.model([[207, list(c)] for c in cases])
    dup = 0
    for (sts, bs, sched), o in zip(cases, outs):
        if o == [-999]:
            continue
        states, remembered, spec, code_ok = o
        bad = None
        if not code_ok:
            bad = 'code_not_ok'
        for t, st in enumerate(states):
            if st[0] == 4 or (st[0] == 2 and st[1] != spec[t]) or spec[t] != (2 if sts[bs[t]] in (0, 1) else 1):
                bad = 'outcome'
        if any(sts[b] in (0, 1) for b in remembered):
            bad = 'bad_bucket_remembered'
        dup += len(remembered) != len(set(remembered))
        if bad:
            ctx.disagree('what=model_verify;symptom=%s' % bad, dict(kind='model_verify', statuses=sts, buckets=bs, schedule=sched),
                         None, o, 'extracted verified-bucket machine contradicts the theorem', kind='tie')
        ctx.note_case(('model_verify', tuple(sts), tuple(bs), tuple(sched)), nontrivial=len(sched) > 4)
    ctx.extra['model_verify_listed_twice'] = dup
    ctx.count('model_verify', len(cases))


def request_cross_check(ctx):
    """request-level pool: random interleavings of the event lists the model builds for random requests (wire_209,
    flags as translated) replayed in the model pool (wire_208): nothing raises, no clash, nothing used unheld, sessions
    accounted for; plus arbitrary (non-conforming) event soups."""
    if not ctx.model_ok or ctx.searching:
        return
    rng = ctx.rng
    for _ in range(ctx.scale(80, 1500)):
        nt = rng.randint(1, 4)
        reqs = []
        for t in range(nt):
            for _ in range(rng.randint(1, 3)):
                outs = [0] * rng.choice((0, 0, 1, 2)) + [rng.choice((1, 1, 2))]
                if rng.random() < 0.1:
                    outs = [0] * rng.randint(0, 3)       # the retries run out
                reqs.append((t, outs))
        evs = ctx.model([[209, [t, outs]] for t, outs in reqs])
        if [-999] in evs:
            continue
        per = {}
        for (t, _), e in zip(reqs, evs):
            per.setdefault(t, []).extend(e)
        merged = []
        pos = {t: 0 for t in per}
        while any(pos[t] < len(per[t]) for t in per):
            t = rng.choice([t for t in per if pos[t] < len(per[t])])
            merged.append(per[t][pos[t]])
            pos[t] += 1
        soup = [[rng.randrange(5), rng.randrange(nt)] for _ in range(rng.randint(0, 25))]
        (free, held, lost, clash, unheld, raised, made), (f2, h2, l2, c2, u2, r2, m2) = ctx.model([[208, merged], [208, soup]])
        fails = sum(1 for _, outs in reqs if not outs or outs[-1] != 1)
        case = dict(kind='model_request', requests=[[t, o] for t, o in reqs], events=merged)
        if clash or unheld or raised or held or made != len(free) + lost or lost != fails or len(set(free)) != len(free):
            ctx.disagree('what=model_request;symptom=conforming', case, None, [free, held, lost, clash, unheld, raised, made],
                         'model pool under an interleaving of request programs contradicts the theorem', kind='tie')
        if c2 or r2 or m2 != len(f2) + len(h2) + l2 or len(set(f2 + h2)) != len(f2 + h2):
            ctx.disagree('what=model_request;symptom=soup', dict(kind='model_request', events=soup), None,
                         [f2, h2, l2, c2, u2, r2, m2], 'model pool under an arbitrary event list contradicts the theorem', kind='tie')
        ctx.note_case(('model_request', str(reqs), str(merged)), nontrivial=nt > 1)
        ctx.count('model_request')


# ------------------------------------------------------------------------------------------------ real sites (extension)

class LoggingILock(ILock):
    """an instrumented re-entrant lock that records which thread took it from the outside (depth 0 -> 1), in order"""

    def __init__(self, sched, log):
        ILock.__init__(self, sched, reentrant=True)
        self.log = log

    def acquire(self, blocking=True, timeout=-1):
        r = ILock.acquire(self, blocking, timeout)
        if self.count == 1:
            self.log.append(self.s.current)
        return r


class CountingGetter(SimpleSensorGetter):
    def __init__(self, name, ts, val, log):
        SimpleSensorGetter.__init__(self, name, ts, val)
        self._log = log

    def get(self):
        self._log.append(self.name)
        return SimpleSensorGetter.get(self)


def site_sensor_dag(ctx, dag_seed):
    """A SensorCache whose virtual sensors form a random DAG (each creating function follows the katdal skeleton:
    fetch the inputs with cache.get, compute, cache[name] = ..., return it), three threads asking twice each for random
    names (one name nothing creates).  Every result must be the single-thread value; the run is replayed serially, in
    the order in which the threads took the cache lock, in the extracted machine (wire_205): same creator-independent
    facts -- which names end up cached, how often each was created."""
    rng = random.Random(dag_seed)
    n = rng.randint(4, 8)
    g, virt = random_dag(rng, n)
    for k in range(n):
        if g[k][0]:
            virt[k] = True
    names = ['n%d' % k for k in range(n)] + ['n%d' % n]
    vals = dag_values(g)
    wants = [[rng.randrange(n + 1) for _ in range(2)] for _ in range(3)]
    ts = np.arange(8.0)

    def make(s):
        created, order = [], []
        raw, virtual = {}, {}

        def mk_virtual(k):
            deps, fid = g[k]

            def create(cache, name):
                got = [cache.get(names[d]) for d in deps]
                out = np.full(8, float(zmix(fid, [int(v[0]) for v in got])))
                created.append(name)
                cache[name] = out
                return out
            return create
        for k in range(n):
            if virt[k]:
                virtual[names[k]] = mk_virtual(k)
            else:
                v = float(zmix(g[k][1], []))
                raw[names[k]] = CountingGetter(names[k], np.array([0.0, 7.0]), np.array([v, v]), created)
        cache = SensorCache(raw, ts, 1.0, virtual=virtual)
        cache._lock = LoggingILock(s, order)

        def reader(t):
            def f():
                out = []
                for w in wants[t]:
                    try:
                        out.append(float(cache.get(names[w])[3]))
                    except KeyError:
                        out.append('KeyError')
                return out
            return f

        def check(results):
            for t in range(3):
                exp = [float(vals[w]) if w < n else 'KeyError' for w in wants[t]]
                if results[t][1] != exp:
                    return 'wrong_value; thread %d got %r instead of %r' % (t, results[t][1], exp)
            counts = [created.count(names[k]) for k in range(n)]
            if max(counts) > 1:
                return 'created_%d_times; %s' % (max(counts), names[counts.index(max(counts))])
            for k in range(n):
                e = cache._raw.get(names[k])
                if isinstance(e, np.ndarray) and not np.array_equal(e, np.full(8, float(vals[k]))):
                    return 'cache_holds_wrong_value; %s' % names[k]
            if ctx.model_ok and not ctx.searching and len(order) == 6:
                seen = {0: 0, 1: 0, 2: 0}
                mwants, serial = [], []
                for t in order:
                    mwants.append(wants[t][seen[t]])
                    seen[t] += 1
                    serial += [len(mwants) - 1] * 120
                o = ctx.model([[205, [g, [int(v) for v in virt], mwants, serial, 1]]])[0]
                if o != [-999]:
                    states, mcache, mcounts, seqv, hist = o
                    cached = [int(isinstance(cache._raw.get(names[k]), np.ndarray)) for k in range(n)]
                    if mcounts != counts or [int(bool(c)) for c in mcache] != cached or any(st[0] not in (2, 3) for st in states):
                        return 'model_differs; created %r cached %r, model created %r cached %r' % (
                            counts, cached, mcounts, [int(bool(c)) for c in mcache])
            return None
        return [reader(0), reader(1), reader(2)], check
    return make


_concat_ref = {}


def site_concat(kind):
    """ConcatenatedSensorCache over two SensorCaches (wildcard property map with time offsets): first extraction of
    different / the same sensors, a sensor that exists in one of the caches only (dummy data is put back), a virtual
    sensor, selection through cc[name]."""
    ts = np.arange(8.0)

    def build(s=None):
        made = []

        def virt(cache, name, **kw):
            base = cache.get('a')
            out = base * 2
            made.append(name)
            cache[name] = out
            return out

        def mk(off, with_c):
            raw = {'a': SimpleSensorGetter('a', np.array([0.0, 7.0]) + off, np.array([10.0, 17.0]) + off),
                   'b': SimpleSensorGetter('b', np.array([0.0, 7.0]) + off, np.array([0.0, 70.0])),
                   'x/pos': SimpleSensorGetter('x/pos', np.array([0.5, 7.5]) + off, np.array([5.0, 12.0])),
                   'y/pos': SimpleSensorGetter('y/pos', np.array([0.5, 7.5]) + off, np.array([50.0, 120.0]))}
            if with_c:
                raw['c'] = SimpleSensorGetter('c', np.array([0.0, 7.0]) + off, np.array([1.0, 8.0]))
            keep = np.array([1, 0, 1, 1, 0, 0, 1, 1], bool)
            return SensorCache(raw, ts + off, 1.0, keep=keep, props={'*/pos': {'time_offset': -0.5}, '*': {}},
                               virtual={'double/a': virt})
        c1, c2 = mk(0.0, True), mk(8.0, False)
        cc = ConcatenatedSensorCache([c1, c2], keep=np.array([1, 0, 1, 1, 0, 0, 1, 1] * 2, bool))
        if s is not None:
            for c in (c1, c2, cc):
                if hasattr(c, '_lock'):
                    c._lock = ilock_like(s, c._lock)
        if kind == 'diff':
            fs = [lambda: cc.get('x/pos'), lambda: cc.get('y/pos'), lambda: cc.get('b')]
        elif kind == 'same':
            fs = [lambda: cc.get('a'), lambda: cc.get('a'), lambda: cc.get('b')]
        elif kind == 'missing':
            fs = [lambda: cc.get('c'), lambda: cc.get('c'), lambda: cc.get('a')]
        elif kind == 'virtual':
            fs = [lambda: cc.get('double/a'), lambda: cc.get('a'), lambda: cc.get('double/a')]
        else:
            fs = [lambda: cc['a'], lambda: cc.get('b', select=True), lambda: ('a' in cc, cc['x/pos'])[1]]
        return fs, cc, (c1, c2), made

    def make(s):
        if kind not in _concat_ref:
            fs, _, _, _ = build()
            _concat_ref[kind] = [np.asarray(f()) for f in fs]
        exp = _concat_ref[kind]
        fs, cc, subs, made = build(s)

        def check(results):
            for tid, e in enumerate(exp):
                got = np.asarray(results[tid][1])
                if got.shape != e.shape or not np.array_equal(got, e, equal_nan=True):
                    return 'wrong_value; thread %d' % tid
            if len(made) > 2:
                return 'virtual_created_%d_times' % len(made)
            return None
        return fs, check
    return make


_v4p = {}
V4P_FILES = ['katdal/sensordata.py', 'katdal/dataset.py', 'katdal/visdatav4.py', 'katdal/categorical.py']


def v4p_env(seed):
    if 'x' not in _v4p:
        rs = np.random.RandomState(seed)
        t0 = 1600000000.0 + 123.0
        extra = []
        for a in ('m000', 'm001'):
            for sfx, lo in (('azim', 10.0), ('elev', 30.0)):
                extra.append(('%s_pos_actual_scan_%s' % (a, sfx),
                              [(t0 - 20.0 + 2.0 * i, lo + 0.3 * i + float(rs.uniform(0, 0.1))) for i in range(20)]))
        for nm, lo in (('anc_air_temperature', 20.0), ('anc_air_pressure', 900.0), ('anc_air_relative_humidity', 40.0),
                       ('anc_mean_wind_speed', 3.0), ('anc_wind_direction', 100.0)):
            extra.append((nm, [(t0 - 20.0 + 5.0 * i, lo + float(rs.uniform(0, 1))) for i in range(10)]))
        _v4p['x'] = guarded(lambda: v4.build_v4(T=6, F=4, seed=seed, extra_sensors=extra), 150)
        d = _v4p['x'].d
        _v4p['exp'] = guarded(lambda: [f() for f in v4p_readers(d)])
    return _v4p['x'], _v4p['exp']


def v4p_readers(d):
    def pack(*arrs):
        return [np.asarray(a).tolist() for a in arrs]
    return [lambda: pack(d.az, d.ra, d.temperature, d.timestamps),
            lambda: pack(d.sensor['m000_pos_actual_scan_azim'], d.dec, d.parangle, d.pressure, d.wind_speed, d.mjd,
                         d.sensor['m001_pos_actual_scan_elev']),
            lambda: pack(d.el, d.lst, d.target_x, d.humidity, d.az)]


def site_v4_props(seed):
    """The sensor-backed properties of a freshly opened v4 data set read from three threads: az/el (virtual over raw
    pointing sensors), ra/dec (one virtual function storing two names), parangle, target_x (virtual over virtual),
    mjd/lst, the weather sensors through get_with_fallback, timestamps."""
    def make(s):
        x, exp = v4p_env(seed)
        d = v4.reopen(x)
        d.sensor._lock = ilock_like(s, d.sensor._lock)

        def check(results):
            for tid in range(3):
                if results[tid][1] != exp[tid]:
                    got = results[tid][1]
                    k = [i for i, (a, b) in enumerate(zip(got, exp[tid])) if a != b] if isinstance(got, list) else '?'
                    return 'wrong_value; thread %d item %s' % (tid, k)
            return None
        return v4p_readers(d), check
    return make


def v4p_cleanup():
    if 'x' in _v4p:
        v4.cleanup(_v4p.pop('x'))
        _v4p.clear()


_s3x = {}


def s3x_env():
    if 's' not in _s3x:
        import logging
        from fixtures.s3mini import MiniS3
        from katdal.chunkstore import npy_header_and_body
        logging.getLogger('urllib3').setLevel(logging.CRITICAL)
        objects, chunks = {}, {}
        for k in range(3):
            a = (np.arange(12, dtype=np.int32).reshape(3, 4) + 100 * k)
            hdr, body = npy_header_and_body(a)
            objects['/bkt/arr/%05d_00000.npy' % (3 * k)] = hdr + body.tobytes()
            chunks[k] = a
        # chunk 3 of bkt is lost; buckets 'void' (listing without keys) and 'gone' (404) have no objects at all
        _s3x['s'] = MiniS3(objects, buckets={'void': 'empty', 'gone': 'missing'},
                           trunc={'/bkt/arr/00000_00000.npy': 1, '/bkt/arr/00003_00000.npy': 2})
        _s3x['chunks'] = chunks
    return _s3x['s'], _s3x['chunks']


S3X_PLANS = {
    # per thread: (bucket, chunk number); expected: the chunk, or the exception a single thread gets
    'retry': [[('bkt', 0), ('bkt', 1)], [('bkt', 1), ('bkt', 0)], [('bkt', 2), ('bkt', 1)]],
    'lost': [[('bkt', 3), ('bkt', 0)], [('bkt', 3), ('bkt', 3)], [('bkt', 2), ('bkt', 3)]],
    'void': [[('void', 0), ('bkt', 2)], [('void', 1), ('void', 0)], [('bkt', 3), ('void', 2)]],
    'gone': [[('gone', 0), ('gone', 0)], [('gone', 1), ('bkt', 3)], [('bkt', 1), ('gone', 2)]],
}
S3X_STATUS = {'bkt': 2, 'void': 1, 'gone': 0}


def site_s3x(ctx, plan_name):
    """S3ChunkStore.get_chunk from three threads against a local endpoint with truncated responses (read retries with a
    back-off sleep while the session stays borrowed), lost chunks (404 -> the bucket is checked through the UNLOCKED
    _verified_buckets set), an empty and a missing bucket.  Every thread must get what a single thread gets (the chunk,
    ChunkNotFound or StoreUnavailable); no session may be in two hands; the events (borrow / send / sleep / give back /
    lose) of every request must be the request program of the model (wire_209) and the whole history, replayed in the
    model pool (wire_208), must account for every session; the verified set must hold good buckets only and the
    outcomes must be those of the extracted machine (wire_207)."""
    from katdal.chunkstore_s3 import S3ChunkStore
    from katdal.chunkstore import ChunkNotFound, StoreUnavailable
    from urllib3.util.retry import Retry
    plan = S3X_PLANS[plan_name]

    def make(s):
        srv, chunks = s3x_env()
        srv.reset_faults()
        store = S3ChunkStore(srv.url, timeout=(2, 5), retries=Retry(connect=0, read=3, status=0, backoff_factor=0.0005))
        pool = store._session_pool
        pool._lock = ilock_like(s, pool._lock)
        events = []          # (kind, thread): 0 get 1 use 2 sleep 3 put 4 drop
        inuse, clashes, made, borrowed = {}, [], [], {}
        inner_factory, inner_get, inner_put = pool._factory, pool.get, pool.put

        class LoggedList(list):
            # the free list: its pop / append happen inside the pool lock, so logging them here gives the TRUE order of
            # the pool operations (a wrapper around get / put could be pre-empted between the operation and the log entry)
            def pop(self, *a):
                events.append((0, s.current))
                return list.pop(self, *a)

            def append(self, x):
                events.append((3, s.current))
                list.append(self, x)

            def insert(self, i, x):
                events.append((3, s.current))
                list.insert(self, i, x)
        pool._pool = LoggedList(pool._pool)

        def factory():
            session = inner_factory()
            events.append((0, s.current))
            made.append(session)
            sid = len(made)
            orig = session.request

            def request(*a, **k):
                me = s.current
                events.append((1, me))
                if inuse.get(sid) is not None and inuse[sid] != me:
                    clashes.append((sid, inuse[sid], me))
                if borrowed.get(me) is not session:
                    clashes.append((sid, 'not_the_borrowed_session', me))
                inuse[sid] = me
                try:
                    resp = orig(*a, **k)
                except BaseException:
                    inuse[sid] = None
                    raise
                close = resp.close

                def closing():
                    if inuse.get(sid) == me:
                        inuse[sid] = None
                    close()
                resp.close = closing
                return resp
            session.request = request
            return session

        def get():
            item = inner_get()
            borrowed[s.current] = item
            return item

        def put(item):
            if borrowed.get(s.current) is item:
                borrowed[s.current] = None
            inner_put(item)
        pool._factory, pool.get, pool.put = factory, get, put
        inner_request = store.request

        def request(*a, **k):
            try:
                return inner_request(*a, **k)
            finally:
                if borrowed.get(s.current) is not None:      # the request left its `with` block by an exception
                    events.append((4, s.current))
                    borrowed[s.current] = None
        store.request = request
        real_sleep = Retry.sleep

        def sleep(self, response=None):
            events.append((2, s.current))
            return real_sleep(self, response)

        def getter(t):
            def f():
                out = []
                Retry.sleep = sleep
                for b, k in plan[t]:
                    try:
                        out.append(store.get_chunk('%s/arr' % b, (slice(3 * k, 3 * k + 3), slice(0, 4)), np.int32).tolist())
                    except (ChunkNotFound, StoreUnavailable) as e:
                        out.append('StoreUnavailable' if isinstance(e, StoreUnavailable) else 'ChunkNotFound')
                return out
            return f

        def expected(b, k):
            if b == 'bkt' and k in chunks:
                return chunks[k].tolist()
            return 'ChunkNotFound' if S3X_STATUS[b] == 2 else 'StoreUnavailable'

        def check(results):
            Retry.sleep = real_sleep
            for t in range(3):
                want = [expected(b, k) for b, k in plan[t]]
                if results[t][1] != want:
                    got = [r if isinstance(r, str) else 'chunk' for r in results[t][1]]
                    return 'wrong_value; thread %d got %r' % (t, got)
            if clashes:
                return 'session_used_by_two_requests; %r' % (clashes[0],)
            good = {srv.url + '/bkt'}
            if not set(store._verified_buckets) <= good:
                return 'bad_bucket_remembered; %r' % sorted(store._verified_buckets)
            lost = sum(1 for k, _ in events if k == 4)
            if len(pool._pool) + lost != len(made) or len({id(x) for x in pool._pool}) != len(pool._pool):
                return 'sessions_not_accounted_for; pool=%d lost=%d made=%d' % (len(pool._pool), lost, len(made))
            if ctx.model_ok and not ctx.searching:
                free, held, mlost, clash, unheld, raised, mmade = ctx.model([[208, [[k, t] for k, t in events]]])[0]
                if clash or unheld or raised or held or mlost != lost or mmade != len(made) or len(free) != len(pool._pool):
                    return 'model_pool_differs; model free=%d lost=%d made=%d clash=%d unheld=%d' % (
                        len(free), mlost, mmade, clash, unheld)
                # every request of every thread is a request program of the model
                for t in range(3):
                    mine = [k for k, th in events if th == t]
                    reqs, cur = [], []
                    for k in mine:
                        cur.append(k)
                        if k in (3, 4):
                            reqs.append(cur)
                            cur = []
                    if cur:
                        return 'model_request_differs; thread %d has an unfinished request %r' % (t, cur)
                    for r in reqs:
                        outs = []
                        for i, k in enumerate(r):
                            if k == 1:
                                nxt = r[i + 1] if i + 1 < len(r) else None
                                outs.append(0 if nxt == 2 else 1 if nxt == 3 else 2)
                        prog = [e[0] for e in ctx.model([[209, [t, outs]]])[0]]
                        if prog != r:
                            return 'model_request_differs; thread %d events %r model %r' % (t, r, prog)
                # the verified-bucket machine: same outcomes for the checks that were made (one per missing object)
                ids = {'gone': 0, 'void': 1, 'bkt': 2}
                checked = [b for t in range(3) for (b, k) in plan[t] if not (b == 'bkt' and k in chunks)]
                bs = [ids[b] for b in checked]
                serial = [i for i in range(len(bs)) for _ in range(8)]
                states, remembered, spec, code_ok = ctx.model([[207, [[0, 1, 2], bs, serial]]])[0]
                mout = ['ChunkNotFound' if st[0] == 2 and st[1] == 1 else 'StoreUnavailable' if st[0] == 2 else 'unfinished'
                        for st in states]
                rout = ['ChunkNotFound' if S3X_STATUS[b] == 2 else 'StoreUnavailable' for b in checked]
                if mout != rout or (2 in remembered) != bool(store._verified_buckets) or not code_ok:
                    return 'model_verify_differs; model %r real %r' % (mout, rout)
            return None
        return [getter(0), getter(1), getter(2)], check
    return make


def ext_site_table(ctx):
    t = {}
    for i in range(ctx.scale(3, 12)):
        t['sensor_dag%d' % i] = (site_sensor_dag(ctx, ctx.seed * 31 + i), ['katdal/sensordata.py'])
    for k in ('diff', 'same', 'missing', 'virtual', 'select'):
        t['concat_' + k] = (site_concat(k), ['katdal/sensordata.py', 'katdal/concatdata.py'])
    for k in S3X_PLANS:
        t['s3x_' + k] = (site_s3x(ctx, k), ['katdal/chunkstore_s3.py'])
    t['v4_props'] = (site_v4_props(ctx.seed), V4P_FILES)
    return t


# ================================================================================================ strengthening round
# State that outlives a call at the sites reached by a multi-threaded load: the block functions of the applycal
# corrections over the ONE CorrectionParams object of the graph; the retry budget slot (adapter.max_retries) of the pooled
# S3 sessions.  Models: coq/Model/PerCall.v (wire_211 .. 213).

def blocks_cross_check(ctx):
    """extracted block machine (per-call state only: NO lock) on random blocks / schedules: every finished block is the
    single-thread block (theorem); the same with the unlocked memo: wrong blocks exist (counted); memo under a lock: safe"""
    if not ctx.model_ok or ctx.searching:
        return
    rng = ctx.rng
    cases = []
    for _ in range(ctx.scale(100, 1500)):
        nt = rng.randint(1, 4)
        blocks = [[sorted(rng.sample(range(8), rng.randint(0, 4))), rng.randrange(2)] for _ in range(nt)]
        sched = [rng.randrange(nt) for _ in range(rng.choice((0, 5, 30, 80, 160)))]
        for memo in (0, 1, 2):
            cases.append((blocks, sched, memo))
    outs = ctx.model([[213, [b, sc, m]] for b, sc, m in cases])
    wrong = 0
    for (blocks, sched, memo), o in zip(cases, outs):
        if o == [-999]:
            continue
        states, spec = o
        bad = any(st[0] == 4 or (st[0] == 2 and st[1] != sp) or (st[0] == 1 and st[1] != sp[:len(st[1])])
                  for st, sp in zip(states, spec))
        if memo == 1:
            wrong += bad
        elif bad:
            ctx.disagree('what=model_blocks;symptom=%s' % ('percall' if memo == 0 else 'locked_memo'),
                         dict(kind='model_blocks', blocks=blocks, schedule=sched, memo=memo), None, o,
                         'extracted block machine contradicts the theorem', kind='tie')
        ctx.note_case(('model_blocks', str(blocks), tuple(sched), memo), nontrivial=len(sched) > 4)
    ctx.extra['model_unlocked_memo_wrong_blocks'] = wrong
    ctx.count('model_blocks', len(cases))


def budget_cross_check(ctx):
    """extracted retry-budget machine: random interleavings of request programs as the TRANSLATED flags make them
    (wire_212) and arbitrary event soups, adapters as translated (wire_211 with []): no attempt with a foreign budget, none
    before its own budget is stored (programs); the same events with ONE adapter for all sessions: foreign budgets exist"""
    if not ctx.model_ok or ctx.searching:
        return
    rng = ctx.rng
    shared_foreign = 0
    for _ in range(ctx.scale(80, 1500)):
        nt = rng.randint(1, 4)
        reqs = []
        for t in range(nt):
            for _ in range(rng.randint(1, 3)):
                outs = [0] * rng.choice((0, 0, 1, 2)) + [rng.choice((1, 1, 2))]
                if rng.random() < 0.1:
                    outs = [0] * rng.randint(0, 3)
                reqs.append((t, 10 * (len(reqs) + 1), outs))           # budgets that tell the requests apart
        evs = ctx.model([[212, [t, v, outs]] for t, v, outs in reqs])
        if [-999] in evs:
            continue
        per = {}
        for (t, _, _), e in zip(reqs, evs):
            per.setdefault(t, []).extend(e)
        merged, pos = [], {t: 0 for t in per}
        while any(pos[t] < len(per[t]) for t in per):
            t = rng.choice([t for t in per if pos[t] < len(per[t])])
            merged.append(per[t][pos[t]])
            pos[t] += 1
        soup = [[rng.randrange(6), rng.randrange(nt), rng.randrange(4)] for _ in range(rng.randint(0, 30))]
        o1, o2, o3 = ctx.model([[211, [[], merged]], [211, [[], soup]], [211, [[0] * 12, merged]]])
        case = dict(kind='model_budget', requests=[[t, v, o] for t, v, o in reqs], events=merged)
        if o1 != [-999] and (o1[0] or o1[1] or o1[2] or o1[3] or o1[4]):
            ctx.disagree('what=model_budget;symptom=conforming', case, None, o1[:5],
                         'retry-budget machine under an interleaving of request programs contradicts the theorem', kind='tie')
        if o2 != [-999] and (o2[0] or o2[2] or o2[4]):
            ctx.disagree('what=model_budget;symptom=soup', dict(kind='model_budget', events=soup), None, o2[:5],
                         'retry-budget machine under an arbitrary event list contradicts the theorem', kind='tie')
        shared_foreign += bool(o3 != [-999] and o3[0])
        ctx.note_case(('model_budget', str(reqs), str(merged)), nontrivial=nt > 1)
        ctx.count('model_budget')
    ctx.extra['model_shared_adapter_foreign_budgets'] = shared_foreign


APPLYCAL_FILES = ['katdal/applycal.py', 'katdal/vis_flags_weights.py', 'katdal/chunkstore.py', 'katdal/chunkstore_npy.py']
_ac = {}


def applycal_fixture(seed):
    """a v4 data set with a calibration stream whose K and B solutions change DURING the observation (three and two
    solution intervals over eight dumps, boundaries inside and between time chunks), opened with applycal=K,B: the
    corrections are categorical, so consecutive dumps of a solution interval are handed the very same solution arrays"""
    from fixtures import c13cal
    import math
    r = random.Random(seed)
    F, ants = 8, ['m000', 'm001']

    def cval():
        m, ph = r.uniform(0.5, 2.0), r.uniform(-math.pi, math.pi)
        return [m * math.cos(ph), m * math.sin(ph)]
    products = {'B': [[dd, [[[cval() for _ in ants] for _ in range(2)] for _ in range(F)]] for dd in (-1, 3)],
                'K': [[dd, [[r.uniform(-2e-9, 2e-9) for _ in ants] for _ in range(2)]] for dd in (-1, 2, 5)]}
    chan_w = 1048576.0
    cal = dict(antlist=ants, pol_ordering=['v', 'h'], center_freq=1284e6, bandwidth=F * chan_w, n_chans=F, products=products)
    return v4.build_v4(T=8, F=F, seed=seed, bandwidth=F * chan_w, center_freq=1284e6, telstate_hook=c13cal.cal_hook(cal),
                       archived_override=['sdp_l0', 'cal'], open_kwargs=dict(applycal=['l1.K', 'l1.B']),
                       need_weights_power_scale=True,
                       chunks={'correlator_data': (2, 4, 12), 'flags': (2, 4, 12), 'weights': (2, 4, 12)})


# what each worker computes: blocks of the calibrated arrays (time chunk, frequency chunk), by chunk-aligned indexing
APPLYCAL_PLANS = {
    # same channels, neighbouring time chunks (a solution interval spans the chunk boundary) + another frequency chunk
    'applycal_vis': [[('vis', 2, 0)], [('vis', 3, 0)], [('vis', 3, 1), ('vis', 0, 1)]],
    # vis / weights / flags of different blocks: the three graphs share ONE corrections array
    'applycal_mixed': [[('weights', 0, 0), ('vis', 1, 0)], [('flags', 0, 1), ('vis', 2, 1)], [('vis', 3, 0), ('weights', 3, 1)]],
}


def applycal_env(seed):
    if 'x' not in _ac:
        x = guarded(lambda: applycal_fixture(seed), 150)
        _ac['x'] = x
        d = x.d
        with dask.config.set(scheduler='synchronous'):
            # (first accesses of the indexers are not what these sites are about: done here, by one thread)
            _ac['arr'] = guarded(lambda: {'vis': d.vis.dataset, 'weights': d.weights.dataset, 'flags': d.flags.dataset})
            _ac['exp'] = {}
            for plan in APPLYCAL_PLANS.values():
                for th in plan:
                    for key in th:
                        if key not in _ac['exp']:
                            _ac['exp'][key] = guarded(lambda: applycal_block(_ac['arr'], key))
    return _ac['x'], _ac['arr'], _ac['exp']


def applycal_block(arrs, key):
    nm, ti, fi = key
    return np.asarray(arrs[nm].blocks[ti, fi, 0].compute(scheduler='synchronous'))


def site_applycal(seed, plan_name):
    """Dask workers computing DIFFERENT blocks of the calibrated visibilities / weights / flags of a v4 data set opened with
    applycal (each thread = one worker running its tasks with the synchronous scheduler): the whole block path -- chunk
    read, corrections block (_correction_block -> calc_correction_per_corrprod over the CorrectionParams object that is
    baked into the graph), apply_*_correction, weight scaling -- at line granularity.  Every block must be bit-identical
    to the block a single thread computes."""
    plan = APPLYCAL_PLANS[plan_name]

    def make(s):
        x, arrs, exp = applycal_env(seed)

        def worker(t):
            def f():
                return [applycal_block(arrs, key) for key in plan[t]]
            return f

        def check(results):
            for t in range(3):
                for key, got in zip(plan[t], results[t][1]):
                    e = exp[key]
                    if got.shape != e.shape or got.dtype != e.dtype or not np.array_equal(got, e, equal_nan=(e.dtype.kind in 'fc')):
                        n = int(np.sum(~((got == e) | ((got != got) & (e != e))))) if got.shape == e.shape else -1
                        return 'wrong_value; thread %d block %s differs from the single-threaded block in %d places' % (t, key, n)
            return None
        return [worker(0), worker(1), worker(2)], check
    return make


def applycal_cleanup():
    if 'x' in _ac:
        v4.cleanup(_ac.pop('x'))
        _ac.clear()


_s3b = {}
S3B_FILES = ['katdal/chunkstore_s3.py', 'katdal/chunkstore.py']


def s3b_env():
    if 's' not in _s3b:
        import logging
        from fixtures.s3mini import MiniS3
        from katdal.chunkstore import npy_header_and_body
        logging.getLogger('urllib3').setLevel(logging.CRITICAL)
        objects, chunks = {}, {}
        for k in range(4):
            a = (np.arange(12, dtype=np.int32).reshape(3, 4) + 100 * k + 1)
            hdr, body = npy_header_and_body(a)
            objects['/bkt/arr/%05d_00000.npy' % (3 * k)] = hdr + body.tobytes()
            chunks[k] = a
        # chunk 0: the body of the first response is cut (katdal's own read retry: the used-up Retry object is stored for the
        # second attempt); chunks 1 and 2: the first request is hung up on (urllib3 retries with the budget it was GIVEN)
        _s3b['s'] = MiniS3(objects, trunc={'/bkt/arr/00000_00000.npy': 1},
                           hangup={'/bkt/arr/00003_00000.npy': 1, '/bkt/arr/00006_00000.npy': 1})
        _s3b['chunks'] = chunks
    return _s3b['s'], _s3b['chunks']


def site_s3b(ctx):
    """Concurrent S3 requests with PER-REQUEST retry budgets: every request may retry once (Retry(connect=1, read=1,
    status=1)), one request overrides its budget (retries=0).  Thread 0 reads a chunk whose first response is truncated
    (its budget is used up and the used-up Retry object stored for the second attempt), threads 1 and 2 read chunks whose
    first request is hung up on (urllib3 retries with the budget the adapter holds at that moment), thread 2 then sends a
    request with retries=0.  The data path (get_chunk_or_default) must hand every thread the chunk a single thread gets
    -- a request that is denied the retry it is entitled to quietly becomes default values.  The events borrow / store
    budget / send / sleep / give back of the run are replayed in the extracted retry-budget machine (wire_211) with the
    adapter-per-session map OBSERVED on the real store and with the map as TRANSLATED."""
    from katdal.chunkstore_s3 import S3ChunkStore
    from urllib3.util.retry import Retry
    import requests

    def build(s, srv):
        store = S3ChunkStore(srv.url, timeout=(2, 5), retries=Retry(connect=1, read=1, status=1, backoff_factor=0.0005))
        pool = store._session_pool
        log = dict(events=[], made=[], adapters=[], budgets=[], foreign=[], last={}, borrowed={})
        if s is not None:
            pool._lock = ilock_like(s, pool._lock)
        cur = (lambda: s.current) if s is not None else (lambda: 0)
        events = log['events']

        class LoggedList(list):
            def pop(self, *a):
                events.append([0, cur(), 0])
                return list.pop(self, *a)

            def append(self, x):
                events.append([3, cur(), 0])
                list.append(self, x)

            def insert(self, i, x):
                events.append([3, cur(), 0])
                list.insert(self, i, x)
        pool._pool = LoggedList(pool._pool)

        def budget_id(obj):
            for i, b in enumerate(log['budgets']):
                if b is obj:
                    return i
            log['budgets'].append(obj)
            return len(log['budgets']) - 1

        def instrument(adapter):
            if getattr(adapter, '_c20', False):
                return
            base = type(adapter)

            class Logged(base):
                @property
                def max_retries(self):
                    return self.__dict__['_mr']

                @max_retries.setter
                def max_retries(self, v):
                    self.__dict__['_mr'] = v
                    log['last'][cur()] = v
                    events.append([5, cur(), budget_id(v)])

                def send(self, *a, **k):
                    me = cur()
                    events.append([1, me, 0])
                    if me in log['last'] and self.__dict__['_mr'] is not log['last'][me]:
                        log['foreign'].append(me)
                    return base.send(self, *a, **k)
            mr = adapter.__dict__.pop('max_retries')
            adapter.__dict__['_mr'] = mr
            adapter.__dict__['_c20'] = True
            adapter.__class__ = Logged
        inner_factory, inner_get, inner_put = pool._factory, pool.get, pool.put

        def factory():
            session = inner_factory()
            events.append([0, cur(), 0])
            log['made'].append(session)
            ad = session.get_adapter(srv.url + '/bkt')
            instrument(ad)
            ids = [id(a) for a in log['adapters']]
            if id(ad) not in ids:
                log['adapters'].append(ad)
            log.setdefault('adapter_of', []).append([id(a) for a in log['adapters']].index(id(ad)))
            return session

        def get():
            item = inner_get()
            log['borrowed'][cur()] = item
            log['last'].pop(cur(), None)
            return item

        def put(item):
            if log['borrowed'].get(cur()) is item:
                log['borrowed'][cur()] = None
            inner_put(item)
        pool._factory, pool.get, pool.put = factory, get, put
        inner_request = store.request

        def request(*a, **k):
            try:
                return inner_request(*a, **k)
            finally:
                if log['borrowed'].get(cur()) is not None:      # the request left its `with` block by an exception
                    events.append([4, cur(), 0])
                    log['borrowed'][cur()] = None
        store.request = request

        def chunk(k):
            return store.get_chunk_or_default('bkt/arr', (slice(3 * k, 3 * k + 3), slice(0, 4)), np.int32, 0).tolist()

        def override():
            url = store.make_url('bkt/arr/%05d_00000.npy' % 9)
            return store.request('GET', url, process=lambda r: len(r.content), retries=0)
        # (each thread ENDS with the request that leaves a used-up / overridden budget behind, or that needs its own)
        fs = [lambda: [chunk(3), chunk(0)], lambda: [chunk(3), chunk(1)], lambda: [chunk(2), override()]]
        return fs, store, log

    def make(s):
        srv, chunks = s3b_env()
        if 'exp' not in _s3b:
            srv.reset_faults()
            fs, _, _ = build(None, srv)
            _s3b['exp'] = [f() for f in fs]          # what ONE thread gets, request by request
        exp = _s3b['exp']
        srv.reset_faults()
        fs, store, log = build(s, srv)

        def check(results):
            for t in range(3):
                if results[t][1] != exp[t]:
                    got = results[t][1]
                    k = [i for i, (a, b) in enumerate(zip(got, exp[t])) if a != b] if isinstance(got, list) else '?'
                    zeros = isinstance(got, list) and any(isinstance(g, list) and not np.any(g) for g in got)
                    return 'wrong_value; thread %d request %s%s' % (t, k, ' (default values instead of the chunk)' if zeros else '')
            if ctx.model_ok and not ctx.searching:
                evs = log['events']
                real_map = log.get('adapter_of', [])
                o_real, o_tr = ctx.model([[211, [real_map, evs]], [211, [[], evs]]])
                if o_real != [-999] and (bool(o_real[0]) != bool(log['foreign']) or o_real[2] or o_real[3] or o_real[4]):
                    return 'model_budget_differs; real run: foreign budgets %r, model on the observed adapters: %r' % (
                        log['foreign'][:3], o_real[:5])
                if o_tr != [-999] and (bool(log['foreign']) or o_tr[0] or o_tr[1]):
                    return 'model_budget_differs; attempts of threads %r were sent with the budget of another request ' \
                           '(adapters per session as observed: %r); the translated model says %r' % (log['foreign'][:3], real_map, o_tr[:2])
            return None
        return fs, check
    return make


def s3_sessions_suspect():
    """do the translator's facts about the pooled sessions (what the factory attaches to them, where the adapter comes
    from, where request() stores the budget) differ from what Model/PerCall.v assumes, or is there a write site in
    chunkstore_s3.py that no model covers?  (pure ast, same code as the translator items)"""
    from fixtures import sharedwrites as sw
    from vh.items import c20 as items
    out = []
    try:
        items.item_session_parts(sw.repo_root(), out)
    except Exception:   # noqa
        return True
    txt = '\n'.join(out)
    ok = ('c20_session_shared_parts : list string := ["auth"%string; "url"%string].' in txt
          and 'c20_adapter_per_session : bool := true' in txt and 'c20_request_sets_budget_first : bool := true' in txt
          and 'c20_auth_state_writes : list string := [].' in txt)
    return not ok or bool(unmodelled_lines(['katdal/chunkstore_s3.py']))


def strengthen_site_table(ctx):
    t = {}
    for k in APPLYCAL_PLANS:
        t[k] = (site_applycal(ctx.seed, k), APPLYCAL_FILES)
    t['s3b'] = (site_s3b(ctx), S3B_FILES)
    return t


# ================================================================================================ round 4
# What the tasks of one graph are handed (Model/ScratchRace.v).  (a) the graph of the scaled / unscaled weights as katdal
# builds it over an in-memory store: every ndarray that is EMBEDDED in the graph (keyword arguments of da.blockwise /
# map_blocks, closure variables) must be bit-identical before and after a load -- a block function that writes into one
# is a data race between any two in-flight tasks, whatever the timing (deterministic, one thread); (b) site kernel_lines /
# kernel_lines_unscaled: the same graph built with the kernel's PYTHON SOURCE (`weight_power_scale.py_func`, what numba
# compiles) so that the line-level scheduler reaches INSIDE the kernel: three workers computing different blocks;
# (c) the extracted kernel machine (wire_214) against the real compiled kernel (divide=False, small integers: exact) and
# against itself under random schedules with a private / a shared scratch buffer; (d) real thread-pool loads of a data set
# with realistic chunk sizes, repeated (the backstop for races inside compiled nogil code).

KERNEL_FILES = ['katdal/vis_flags_weights.py']
_kl = {}
_kpatch = {}


def kernel_patch():
    """every numba kernel of vis_flags_weights.py is replaced by its Python source for the duration of the kernel_lines
    sites (also for wrappers that look the kernel up when the task runs)"""
    import katdal.vis_flags_weights as vfwm
    for nm, obj in list(vars(vfwm).items()):
        if hasattr(obj, 'py_func') and nm not in _kpatch:
            _kpatch[nm] = obj
            setattr(vfwm, nm, obj.py_func)


def kernel_unpatch():
    import katdal.vis_flags_weights as vfwm
    for nm, obj in _kpatch.items():
        setattr(vfwm, nm, obj)
    _kpatch.clear()
    _kl.clear()


def vfw_fixture(n_ants, T, F, chunks, seed, pyfunc=False, scaled=False):
    """ChunkStoreVisFlagsWeights over a DictChunkStore: autocorrelations all different, weights need (un)scaling"""
    import katdal.vis_flags_weights as vfwm
    from katdal.chunkstore_dict import DictChunkStore
    rng = np.random.default_rng(seed)
    i1, i2 = np.triu_indices(n_ants)
    inputs = ['m%03dh' % i for i in range(n_ants)]
    corrprods = np.array([(inputs[a], inputs[b]) for a, b in zip(i1, i2)])
    shape = (T, F, len(corrprods))
    vis = (rng.normal(size=shape) + 1j * rng.normal(size=shape)).astype(np.complex64)
    vis[:, :, i1 == i2] = rng.uniform(1.0, 100.0, size=(T, F, n_ants)).astype(np.float32)
    data = {'correlator_data': vis, 'flags': rng.integers(0, 7, shape, dtype=np.uint8),
            'weights': rng.integers(1, 255, shape, dtype=np.uint8),
            'weights_channel': rng.uniform(1.0, 2.0, shape[:2]).astype(np.float32)}
    store = DictChunkStore(**{'cb1/' + k: v for k, v in data.items()})
    info = {}
    for name, array in data.items():
        ch = tuple((c,) * (n // c) for c, n in zip(chunks, array.shape[:2])) + tuple((n,) for n in array.shape[2:])
        info[name] = {'prefix': 'cb1', 'chunks': ch, 'shape': array.shape, 'dtype': np.lib.format.dtype_to_descr(array.dtype)}
    if pyfunc:
        kernel_patch()          # (undone by kernel_unpatch() when the kernel_lines sites are through)
    return vfwm.ChunkStoreVisFlagsWeights(store, info, corrprods, stored_weights_are_scaled=scaled)


def embedded_arrays(arr):
    """every ndarray object that sits IN the graph of a dask array (arguments baked into the tasks)"""
    import functools
    seen = {}

    def walk(o, d):
        if isinstance(o, np.ndarray):
            seen[id(o)] = o
            return
        if d > 12 or id(o) in seen or isinstance(o, (str, bytes, int, float, complex, bool, type(None), type, np.dtype, np.generic)):
            return
        seen[id(o)] = None
        if isinstance(o, dict):
            for v in o.values():
                walk(v, d + 1)
        elif isinstance(o, (list, tuple, set, frozenset)):
            for v in o:
                walk(v, d + 1)
        elif isinstance(o, functools.partial):
            walk(o.args, d + 1)
            walk(o.keywords, d + 1)
        else:
            for attr in ('args', 'kwargs', 'value', 'func', 'indices', 'dsk', 'io_deps'):
                try:
                    x = getattr(o, attr)
                except Exception:   # noqa
                    continue
                if attr == 'func' or not callable(x):
                    walk(x, d + 1)
            mod = type(o).__module__ or ''
            if hasattr(o, '__dict__') and mod.startswith(('dask', 'katdal', 'toolz')):
                for v in list(vars(o).values()):
                    walk(v, d + 1)
            if getattr(o, '__closure__', None):
                for cell in o.__closure__:
                    try:
                        walk(cell.cell_contents, d + 1)
                    except ValueError:
                        pass
    g = arr.__dask_graph__()
    for layer in getattr(g, 'layers', {'': g}).values():
        walk(layer, 0)
        walk(dict(layer), 0)
    return [x for x in seen.values() if isinstance(x, np.ndarray)]


def graph_args_case(ctx, seed, scaled):
    nm = 'unscaled_weights' if scaled else 'weights'
    case = dict(kind='graph_args', seed=seed, scaled=scaled)
    vfw = vfw_fixture(3, 4, 4, (2, 2), seed, scaled=scaled)
    arr = getattr(vfw, nm)
    em = embedded_arrays(arr)
    before = [digest(x) for x in em]
    with dask.config.set(scheduler='synchronous'):
        first = np.asarray(arr.compute())
        mid = [digest(x) for x in em]
        second = np.asarray(arr.compute())
    changed = [i for i, (x, b) in enumerate(zip(em, mid)) if b != before[i] or digest(x) != b]
    if changed:
        x = em[changed[0]]
        ctx.disagree('what=graph_argument;symptom=written_by_block_function;array=%s' % nm,
                     dict(case, argument=dict(shape=list(x.shape), dtype=str(x.dtype))), 'changed', 'unchanged',
                     'an array that is baked into the dask graph (ONE object for all its tasks and for every load) is written '
                     'into by the block function: a data race between any two tasks in flight',
                     spec='arguments handed to every block are only read')
    if not np.array_equal(first, second, equal_nan=True):
        ctx.disagree('what=graph_argument;symptom=second_load_differs;array=%s' % nm, case, 'differs', None,
                     'loading the same dask array twice (one thread) gives different values')
    # a task that writes into one of its INPUT blocks while that block has another reader (sequential run, task by task)
    from dask.callbacks import Callback

    class InputWatch(Callback):
        def __init__(self):
            self.before, self.hits = {}, []

        def _pretask(self, key, dsk, state):
            deps = state['dependencies'].get(key, ())
            self.before[key] = {d: (digest(state['cache'][d]), state['cache'][d], len(state['dependents'].get(d, ())))
                                for d in deps if isinstance(state['cache'].get(d), np.ndarray)}

        def _posttask(self, key, result, dsk, state, worker_id):
            for d, (dg, v, readers) in self.before.pop(key, {}).items():
                if digest(v) != dg:         # (the scheduler may have released the block by now: we kept a reference)
                    self.hits.append((str(key)[:60], str(d)[:60], readers))
    iw = InputWatch()
    try:
        with dask.config.set(scheduler='synchronous'), iw:
            arr.compute(optimize_graph=False)
    except Exception:   # noqa
        ctx.count('graph_args_inputwatch_failed')
    shared_hits = [h for h in iw.hits if h[2] >= 2]
    ctx.extra.setdefault('block_inputs_written', {})[nm] = [len(iw.hits), len(shared_hits)]
    if shared_hits:
        ctx.disagree('what=graph_argument;symptom=shared_input_block_written;array=%s' % nm, dict(case, task=shared_hits[0][0],
                     block=shared_hits[0][1]), 'changed', 'unchanged',
                     'a task writes into an input block that another task of the graph reads too',
                     spec='arguments handed to every block are only read')
    ctx.extra.setdefault('graph_embedded_arrays', {})[nm] = len(em)
    ctx.note_case(('graph_args', nm, seed), nontrivial=len(em) > 0, sample=dict(array=nm, embedded=len(em)))
    ctx.count('graph_args')
    ctx.traces_validated += 1


def kernel_env(seed, scaled):
    key = (seed, scaled)
    if key not in _kl:
        vfw = vfw_fixture(3, 4, 4, (2, 2), seed, pyfunc=True, scaled=scaled)
        arr = vfw.unscaled_weights if scaled else vfw.weights
        ref = vfw_fixture(3, 4, 4, (2, 2), seed, pyfunc=True, scaled=scaled)
        rarr = ref.unscaled_weights if scaled else ref.weights
        exp = {(ti, fi): np.asarray(rarr.blocks[ti, fi, 0].compute(scheduler='synchronous')) for ti in (0, 1) for fi in (0, 1)}
        _kl[key] = (arr, exp)
    return _kl[key]


def site_kernel_lines(seed, scaled):
    """Three dask workers computing DIFFERENT blocks of the power-scaled weights; the graph holds the Python source of the
    numba kernel, so every line of the kernel (filling the autocorrelation scratch, using it, writing `out`) is a
    scheduling point.  Every block must be bit-identical to the block one thread computes."""
    plan = [[(0, 0)], [(1, 1)], [(0, 1), (1, 0)]]

    def make(s):
        arr, exp = kernel_env(seed, scaled)

        def worker(t):
            def f():
                return [np.asarray(arr.blocks[ti, fi, 0].compute(scheduler='synchronous')) for ti, fi in plan[t]]
            return f

        def check(results):
            for t in range(3):
                for key, got in zip(plan[t], results[t][1]):
                    e = exp[key]
                    if got.shape != e.shape or got.dtype != e.dtype or not np.array_equal(got, e, equal_nan=True):
                        n = int(np.sum(got != e)) if got.shape == e.shape else -1
                        return 'wrong_value; thread %d block %s differs from the single-threaded block in %d places' % (t, key, n)
            return None
        return [worker(0), worker(1), worker(2)], check
    return make


def kernel_cross_check(ctx):
    """wire_214: the kernel machine (single memory accesses) against the real compiled kernel on exact data, and under random
    schedules with a private scratch buffer (theorem: as alone) and a shared one (counted: how often wrong)"""
    from katdal.vis_flags_weights import weight_power_scale, corrprod_to_autocorr
    import inspect
    rng = ctx.rng
    # behavioural tie of the translator's 'written parameters' of the kernel: which array arguments does a call change?
    try:
        from vh.items import c20 as items
        from fixtures import sharedwrites as sw
        import ast as _ast
        tree = _ast.parse(open(sw.repo_root() + '/katdal/vis_flags_weights.py').read())
        fn = [n for n in tree.body if isinstance(n, _ast.FunctionDef) and n.name == 'weight_power_scale'][0]
        listed = set(items._written_params(tree, fn))
    except Exception:   # noqa
        listed = None
    wrong_shared = 0
    cases = []
    for _ in range(ctx.scale(60, 600)):
        n_in = rng.randint(1, 4)
        inputs = ['i%d' % k for k in range(n_in)]
        cps = [(a, b) for a in inputs for b in inputs if a <= b]
        rng.shuffle(cps)                              # unsorted correlation products
        if rng.random() < 0.3 and len(cps) > 1:
            cps.append(rng.choice(cps))               # a duplicate baseline
        autos, i1, i2 = corrprod_to_autocorr(cps)
        ntask = rng.randint(1, 3)
        vis = [[rng.randint(1, 9) for _ in cps] for _ in range(ntask)]
        ws = [[rng.randint(0, 9) for _ in cps] for _ in range(ntask)]
        plen = 2 * len(autos) + 4 * len(cps)
        sched = [rng.randrange(ntask) for _ in range(plen * ntask)] + [t for t in range(ntask) for _ in range(plen)]
        for sh in (0, 1):
            cases.append((cps, autos, i1, i2, vis, ws, sh, sched))
    if ctx.model_ok and not ctx.searching:
        outs = ctx.model([[214, [[int(a) for a in au], [int(a) for a in a1], [int(a) for a in a2], sh, vis, ws, sched]]
                          for _, au, a1, a2, vis, ws, sh, sched in cases])
    else:
        outs = [None] * len(cases)
    for (cps, au, a1, a2, vis, ws, sh, sched), o in zip(cases, outs):
        real = []
        for t in range(len(vis)):
            v = np.array(vis[t], np.complex64).reshape(1, 1, -1)
            w = np.array(ws[t], np.float32).reshape(1, 1, -1)
            kw = {}
            extra = {}
            for pn, par in inspect.signature(getattr(weight_power_scale, 'py_func', weight_power_scale)).parameters.items():
                if pn not in ('vis', 'weights', 'auto_indices', 'index1', 'index2', 'out', 'divide') and par.default is None:
                    extra[pn] = np.zeros(len(au), np.float32)        # an optional work buffer: hand one in
            outb = np.full(v.shape, -1.0, np.float32)
            given = dict(vis=v, weights=w, auto_indices=au, index1=a1, index2=a2, out=outb, **extra)
            before = {k: digest(x) for k, x in given.items()}
            try:
                r = weight_power_scale(v, w, au, a1, a2, out=outb, divide=False, **extra)
            except Exception:   # noqa
                r = weight_power_scale(v, w, au, a1, a2, out=outb, divide=False)
            touched = {k for k, x in given.items() if digest(x) != before[k]}
            if listed is not None and sh == 0 and not touched <= listed:
                ctx.disagree('what=kernel_params;symptom=writes_unlisted_parameter',
                             dict(kind='model_kernel', corrprods=[list(c) for c in cps]), sorted(touched), sorted(listed),
                             'weight_power_scale changes an argument the translator does not list as written', kind='tie')
            real.append([int(x) for x in np.asarray(r).ravel()])
        if o is None or o == [-999]:
            continue
        run_out, solo_out, fin = o
        case = dict(kind='model_kernel', corrprods=[list(c) for c in cps], vis=vis, weights=ws, shared=sh, schedule=sched)
        if solo_out != real:
            ctx.disagree('what=kernel_model;symptom=model_differs', case, real, solo_out,
                         'extracted kernel machine (task alone) differs from the compiled weight_power_scale', kind='tie')
        if not all(fin):
            ctx.disagree('what=kernel_model;symptom=unfinished', case, fin, None, 'schedule did not finish the tasks', kind='tie')
        if sh == 0 and run_out != solo_out:
            ctx.disagree('what=kernel_model;symptom=private_scratch_differs', case, run_out, solo_out,
                         'extracted kernel machine: a race-free run differs from the tasks alone (contradicts the theorem)', kind='tie')
        if sh == 1 and run_out != solo_out:
            wrong_shared += 1
        ctx.note_case(('model_kernel', tuple(map(tuple, cps)), sh, tuple(sched[:40])), nontrivial=len(vis) > 1,
                      sample=dict(corrprods=len(cps), tasks=len(vis), shared=sh))
        ctx.traces_validated += 1
        ctx.count('kernel_model:shared=%d' % sh)
        ctx.count('kernel_model:inputs=%d' % len(au))
    ctx.extra['model_shared_scratch_wrong_runs'] = wrong_shared



def guard_cross_check(ctx):
    """wire_215: the recursion-guard machine on random schedules.  No test / test inside the lock: no thread is ever told its
    name 'depends on itself', every finished thread finds its name cached (the theorem); test outside: counted."""
    if not ctx.model_ok or ctx.searching:
        return
    rng = ctx.rng
    cases = []
    for _ in range(ctx.scale(150, 2000)):
        n = rng.randint(1, 4)
        wants = [rng.randint(0, 2) for _ in range(n)]
        lens = [rng.randint(0, 3) for _ in range(3)]
        r = rng.random()
        if r < 0.5:
            sched = [rng.randrange(n) for _ in range(rng.randint(0, 14 * n))]
        else:
            sched, cur = [], rng.randrange(n)
            for _ in range(rng.randint(4, 14 * n)):
                if rng.random() < 0.2:
                    cur = rng.randrange(n)
                sched.append(cur)
        if rng.random() < 0.5:
            sched += [t for t in range(n) for _ in range(12)]
        for pos in (0, 1, 2):
            cases.append((pos, wants, lens, sched))
    outs = ctx.model([[215, [p, w, l, s]] for p, w, l, s in cases])
    raised = 0
    for (pos, wants, lens, sched), o in zip(cases, outs):
        if o == [-999]:
            continue
        states, busy, cached = o
        bad = [t for t, st in enumerate(states) if st == 8]
        done_uncached = [t for t, st in enumerate(states) if st == 7 and wants[t] not in cached]
        if pos != 2 and (bad or done_uncached):
            ctx.disagree('what=model_guard;symptom=%s' % ('spurious_keyerror' if bad else 'done_but_not_cached'),
                         dict(kind='model_guard', pos=pos, wants=wants, lens=lens, schedule=sched), states, None,
                         'extracted recursion-guard machine: a run with the test inside the lock / without a test contradicts the theorem',
                         kind='tie')
        if pos == 2 and bad:
            raised += 1
        ctx.note_case(('model_guard', pos, tuple(wants), tuple(lens), tuple(sched)), nontrivial=len(wants) > 1,
                      sample=dict(pos=pos, threads=len(wants)))
        ctx.count('model_guard:pos=%d' % pos)
        ctx.traces_validated += 1
    ctx.extra['model_guard_outside_spurious_keyerror_runs'] = raised


STRESS = dict(n_ants=16, T=32, F=1024, chunks=(4, 128))


def stress_loads(ctx, only=None):
    """(d) real thread pools on a data set with realistic chunk sizes (64 chunks of 4 x 128 x 136): loads with 2 / 4 / 8 /
    16 dask workers and three user threads indexing ONE indexer, each repeated, bit-exact against the synchronous load"""
    import threading
    import time
    seed = ctx.seed % 1000 if only is None else only['seed']
    t0 = time.time()
    budget = ctx.scale(3.5, 120.0)
    for scaled in (False, True):
        nm = 'unscaled_weights' if scaled else 'weights'
        if only is not None and only['scaled'] != scaled:
            continue
        fx = guarded(lambda: vfw_fixture(seed=seed, scaled=scaled, **STRESS), 120)
        arr = getattr(fx, nm)
        with dask.config.set(scheduler='synchronous'):
            ref = guarded(lambda: DaskLazyIndexer(arr)[:], 120)
        rounds = ctx.scale(4, 40) if only is None else 12
        for rnd in range(rounds):
            for mode in ((2, 4, 8, 16, 'users') if only is None else (only['mode'],)):
                if time.time() - t0 > budget * (0.55 if not scaled else 1.0) and only is None:
                    break
                case = dict(kind='stress_load', seed=seed, scaled=scaled, mode=mode)
                gots = []
                try:
                    if mode == 'users':
                        ind = DaskLazyIndexer(arr)
                        res = {}

                        def user(k):
                            res[k] = ind[:]
                        with dask.config.set(scheduler='synchronous'):
                            ths = [threading.Thread(target=user, args=(k,), daemon=True) for k in range(3)]
                            for th in ths:
                                th.start()
                            for th in ths:
                                th.join(120)
                        gots = [res.get(k) for k in range(3)]
                    else:
                        with dask.config.set(scheduler='threads', num_workers=mode):
                            gots = [guarded(lambda: DaskLazyIndexer(arr)[:], 120)]
                except Exception as e:   # noqa
                    ctx.disagree('what=threaded_load;sched=stress;symptom=raises_%s' % type(e).__name__, case, repr(e)[:200], None,
                                 'a multi-threaded load raised; the single-threaded load does not')
                    continue
                for g in gots:
                    if g is None or g.shape != ref.shape or not np.array_equal(g, ref, equal_nan=True):
                        nbad = int(np.sum(~((g == ref) | ((g != g) & (ref != ref))))) if g is not None and g.shape == ref.shape else -1
                        ctx.disagree('what=threaded_load;sched=stress;array=%s' % nm, dict(case, differing=nbad), 'differs', None,
                                     'multi-threaded load (real thread pool, realistic chunk sizes) differs from the single-threaded load',
                                     spec='arrays identical to the synchronous load')
                        break
                ctx.note_case(('stress_load', nm, mode, rnd), nontrivial=True, sample=dict(array=nm, mode=str(mode)))
                ctx.count('stress_load:%s' % mode)
                ctx.traces_validated += 1


def round4_site_table(ctx):
    return {'kernel_lines': (site_kernel_lines(ctx.seed % 1000, False), KERNEL_FILES),
            'kernel_lines_unscaled': (site_kernel_lines(ctx.seed % 1000, True), KERNEL_FILES)}

# ------------------------------------------------------------------------------------------------ driver

def site_table(ctx):
    t = {'dask': (site_dask('plain'), ['katdal/lazy_indexer.py']),
         'dask_mixed': (site_dask('mixed'), ['katdal/lazy_indexer.py']),
         'dask_nested': (site_dask('nested'), ['katdal/lazy_indexer.py']),
         'dask_shared_inner': (site_dask('shared_inner'), ['katdal/lazy_indexer.py']),
         'spw': (site_spw(), ['katdal/spectral_window.py']),
         'pool': (site_pool(False), ['katdal/chunkstore_s3.py']),
         'pool_ctx': (site_pool(True), ['katdal/chunkstore_s3.py']),
         's3': (site_s3(), ['katdal/chunkstore_s3.py']),
         'load_lines': (site_load_lines(ctx.seed), LOAD_FILES)}
    for k in ('same', 'alias', 'virtual', 'virtual2', 'props', 'select', 'mixed'):
        t['sensor_' + k] = (site_sensor(k), ['katdal/sensordata.py'])
    t.update(ext_site_table(ctx))
    t.update(strengthen_site_table(ctx))
    t.update(round4_site_table(ctx))
    return t


def _timed(ctx, name, t0):
    import time
    ctx.extra.setdefault('seconds', {})[name] = round(time.time() - t0, 1)


def run(ctx):
    import time
    t0 = time.time()
    for f in ctx.findings:
        w = f.get('witness')
        if w:
            replay_case(ctx, w)
    model_cross_check(ctx)
    pool_histories(ctx)
    memo_cross_check(ctx)
    props_cross_check(ctx)
    verify_cross_check(ctx)
    request_cross_check(ctx)
    blocks_cross_check(ctx)
    budget_cross_check(ctx)
    kernel_cross_check(ctx)
    guard_cross_check(ctx)
    _timed(ctx, 'models', t0)
    t1 = time.time()
    for scaled in (False, True):
        graph_args_case(ctx, ctx.seed % 1000, scaled)
    _timed(ctx, 'graph_args', t1)
    table = site_table(ctx)
    for site, (make, files) in table.items():
        t1 = time.time()
        if site == 'load_lines':
            continue
        if site == 's3':
            run_site(ctx, site, make, files, n=ctx.scale(12, 100), length=400, cap=ctx.scale(24, 400))
        elif site.startswith('s3x_'):
            run_site(ctx, site, make, files, n=ctx.scale(4, 60), length=500, cap=ctx.scale(10, 300))
        elif site == 'v4_props':
            try:
                v4p_env(ctx.seed)
                run_site(ctx, site, make, files, n=ctx.scale(6, 80), length=1500, cap=ctx.scale(24, 500))
            except Hang as e:
                ctx.disagree('what=single_thread_load;symptom=sensor_properties_hang', dict(site='v4_props', schedule=[]), str(e),
                             None, 'reading the sensor-backed properties of a v4 data set from ONE thread does not return')
            finally:
                v4p_cleanup()
        elif site.startswith('sensor_dag'):
            run_site(ctx, site, make, files, n=ctx.scale(12, 200), length=300, cap=ctx.scale(30, 600))
        elif site.startswith('concat_'):
            run_site(ctx, site, make, files, n=ctx.scale(10, 200), length=600, cap=ctx.scale(40, 800))
        elif site.startswith('applycal_'):
            try:
                applycal_env(ctx.seed)
                with dask.config.set(scheduler='synchronous'):
                    run_site(ctx, site, make, files, n=ctx.scale(8, 120), length=2500, cap=ctx.scale(16, 400),
                             read_cap=ctx.scale(16, 400))
            except Hang as e:
                ctx.disagree('what=single_thread_load;symptom=open_hangs', dict(site=site, schedule=[]), str(e), None,
                             'opening a v4 data set with applycal and computing one block from ONE thread does not return')
        elif site.startswith('kernel_lines'):
            try:
                run_site(ctx, site, make, files, n=ctx.scale(3, 120), length=1500, cap=ctx.scale(7, 400), read_cap=0)
            finally:
                kernel_unpatch()
        elif site == 's3b':
            run_site(ctx, site, make, files, n=ctx.scale(4, 80), length=600, cap=ctx.scale(48, 400), read_cap=ctx.scale(4, 100),
                     points_first=True)
            if ctx.tier == 'thorough' or s3_sessions_suspect():
                # what the sessions of the pool have in common is not what was modelled (or the thorough tier): also the
                # schedules in which THREE requests are in flight
                for schedule in two_level_schedules(ctx, site, make, files, ctx.scale(100, 300)):
                    if run_one(ctx, site, make, files, schedule):
                        break
        else:
            run_site(ctx, site, make, files)
        _timed(ctx, site, t1)
    t1 = time.time()
    try:
        run_load_lines(ctx)
    finally:
        load_lines_cleanup()
    _timed(ctx, 'load_lines', t1)
    t1 = time.time()
    threaded_vs_sync(ctx)
    _timed(ctx, 'loads', t1)
    t1 = time.time()
    stress_loads(ctx)
    _timed(ctx, 'stress_loads', t1)
    if 's' in _s3:
        _s3.pop('s').close()
    if 's' in _s3x:
        _s3x.pop('s').close()
    if 's' in _s3b:
        _s3b.pop('s').close()
        _s3b.clear()
    applycal_cleanup()


def replay_load(ctx, case, kind):
    if kind == 'store_writes':
        x = build_fixture(case['fixture'], case.get('seed', 0))
        try:
            store_writes_case(ctx, x, case['fixture'], case['index'])
        finally:
            v4.cleanup(x)
        return
    if kind == 'load':
        x = build_fixture(case['fixture'], case['seed'])
        rl = ReadLog(x.store)
        try:
            try:
                with dask.config.set(scheduler='synchronous'):
                    ref = guarded(lambda: do_load(x.d, index_of(case['index'], x.d), case['joint']))
            except Hang as e:
                ctx.disagree('what=single_thread_load;symptom=hangs', case, str(e), None,
                             'the single-threaded load of a v4 data set does not return')
                return
            ref_reads = rl.take()
            reps = 1 if case['sched']['type'] == 'model' else 10
            for _ in range(reps):
                load_case(ctx, x, case['fixture'], case['index'], case['joint'], case['sched'], ref, ref_reads, rl, case['seed'])
        finally:
            rl.remove()
            v4.cleanup(x)
        return


def replay_case(ctx, case):
    kind = case.get('kind', 'site')
    if kind == 'pool_history':
        pool_history_case(ctx, case['ops'])
        return
    if kind == 'model':
        out = ctx.model([[20, [case['body'], case['threads'], case['schedule'], 1]]])[0]
        states, ncomp = out
        if any(s[0] == 3 or (s[0] == 2 and s[1] != LOCKED_SAFE) for s in states) or ncomp > 1:
            ctx.disagree('what=model_locked_unsafe;site=%s' % case.get('site'), case, None, out, 'replayed model schedule is unsafe')
        ctx.note_case(('model', 'replay'))
        return
    if kind == 'model_memo':
        o = ctx.model([[205, [case['graph'], case['virt'], case['wants'], case['schedule'], case['locked']]]])[0]
        if o != [-999]:
            memo_eval(ctx, case['graph'], case['virt'], case['wants'], case['schedule'], case['locked'], o)
        ctx.note_case(('model_memo', 'replay'))
        return
    if kind in ('model_props', 'model_verify', 'model_request', 'model_blocks', 'model_budget'):
        # (model-only cases: the cross-check of the same seed reproduces them)
        {'model_props': props_cross_check, 'model_verify': verify_cross_check, 'model_request': request_cross_check,
         'model_blocks': blocks_cross_check, 'model_budget': budget_cross_check}[kind](ctx)
        return
    if kind == 'graph_args':
        graph_args_case(ctx, case['seed'], case['scaled'])
        return
    if kind == 'stress_load':
        stress_loads(ctx, only=case)
        return
    if kind == 'model_kernel':
        kernel_cross_check(ctx)
        return
    if kind == 'model_guard':
        guard_cross_check(ctx)
        return
    if kind in ('store_writes', 'load'):
        try:
            replay_load(ctx, case, kind)
        except Hang as e:
            ctx.disagree('what=single_thread_load;symptom=open_hangs', case, str(e), None,
                         'opening and selecting a v4 data set from ONE thread does not return')
        return
    site = case.get('site', 'dask')
    make, files = site_table(ctx)[site]
    try:
        if site == 'load_lines':
            try:
                load_lines_env(ctx.seed)
            except Hang as e:
                ctx.disagree('what=single_thread_load;symptom=hangs', case, str(e), None,
                             'indexing vis/flags/weights of a v4 data set from ONE thread does not return')
                return
            with dask.config.set(scheduler='synchronous'):
                run_one(ctx, site, make, files, case.get('schedule', []), replaying=True)
        elif site == 'v4_props':
            try:
                v4p_env(ctx.seed)
            except Hang as e:
                ctx.disagree('what=single_thread_load;symptom=sensor_properties_hang', case, str(e), None,
                             'reading the sensor-backed properties of a v4 data set from ONE thread does not return')
                return
            run_one(ctx, site, make, files, case.get('schedule', []), replaying=True)
        elif site.startswith('applycal_'):
            try:
                applycal_env(ctx.seed)
            except Hang as e:
                ctx.disagree('what=single_thread_load;symptom=open_hangs', case, str(e), None,
                             'opening a v4 data set with applycal and computing one block from ONE thread does not return')
                return
            with dask.config.set(scheduler='synchronous'):
                run_one(ctx, site, make, files, case.get('schedule', []), replaying=True)
        else:
            run_one(ctx, site, make, files, case.get('schedule', []), replaying=True)
    finally:
        kernel_unpatch()
        load_lines_cleanup()
        v4p_cleanup()
        applycal_cleanup()
        if 's' in _s3b:
            _s3b.pop('s').close()
            _s3b.clear()
        if 's' in _s3:
            _s3.pop('s').close()
        if 's' in _s3x:
            _s3x.pop('s').close()


def replay(ctx, doc):
    replay_case(ctx, doc.get('case', {}))
