"""C10 - (A) events at every quarter of the FIRST and LAST dump through SensorCache.get / cache[name] / d.sensor[...]
(the dump-edge convention: dump k = (previous end, mid_k + period/2], theorems C10_dump_edge_convention,
C10_last_dump_event_counts) and (B) HISTORIES of conversions over one getter (theorems C10_history_independent,
C10_cache_history, C10_conversion_keeps_raw_samples): the original name, aliases sharing the getter
(SensorCache.add_aliases), a second cache over the same getters, direct calls of sensor_to_categorical on getter.get();
transforms that are NOT idempotent, time offsets, wrapped (array-valued) and plain values.  After every step the getter's
raw samples (timestamps, values - contents AND identity of the wrapper objects -, statuses) must be what they were and the
result must be the conversion of the ORIGINAL samples with the properties of that name.
"""
import numpy as np

from props import c10

# transforms that are not idempotent (a second application moves the value again) next to idempotent ones
TRANSFORMS = [[(1, 2), (2, 3)], [(1, 2), (2, 1)], [(3, 4), (4, 1)], [(1, 3), (3, 2), (2, 4)], [(2, 1)], None]


# ------------------------------------------------------------------------------------------------ (A) quarter placements

def quarter_positions(ends, P):
    """-> (positions around the first dump, positions around the last dump), model time units (P divisible by 4)."""
    q = P // 4
    s0 = ends[0] - P
    first = [s0 - q, s0, s0 + q, s0 + 2 * q, s0 + 3 * q, ends[0], ends[0] + q]
    sl = ends[-2] if len(ends) > 1 else s0
    mid = ends[-1] - P // 2
    last = sorted({sl, sl + q, mid - q, mid, mid + q, ends[-1] - 1, ends[-1], ends[-1] + 1, ends[-1] + q, ends[-1] + P})
    return first, last


def edge_cases(rng, limit):
    out = []
    for N in (1, 2, 3):
        for P in (4, 8):
            for irregular in (False, True):
                if irregular and N == 1:
                    continue
                ends = [P * k for k in range(N)]
                if irregular:
                    ends = [ends[0]] + [e + (P // 4) * (1 if k % 2 else -1) for k, e in enumerate(ends[1:])]
                first, last = quarter_positions(ends, P)
                for fp in [None] + first:
                    for lp in [None] + last:
                        for prior in (False, True):
                            ev = ([(ends[0] - 2 * P, 1)] if prior else []) + ([(fp, 2)] if fp is not None else []) + \
                                 ([(lp, 4)] if lp is not None else [])
                            ev = sorted(ev, key=lambda p: p[0])
                            if len({t for t, _ in ev}) < len(ev):
                                continue
                            for greedy, init in ((None, None), ([2], None), ([4], 5), ([], 5), ([2], 2)):
                                out.append(dict(ts=[t for t, _ in ev], vals=[v for _, v in ev], ends=ends, P=P, tr=None,
                                                init=init, greedy=greedy, ar=None, path='cache', categ=None,
                                                edge=[fp, lp]))
    rng.shuffle(out)
    out = out[:limit]
    for n, c in enumerate(out):
        c['rep'] = ('str', 'int', 'warr')[n % 3]
        if c['rep'] == 'warr' and not c['ts']:
            c['rep'] = 'str'
        if c['rep'] == 'warr' and c['greedy']:
            c['raw_greedy'] = bool(n % 2)
        if n % 5 == 0 and c['ts']:
            c['off'] = rng.choice([-1, 1])          # the offset moves the events across the quarter positions
            c['ts'] = [t - c['off'] for t in c['ts']]
    return out


def run_edges(ctx):
    cases = edge_cases(ctx.rng, ctx.scale(2500, 40000))
    for c in cases:
        e = c.pop('edge')
        P = c['P']
        first, last = quarter_positions(c['ends'], P)
        if e[0] is not None:
            ctx.count('edge:first_dump:q=%d/4' % ((e[0] - (c['ends'][0] - P)) * 4 // P))
        if e[1] is not None:
            d = e[1] - c['ends'][-1]
            ctx.count('edge:last_dump:' + ('after_end' if d > 0 else 'on_end' if d == 0 else
                                            'second_half' if e[1] > c['ends'][-1] - P // 2 else 'mid_or_first_half'))
    c10.run_cases(ctx, cases, 'edge')


def edge_times(rng, ends, P, m):
    """Replacement of c10_tables.gen_times: sensor events of a data set on the quarter positions of its first / last dump."""
    first, last = quarter_positions(ends, P)
    pool = first + last + [ends[0] - 2 * P]
    k = rng.randint(1, 4)
    ts = sorted(set(rng.choice(pool) for _ in range(k)) | ({rng.choice(last[3:8])} if rng.random() < 0.7 else set()))
    return ts


def run_dataset_edges(ctx):
    from props import c10_tables
    if ctx.searching and not ctx.model_ok:
        return
    orig = c10_tables.gen_times
    c10_tables.gen_times = edge_times
    try:
        for fmt, n in (('v4', ctx.scale(1, 10)), ('v3', ctx.scale(1, 10)), ('v2', ctx.scale(1, 10))):
            for _ in range(n):
                try:
                    c10_tables.run_dataset(ctx, fmt, ctx.rng, ctx.rng.randint(2, 4))
                    ctx.count('dataset_edge:' + fmt)
                except Exception as e:   # noqa: BLE001
                    ctx.count('dataset:%s:build_failed:%s' % (fmt, type(e).__name__))
    finally:
        c10_tables.gen_times = orig


# ------------------------------------------------------------------------------------------------ (B) histories

def gen_hist(rng):
    """One getter, 2-3 names (0 = the original, others = aliases) with their properties, a sequence of steps."""
    messy = rng.random() < 0.4
    base = c10.gen_cache_case(rng) if messy else c10.gen_case(rng, 5, 6)
    base.pop('scalar', None)
    rep = rng.choice(['warr', 'warr', 'wtup', 'str', 'int'])
    if not base['ts']:
        base['ts'], base['vals'] = [base['ends'][0]], [1]
        base.pop('status', None)
    if not messy:
        keep, seen = [], set()
        for t, v in zip(base['ts'], base['vals']):
            if t not in seen:
                seen.add(t)
                keep.append((t, v))
        base['ts'], base['vals'] = [t for t, _ in keep], [v for _, v in keep]
    raw = dict(ts=base['ts'], vals=base['vals'], ends=base['ends'], rep=rep, status=base.get('status') if messy else None)
    if 'P' in base:
        raw['P'] = base['P']
    nnames = rng.choice([2, 2, 3])
    p0 = dict(tr=rng.choice(TRANSFORMS), init=rng.choice([None, None, 5, 3]), greedy=rng.choice([None, [], [3], [3, 4], [2]]),
              ar=rng.choice([None, False, True]), off=rng.choice([None, None, 1, -2, 2]))
    names = [p0]
    for _ in range(nnames - 1):
        p = dict(p0)
        if rng.random() < 0.5:     # an alias with its own properties
            p.update(tr=rng.choice(TRANSFORMS), off=rng.choice([None, 1, -1]), greedy=rng.choice([None, [3], [1]]))
        names.append(p)
    steps = []
    for _ in range(rng.randint(2, 5)):
        r = rng.random()
        if r < 0.6:
            steps.append(['get', rng.randrange(nnames)])
        elif r < 0.75:
            steps.append(['newcache'])
        elif not messy:
            steps.append(['direct', rng.randrange(nnames)])
        else:
            steps.append(['get', rng.randrange(nnames)])
    if rng.random() < 0.5:         # the pattern of the defect class: the same conversion twice
        n = rng.randrange(nnames)
        steps = [['get', n], ['get', (n + 1) % nnames], ['newcache'], ['get', n]] + steps[:1]
    return dict(path='hist', raw=raw, names=names, steps=steps)


def op_case(h, n, direct=False):
    """The single-conversion case (as understood by c10.compare / wire_103) of name n over the ORIGINAL samples."""
    r, p = h['raw'], h['names'][n]
    c = dict(ts=list(r['ts']), vals=list(r['vals']), ends=list(r['ends']), rep=r['rep'], path='cache', categ=None,
             tr=[tuple(x) for x in p['tr']] if p['tr'] is not None else None, init=p['init'], greedy=p['greedy'], ar=p['ar'])
    if 'P' in r:
        c['P'] = r['P']
    if r.get('status') is not None:
        c['status'] = list(r['status'])
    if p.get('off') is not None and not direct:
        c['off'] = p['off']
    if r['rep'] in ('warr', 'wtup') and p['greedy']:
        c['raw_greedy'] = True
    return c


def snapshot(rep, data):
    from katdal.categorical import ComparableArrayWrapper
    vals = list(data.value)
    return dict(ts=[float(t) for t in data.timestamp], ids=[c10.dec(rep, v) for v in vals],
                objs=[id(v) if isinstance(v, ComparableArrayWrapper) else None for v in vals],
                inner=[id(v.unwrapped) if isinstance(v, ComparableArrayWrapper) else None for v in vals],
                status=None if data.status is None else [bytes(s) for s in data.status])


def decode(rep, c, sel):
    ev = [int(e) for e in c.events]
    ind = [int(i) for i in c.indices]
    uniq = [c10.dec(rep, v) for v in c.unique_values]
    per = [c10.dec(rep, v) for v in c[:]]
    if sel is not None and not isinstance(sel, str):
        sel = [c10.dec(rep, v) for v in sel]
    return ('ok', ev, ind, uniq, per, sel)


def segments(h):
    segs, seg = [], []
    for st in h['steps']:
        if st[0] == 'newcache':
            segs.append(seg)
            seg = []
        elif st[0] == 'get':
            seg.append(st[1])
    segs.append(seg)
    return [sg for sg in segs if sg]


def hist_wires(h):
    """-> (wire_103 case per converting step, wire_106 case per cache segment)."""
    r = h['raw']
    rep = r['rep']
    steps = [c10.wire(op_case(h, st[1], st[0] == 'direct')) for st in h['steps'] if st[0] != 'newcache']
    P = c10.period_of(r)
    stt = r.get('status')
    rawl = [[t, v, [ord(ch) for ch in (c10.STATUSES[stt[i]] if stt is not None else '')]]
            for i, (t, v) in enumerate(zip(r['ts'], r['vals']))]
    pts = []
    for n in range(len(h['names'])):
        oc = op_case(h, n)
        pts.append([c10._opt(oc.get('off')), [] if oc['tr'] is None else [[list(x) for x in oc['tr']]], c10._opt(oc['init']),
                    oc['greedy'] or [], [] if oc['ar'] is None else [1 if oc['ar'] else 0]])
    mids = [e - P // 2 for e in r['ends']]
    segs = [[106, [rawl, 1 if stt is not None else 0, c10.default_id(rep), mids, P, pts, sg]] for sg in segments(h)]
    return steps, segs


def run_hist(ctx, h, mos=None, m106=None):
    from katdal.categorical import CategoricalData, sensor_to_categorical
    from katdal.sensordata import SensorCache, SimpleSensorGetter
    r = h['raw']
    rep = r['rep']
    ts, vals, mid, period, _ = c10.real_inputs(dict(op_case(h, 0), tr=None, init=None, greedy=None))
    status = None if r.get('status') is None else np.array([c10.STATUSES[k] for k in r['status']], dtype='S12')
    getter = SimpleSensorGetter('x_raw', ts, vals, status)
    before = snapshot(rep, getter.get())
    kws = []
    for n, p in enumerate(h['names']):
        oc = op_case(h, n)
        kw = c10.real_inputs(oc)[4]
        if oc.get('off') is not None:
            kw['time_offset'] = oc['off'] / 2.0
        kws.append(kw)
    nm = ['x_raw'] + ['x_al%d' % k for k in range(1, len(h['names']))]

    def new_cache():
        cache = SensorCache({'x_raw': getter}, mid, period, props={a: kw for a, kw in zip(nm, kws)})
        for a in nm[1:]:
            cache.add_aliases(a[2:], 'raw')
        return cache
    cache = new_cache()
    converted = set()            # (cache generation is irrelevant: what matters is how often the samples were converted)
    nconv = 0
    mos = list(mos) if mos is not None else None
    for k, st in enumerate(h['steps']):
        if st[0] == 'newcache':
            cache = new_cache()
            converted = set()
            continue
        n = st[1]
        direct = st[0] == 'direct'
        oc = op_case(h, n, direct)
        kind = 'step=%s;conversions_before=%s;%s' % (st[0], '0' if nconv == 0 else '1+',
                                                      'own_props' if h['names'][n] != h['names'][0] or n == 0 else 'alias_same_props')
        try:
            if direct:
                d = getter.get()
                kw = {a: b for a, b in kws[n].items() if a != 'time_offset'}
                c = sensor_to_categorical(d.timestamp, d.value, mid, period, **kw)
                sel = None
                nconv += 1
            else:
                if n not in converted:
                    nconv += 1
                    converted.add(n)
                c = cache.get(nm[n])
                try:
                    sel = cache[nm[n]]
                except Exception as e:   # noqa: BLE001
                    sel = 'err:' + type(e).__name__
            ob = decode(rep, c, sel) if isinstance(c, CategoricalData) else ('num',)
            if direct and ob[0] == 'ok':
                ob = ob[:5] + (ob[4],)      # (no selection on a direct call: nothing to compare with the model's cache[name])
        except Exception as e:   # noqa: BLE001
            ob = ('err', type(e).__name__ + ': ' + str(e)[:80])
        case = dict(oc, hist=h, step=k)
        mo = mos.pop(0) if mos else (ctx.model([c10.wire(oc)])[0] if ctx.model_ok and mos is None else None)
        c10.compare(ctx, case, mo, ob=ob, prefix='hist;%s;' % kind)
        after = snapshot(rep, getter.get())
        if after != before:
            what = [f for f in ('ts', 'ids', 'objs', 'inner', 'status') if after[f] != before[f]]
            ctx.disagree('hist;%s;rep=%s;symptom=raw_samples_mutated:%s' % (kind, 'wrapped' if rep in ('warr', 'wtup') else 'plain',
                                                                         '+'.join(what)),
                         dict(path='hist', hist=h, step=k), {f: after[f] for f in what if f in ('ts', 'ids', 'status')},
                         {f: before[f] for f in what if f in ('ts', 'ids', 'status')},
                         'the conversion changed the raw samples of the getter (%s): aliases and later conversions read them again '
                         '(theorem C10_conversion_keeps_raw_samples)' % ', '.join(what))
            before = after       # report each change once
        ctx.count('hist:step=%s' % st[0])
        ctx.count('hist:%s' % kind.split(';', 1)[1])
    # tie of the history machine itself (cache + aliases): samples after the history, every result = conversion of the original
    for mo in (m106 or []):
        if mo[0] != [[t, v] for t, v in zip(r['ts'], r['vals'])] or mo[1] != mo[2]:
            ctx.disagree('hist;symptom=tie_history_machine', dict(path='hist', hist=h), mo[1], mo[2],
                         'the history machine of the model (run_cache over the regenerated store lists) does not leave the '
                         'samples alone / does not return the conversions of the original samples', kind='tie')
        ctx.count('hist:wire_106_segments')
    ctx.note_case(('hist', repr(h)), nontrivial=any(p['tr'] for p in h['names']) and len(h['steps']) > 1, sample=None)
    ctx.count('hist:rep=' + rep)
    if any(p['tr'] in TRANSFORMS[:4] for p in h['names']):
        ctx.count('hist:non_idempotent_transform')
    if any(p.get('off') for p in h['names']):
        ctx.count('hist:time_offset')


FIXED_HISTS = [
    # the same wrapped sensor converted twice with a transform that is not idempotent (original, alias, new cache)
    dict(path='hist', raw=dict(ts=[1, 3], vals=[1, 2], ends=[2, 4], rep='warr', status=None),
         names=[dict(tr=[(1, 2), (2, 3)], init=None, greedy=None, ar=None, off=None)] * 2,
         steps=[['get', 0], ['get', 1], ['newcache'], ['get', 0], ['direct', 0]]),
    dict(path='hist', raw=dict(ts=[1, 3], vals=[1, 2], ends=[2, 4], rep='str', status=None),
         names=[dict(tr=[(1, 2), (2, 3)], init=None, greedy=None, ar=None, off=None)] * 2,
         steps=[['direct', 0], ['get', 0], ['get', 1], ['newcache'], ['get', 1]]),
    # a time offset applied by the original and by its alias
    dict(path='hist', raw=dict(ts=[1, 3], vals=[1, 2], ends=[2, 4], rep='int', status=None),
         names=[dict(tr=None, init=None, greedy=None, ar=None, off=2)] * 2,
         steps=[['get', 0], ['get', 1], ['newcache'], ['get', 0]]),
    # unsorted samples with statuses: the clean-up must not sort / filter the getter's arrays
    dict(path='hist', raw=dict(ts=[3, 1, 1], vals=[1, 2, 3], ends=[2, 4], rep='wtup', status=[0, 3, 0]),
         names=[dict(tr=[(1, 2), (2, 1)], init=5, greedy=[3], ar=None, off=None),
                dict(tr=[(1, 2), (2, 1)], init=5, greedy=[3], ar=None, off=None)],
         steps=[['get', 1], ['get', 0], ['newcache'], ['get', 1]]),
]


def run_hists(ctx, hs):
    if not ctx.model_ok:
        for h in hs:
            run_hist(ctx, h, mos=[])
        return
    ws = [hist_wires(h) for h in hs]
    flat = [w for st, _ in ws for w in st]
    outs = ctx.model(flat) if flat else []
    flat6 = [w for _, sg in ws for w in sg]
    try:
        outs6 = ctx.model(flat6) if flat6 and not ctx.searching else None
        if outs6 is not None and any(o == [-999] for o in outs6):
            outs6 = None
    except Exception:   # noqa: BLE001  (a driver without wire_106: the per-step comparison is the check)
        outs6 = None
    if outs6 is None:
        ctx.count('hist:wire_106_unavailable')
    i = j = 0
    for h, (st, sg) in zip(hs, ws):
        run_hist(ctx, h, mos=outs[i:i + len(st)], m106=outs6[j:j + len(sg)] if outs6 is not None else None)
        i += len(st)
        j += len(sg)


def run(ctx):
    run_edges(ctx)
    run_dataset_edges(ctx)
    run_hists(ctx, FIXED_HISTS + [gen_hist(ctx.rng) for _ in range(ctx.scale(1500, 20000))])


def replay(ctx, case):
    h = case.get('hist')
    if h is None:
        return c10.replay(ctx, dict(doc_case=case))
    for p in h['names']:
        if p.get('tr') is not None:
            p['tr'] = [tuple(x) for x in p['tr']]
    run_hists(ctx, [h])
