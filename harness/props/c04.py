"""C04 — two-stage lazy indexing of dask arrays equals composed outer indexing, lazily (correspondence + search)."""
import itertools
import warnings

import numpy as np

SX_ERR = [-999]

RULE = ('random base arrays (1-4 axes, 0-7 elements per axis, element = C-order position, random chunking) behind '
        'da.from_array or a recording DictChunkStore.get_dask_array; 1-3 nested DaskLazyIndexers, each with a random '
        'first-stage index (per axis int / slice with any start,stop,step / boolean mask / sorted, unsorted, repeated, '
        'negative integer lists / omitted) and 0-2 transforms (dtype-changing, last-axis-dropping); a random second-stage '
        'index; single and joint get; caller index arrays mutated after construction. A case is one '
        '(shape, levels, second-stage index); non-trivial when the result is non-empty and some index is not a full slice; '
        'distinct by (shape, levels, index). Separate streams: slice.indices oracle (exhaustive n<=7), _range_to_slice, '
        '_simplify_index, chunk read sets of contiguous requests (1-3 stages incl. get_dask_array(index=...)); joint '
        'worlds: 1-3 recording chunk stores each holding arrays x and y of one shape/chunking/dtype but different '
        'contents, 2-4 indexers over them (same selection on another store / another array, nested over an earlier '
        'indexer with other transforms, overlapping selections of one stored array, get_dask_array(index=...) views, '
        'shared or separately created dask arrays), fetched by ONE DaskLazyIndexer.get(...) (with and without out=) and '
        'compared output by output with the model, the spec, numpy and the one-by-one fetch; for contiguous worlds the '
        'get_chunk calls of the joint request are counted per store. A joint case is non-trivial when two indexers '
        'differ only in the store or share a stored array; distinct by (shape, chunks, indexers, index). '
        'Fault histories (stream lazy): 1-4 real DaskLazyIndexer objects (65 % nested over an earlier one, parents shared; '
        '6 % with a malformed keep) with 0-3 instrumented transforms each, over da.from_array or a recording store; 2-6 '
        'requests through .dataset/.shape/.dtype/len/str/iteration/indexer[k]/get([1-3 objects], k), 55 % of them with 1-2 '
        'transform calls of the chain of the target raising during that request; the caller overwrites its index arrays '
        'in 12 % of the gaps; per request the outcome, the delivered value, the transform calls made and the chunks read '
        'before an element was requested are compared with the atomic, all-or-nothing, cached computation. A history is '
        'non-trivial when a request after a faulted one exists and some object has >= 2 transforms; distinct by '
        '(shape, objects, history). Store histories (stream store): 1-2 recording chunk stores, 1-3 indexers (45 % nested) '
        'with contiguous non-empty first-stage indices and 0-2 transforms, a history of 4-14 public accesses (construction, '
        '.shape, .dtype, .dataset, len, str, repr, indexer[k], get([..], k); 20 % of the later steps repeat an earlier '
        'request); after every access the increment of the stores\' get_chunk logs (store, array, slices) is compared with '
        'the store-history model and a numpy statement of "whole chunks overlapping the region, each once", non-fetch '
        'accesses must read nothing and advertise the numpy shape/dtype. A store history is non-trivial with >= 2 element '
        'requests and an advertisement; distinct by (shape, chunks, indexers, history).')
ASSUMPTIONS = ['numpy outer indexing (np.take per axis) is the oracle; dask own slicing/take/cull/store are exercised, not modelled',
               'transforms of the correspondence: elementwise 2x+1 -> float64, x[..., 0], elementwise -x -> int32',
               'read sets are compared only for requests whose composed region is non-empty on every axis (F34 otherwise)',
               'fault histories: a fault is an exception raised by a transform call (transient, per request); requests do '
               'not overlap in time (thread interleavings of `dataset` are checked by C20); dataset.compute() over a '
               'zero-length block left by a stepped slice is finding F54 (dask)',
               'joint reads: indexers of one stored array derive from one get_dask_array result or from identical calls '
               '(same dask name); two different index= views of one stored array are separate dask arrays and share nothing']

DTYPES = {0: np.dtype('int64'), 1: np.dtype('float64'), 2: np.dtype('int32')}
F20_SIG = 'slice(step<0,start<-n);symptom=wrong_data'
F21_SIG = 'reads;empty_region;symptom=over_read'
F23_SIG = 'cull;symptom=raises(Missing dependency)'
F24_SIG = 'dask_take;empty_array;symptom=raises(range() arg 3 must not be zero)'
F22_SIG = 'joint;duplicate_indexer;symptom=output_not_written'
F48_SIG = 'joint;culled_selection;symptom=chunk_read_twice'
F54_SIG = 'dataset.compute();zero_length_block_after_stepped_slice;symptom=wrong_data'


def TR(code):
    if code == 0:
        return lambda a: (a * 2 + 1).astype(np.float64)
    if code == 1:
        return lambda a: a[..., 0]
    return lambda a: (-a).astype(np.int32)


def tr_np(code, a):
    if code == 0:
        return (a * 2 + 1).astype(np.float64)
    if code == 1:
        return a[..., 0]
    return (-a).astype(np.int32)


# ---------------------------------------------------------------------------------------------
# index expressions: python object <-> wire
# an index is kept in "plain" form: int | ('s', a, b, c) | ('m', [bools]) | ('l', [ints])

def to_py(ix, as_array):
    if isinstance(ix, int):
        return ix
    if ix[0] == 's':
        return slice(ix[1], ix[2], ix[3])
    if ix[0] == 'm':
        return np.array(ix[1], dtype=bool) if as_array or not ix[1] else list(ix[1])   # [] would be an empty int list
    return np.array(ix[1], dtype=int) if as_array else list(ix[1])


def to_wire(ix):
    if isinstance(ix, int):
        return [0, ix]
    if ix[0] == 's':
        return [1, [[] if v is None else [v] for v in ix[1:]]]
    if ix[0] == 'm':
        return [2, [int(b) for b in ix[1]]]
    return [3, list(ix[1])]


def from_json(ix):
    if isinstance(ix, int):
        return ix
    return (ix[0],) + tuple(ix[1:]) if ix[0] == 's' else (ix[0], list(ix[1]))


def kind(ix):
    if isinstance(ix, int):
        return 'int' if ix >= 0 else 'negint'
    if ix[0] == 's':
        c = ix[3]
        if ix[1] is None and ix[2] is None and c in (None, 1):
            return 'full'
        return 'slice' if c in (None, 1) else ('nslice' if c < 0 else 'sslice')
    if ix[0] == 'm':
        return 'mask'
    l = ix[1]
    if any(v < 0 for v in l):
        return 'list(neg)'
    if len(set(l)) < len(l):
        return 'list(rep)'
    if sorted(l) != list(l):
        return 'list(unsorted)'
    return 'list'


def rnd_index(rng, n):
    k = rng.choice(['int', 'slice', 'slice', 'mask', 'list', 'ulist', 'full', 'cslice'])
    if k == 'int' and n > 0:
        return rng.randint(-n, n - 1)
    if k == 'slice':
        c = rng.choice([None, 1, 2, 3, -1, -2, -3])
        a = rng.choice([None] + list(range(-n - 2, n + 3)))
        b = rng.choice([None] + list(range(-n - 2, n + 3)))
        return ('s', a, b, c)
    if k == 'cslice':
        a = rng.randint(0, n)
        return ('s', a, rng.randint(a, n), None)
    if k == 'mask':
        p = rng.choice([0.0, 0.3, 0.7, 1.0])
        return ('m', [rng.random() < p for _ in range(n)])
    if k == 'list' and n > 0:
        if rng.random() < 0.4:     # evenly spaced (collapses to a slice)
            step = rng.choice([1, 1, 2, 3, -1, -2])
            a = rng.randint(0, n - 1)
            cnt = rng.randint(1, n)
            l = [a + i * step for i in range(cnt) if 0 <= a + i * step < n]
            return ('l', l)
        return ('l', sorted(rng.sample(range(n), rng.randint(0, n))))
    if k == 'ulist' and n > 0:
        return ('l', [rng.randint(-n, n - 1) for _ in range(rng.randint(1, 4))])
    return ('s', None, None, None)


def np_oindex(x, ixs):
    """numpy outer indexing, one axis at a time (independent python statement of the oracle)."""
    out = x
    ax = 0
    for ix in ixs:
        n = out.shape[ax] if ax < out.ndim else None
        if n is None:
            raise IndexError('too many indices')
        if isinstance(ix, int):
            if not -n <= ix < n:
                raise IndexError('out of range')
            out = np.take(out, ix, axis=ax)
        else:
            p = to_py(ix, True)
            if ix[0] == 'l' and any(not -n <= v < n for v in ix[1]):
                raise IndexError('out of range')
            if ix[0] == 'm' and len(ix[1]) != out.shape[ax]:
                raise IndexError('mask length')
            if ix[0] == 'l' and len(ix[1]) == 0:
                p = np.zeros(0, dtype=int)
            r = np.arange(out.shape[ax])[p]
            out = np.take(out, r, axis=ax)
            ax += 1
    return out


def has_f20(shape, ixs):
    for n, ix in zip(shape, ixs):
        if not isinstance(ix, int) and ix[0] == 's' and ix[3] is not None and ix[3] < 0 \
                and ix[1] is not None and ix[1] < -n and n > 0:
            return True
    return False


# ---------------------------------------------------------------------------------------------
# case generation: levels = [(keep, transforms), ...] innermost first

def rnd_chunks(rng, shape):
    out = []
    for n in shape:
        if n == 0:
            out.append((0,))
            continue
        c = []
        left = n
        while left:
            k = rng.randint(1, left)
            c.append(k)
            left -= k
        out.append(tuple(c))
    return tuple(out)


def gen_case(rng, reads=False):
    nd = rng.randint(1, 4)
    lo = 1 if reads or rng.random() < 0.93 else 0
    shape = tuple(rng.randint(lo, 7 if nd <= 2 else 5) for _ in range(nd))
    x = np.arange(int(np.prod(shape))).reshape(shape)
    cur = x
    levels = []
    f20 = False
    depth = rng.choice([1, 1, 1, 2, 2, 3])
    for _ in range(depth):
        keep = [rnd_index(rng, n) for n in cur.shape[:rng.randint(0, cur.ndim)]]
        try:
            nxt = np_oindex(cur, keep)
        except Exception:
            keep = []
            nxt = cur
        f20 = f20 or has_f20(cur.shape, keep)
        trs = []
        for _ in range(rng.choice([0, 0, 1, 1, 2])):
            code = rng.choice([0, 0, 2, 1])
            if code == 1 and (nxt.ndim < 2 or nxt.shape[-1] < 1):
                continue
            trs.append(code)
            nxt = tr_np(code, nxt)
        levels.append((keep, trs))
        cur = nxt
    k2 = [rnd_index(rng, n) for n in cur.shape[:rng.randint(0, cur.ndim)]]
    if rng.random() < 0.04:       # malformed stream: too many / out-of-range indices
        k2 = k2 + [rng.choice([0, 9, -9, ('s', None, None, 0), ('m', [True]), ('l', [9])])]
    f20 = f20 or has_f20(cur.shape, k2)
    return dict(shape=list(shape), chunks=[list(c) for c in rnd_chunks(rng, shape)], levels=levels, k2=k2,
                src=rng.choice(['from_array', 'store']) if min(shape) > 0 else 'from_array',
                as_array=rng.random() < 0.6, mutate=rng.random() < 0.5, joint=rng.random() < 0.25, f20=f20)


def wire_case(case):
    return [4, [case['shape'], [[[to_wire(i) for i in k], list(t)] for k, t in case['levels']],
                [to_wire(i) for i in case['k2']]]]


def canon(case):
    return (tuple(case['shape']), repr(case['levels']), repr(case['k2']))


def case_json(case):
    d = dict(case)
    d['levels'] = [[[list(i) if isinstance(i, tuple) else i for i in k], list(t)] for k, t in case['levels']]
    d['k2'] = [list(i) if isinstance(i, tuple) else i for i in case['k2']]
    return d


def case_from_json(d):
    c = dict(d)
    c['levels'] = [([from_json(i) for i in k], list(t)) for k, t in d['levels']]
    c['k2'] = [from_json(i) for i in d['k2']]
    return c


# ---------------------------------------------------------------------------------------------
# implementation driver

def make_source(case, x):
    import dask.array as da
    from fixtures import recstore
    chunks = tuple(tuple(c) for c in case['chunks'])
    if case['src'] == 'store':
        store = recstore.Rec(x=x)
        return store.get_dask_array('x', chunks, x.dtype), True
    return da.from_array(x, chunks=chunks), False


def run_impl(case):
    """Returns dict(adv=(shape, dtype) | None, out=ndarray | None, exc=str | None, early_reads=[...], joint_ok=bool)."""
    import dask
    from katdal.lazy_indexer import DaskLazyIndexer
    from fixtures import recstore
    shape = tuple(case['shape'])
    x = np.arange(int(np.prod(shape))).reshape(shape)
    res = dict(adv=None, out=None, exc=None, early_reads=[], joint=None, calls=None)
    with warnings.catch_warnings(), dask.config.set(scheduler='sync'):
        warnings.simplefilter('ignore')
        src, recording = make_source(case, x)
        recstore.calls.clear()
        objs = []
        try:
            cur = src
            for keep, trs in case['levels']:
                pk = [to_py(i, case['as_array']) for i in keep]
                objs += [p for p in pk if isinstance(p, (list, np.ndarray))]
                cur = DaskLazyIndexer(cur, tuple(pk), [TR(c) for c in trs])
            if case['mutate']:      # later mutation of the caller's index arrays must have no effect
                for p in objs:
                    if isinstance(p, np.ndarray):
                        if p.dtype == bool:
                            p[...] = ~p
                        else:
                            p[...] = 0
                    else:
                        for j in range(len(p)):
                            p[j] = (not p[j]) if isinstance(p[j], bool) else 0
            res['adv'] = (tuple(cur.shape), cur.dtype)
            _ = cur.dataset
            res['early_reads'] = list(recstore.calls)
            k2 = tuple(to_py(i, case['as_array']) for i in case['k2'])
            out = cur[k2]
            res['calls'] = list(recstore.calls) if recording else None
            res['out'] = out
            if case['joint']:
                sib = DaskLazyIndexer(cur, (), [TR(0)])
                outs = DaskLazyIndexer.get([cur, sib], k2)
                res['joint'] = (np.array_equal(outs[0], out) and outs[0].dtype == out.dtype
                                and np.array_equal(outs[1], sib[k2]) and np.array_equal(outs[1], tr_np(0, out))
                                and outs[1].shape == out.shape and outs[0].shape == out.shape)
                if case.get('dup', True):     # the same indexer twice in one joint request
                    pre = [np.full(out.shape, -77, out.dtype), np.full(out.shape, -77, out.dtype)]
                    outs = DaskLazyIndexer.get([cur, cur], k2, out=pre)
                    res['joint_dup'] = np.array_equal(outs[0], out) and np.array_equal(outs[1], out)
        except Exception as e:
            res['exc'] = '%s:%s' % (type(e).__name__, str(e)[:80])
    return res


def np_spec(case):
    """Independent numpy statement of the spec (cross-check of the Coq spec)."""
    shape = tuple(case['shape'])
    cur = np.arange(int(np.prod(shape))).reshape(shape)
    try:
        for keep, trs in case['levels']:
            cur = np_oindex(cur, keep)
            for c in trs:
                cur = tr_np(c, cur)
        adv = (cur.shape, cur.dtype)
        if len(case['k2']) > cur.ndim:
            return None
        return adv, np_oindex(cur, case['k2'])
    except Exception:
        return None


def signature(case, symptom):
    ks = ['S%d[%s]' % (i + 1, ','.join(kind(ix) for ix in k)) for i, (k, _) in enumerate(case['levels'])]
    ks.append('Sx[%s]' % ','.join(kind(ix) for ix in case['k2']))
    return '%s;T=%s;src=%s;symptom=%s' % (';'.join(ks), '|'.join(''.join(map(str, t)) for _, t in case['levels']),
                                          case['src'], symptom)


def dec_arr(o):
    """wire (1 shape dtype values) -> (shape, dtype, values) | None"""
    if o == [0] or o[0] != 1:
        return None
    return tuple(o[1]), o[2], o[3]


def compare(ctx, case, mo):
    """mo = [adv_model, res_model, adv_spec, res_spec] from wire_4."""
    impl = run_impl(case)
    ctx.traces_validated += 1
    cj = case_json(case)
    m_adv = None if mo[0] == [0] else (tuple(mo[0][1]), mo[0][2])
    s_adv = None if mo[2] == [0] else (tuple(mo[2][1]), mo[2][2])
    m_res, s_res = dec_arr(mo[1]), dec_arr(mo[3])
    # the Coq spec against the independent numpy statement
    ns = np_spec(case)
    if (ns is None) != (s_res is None) or (ns is not None and (
            tuple(ns[1].shape) != s_res[0] or ns[1].astype(np.int64).ravel().tolist() != s_res[2]
            or DTYPES[s_res[1]] != ns[1].dtype)):
        ctx.disagree(signature(case, 'coq_spec_vs_numpy'), cj, None if ns is None else ns[1].tolist(), None, 'Coq spec differs '
                     'from numpy outer indexing (harness/spec defect)', spec=s_res, kind='tie')
        return
    if impl['early_reads']:
        ctx.disagree(signature(case, 'not_lazy'), cj, impl['early_reads'][:4], [], 'chunks were read before any element '
                     'was requested (construction, .shape, .dtype, .dataset)')

    def verdict(ref_adv, ref_res, which):
        """None if impl agrees with (ref_adv, ref_res), else symptom."""
        if ref_res is None:
            if impl['out'] is None:
                return None
            return 'out_of_domain_answer'
        if impl['exc'] is not None:
            return 'raises'
        out = impl['out']
        if tuple(out.shape) != ref_res[0]:
            return 'shape'
        if out.astype(np.int64).ravel().tolist() != ref_res[2]:
            return 'wrong_data'
        if out.dtype != DTYPES[ref_res[1]]:
            return 'dtype'
        if ref_adv is not None and (impl['adv'][0] != ref_adv[0] or impl['adv'][1] != DTYPES[ref_adv[1]]):
            return 'advertised_shape_dtype'
        return None

    vt = verdict(m_adv, m_res, 'model')
    vs = verdict(s_adv, s_res, 'spec')
    show = impl['exc'] if impl['out'] is None else dict(shape=list(impl['out'].shape), dtype=str(impl['out'].dtype),
                                                        values=impl['out'].astype(np.int64).ravel().tolist()[:40])
    f23 = impl['exc'] is not None and 'Missing dependency' in impl['exc']
    f24 = impl['exc'] is not None and 'range() arg 3 must not be zero' in impl['exc']
    if vt is not None and vt != 'out_of_domain_answer':
        ctx.disagree(F23_SIG if f23 else F24_SIG if f24 else signature(case, 'tie:' + vt), cj, show, mo[1], 'implementation differs from the extracted model of '
                     'dask_getitem/DaskLazyIndexer', spec=mo[3], kind='tie')
    if vs is not None and vs != 'out_of_domain_answer':
        if case['f20'] and vt is None:
            sig = F20_SIG
        elif f23:
            sig = F23_SIG
        elif f24:
            sig = F24_SIG
        else:
            sig = signature(case, vs)
        ctx.disagree(sig, cj, show, mo[1], 'DaskLazyIndexer result differs from transform(array[stage 1])[stage 2] under '
                     'outer indexing (%s)' % vs, spec=mo[3])
    if vs == 'out_of_domain_answer':
        ctx.count('out_of_domain_answered')
    if impl.get('joint_dup') is False:
        ctx.disagree(F22_SIG, cj, 'get([a, a], k)[1] is not a[k]', None, 'DaskLazyIndexer.get with the same indexer twice '
                     'leaves one output unwritten')
    if impl['joint'] is False:
        ctx.disagree(signature(case, 'joint'), cj, 'joint != individual', None, 'DaskLazyIndexer.get of several indexers '
                     'differs from fetching them one by one')
    nontrivial = s_res is not None and len(s_res[2]) > 0 and (
        any(kind(ix) != 'full' for k, _ in case['levels'] for ix in k) or any(kind(ix) != 'full' for ix in case['k2']))
    ctx.note_case(canon(case), nontrivial=bool(nontrivial),
                  sample=dict(shape=case['shape'], chunks=case['chunks'], levels=cj['levels'], k2=cj['k2'],
                              result_shape=None if s_res is None else list(s_res[0])))
    ctx.count('depth=%d' % len(case['levels']))
    ctx.count('src=' + case['src'])
    ctx.count('ndim=%d' % len(case['shape']))
    ctx.count('error_case' if s_res is None else 'ok_case')
    for k, t in case['levels']:
        ctx.count('ntransforms=%d' % len(t))
        for ix in k:
            ctx.count('s1:' + kind(ix))
    for ix in case['k2']:
        ctx.count('s2:' + kind(ix))
    if case['joint']:
        ctx.count('joint')
    if case['mutate']:
        ctx.count('mutated')


# ---------------------------------------------------------------------------------------------
# small streams: slice oracle, _range_to_slice, _simplify_index

def stream_slices(ctx):
    vals = [None] + list(range(-9, 10))
    steps = [None, -3, -2, -1, 0, 1, 2, 3]
    cases = []
    ns = range(0, 8) if ctx.tier == 'thorough' else [0, 1, 2, 5, 7]
    for n in ns:
        for a in vals:
            for b in vals:
                for c in steps:
                    cases.append((n, a, b, c))
    outs = ctx.model([[41, [n, [[] if v is None else [v] for v in (a, b, c)]]] for n, a, b, c in cases])
    for (n, a, b, c), o in zip(cases, outs):
        try:
            exp = [1, list(range(*slice(a, b, c).indices(n)))]
        except ValueError:
            exp = [0]
        if o != exp:
            ctx.disagree('slice_oracle', dict(n=n, slice=[a, b, c]), exp, o, 'Coq d_slice_pos differs from '
                         'range(*slice.indices(n))', kind='tie')
    ctx.extra['slice_oracle_cases'] = len(cases)


def enc_slice(s):
    return [[] if v is None else [int(v)] for v in (s.start, s.stop, s.step)]


def stream_range_to_slice(ctx):
    from katdal.lazy_indexer import _range_to_slice
    rng = ctx.rng
    lists = [[]] + [list(p) for n in (1, 2, 3) for p in itertools.product(range(-1, 4), repeat=n)]
    for _ in range(ctx.scale(400, 4000)):
        r = rng.random()
        if r < 0.6:
            a, step, cnt = rng.randint(0, 9), rng.choice([-3, -2, -1, 1, 2, 3, 0]), rng.randint(1, 6)
            l = [a + i * step for i in range(cnt)]
            if rng.random() < 0.2 and l:
                l[rng.randrange(len(l))] += rng.choice([-1, 1])
        else:
            l = [rng.randint(-2, 9) for _ in range(rng.randint(0, 5))]
        lists.append(l)
    outs = ctx.model([[42, l] for l in lists])
    for l, o in zip(lists, outs):
        try:
            s = _range_to_slice(np.array(l, dtype=int))
            impl = [1, enc_slice(s)]
        except ValueError:
            s = None
            impl = [0]
        if impl != o:
            ctx.disagree('range_to_slice;tie', dict(index=l), impl, o, '_range_to_slice differs from its model', kind='tie')
        if s is not None and l:
            n = max(l) + 1 + rng.randint(0, 3)
            if list(range(*s.indices(n))) != l:
                ctx.disagree('range_to_slice;unsound', dict(index=l, n=n), enc_slice(s), l,
                             '_range_to_slice returned a slice that does not select the given positions')
        ctx.count('range_to_slice:' + ('slice' if s is not None else 'rejects'))
    ctx.extra['range_to_slice_cases'] = len(lists)


def enc_norm(ix):
    if isinstance(ix, slice):
        return [1, enc_slice(ix)]
    if isinstance(ix, np.ndarray):
        return [3, [int(v) for v in ix]]
    return [0, int(ix)]


def stream_simplify(ctx):
    from katdal.lazy_indexer import _simplify_index
    rng = ctx.rng
    cases = []
    for _ in range(ctx.scale(600, 8000)):
        nd = rng.randint(1, 4)
        shape = [rng.randint(0, 7) for _ in range(nd)]
        ixs = [rnd_index(rng, n) for n in shape[:rng.randint(0, nd)]]
        cases.append((shape, ixs, rng.random() < 0.5))
    outs = ctx.model([[43, [s, [to_wire(i) for i in ixs]]] for s, ixs, _ in cases])
    for (shape, ixs, arr), o in zip(cases, outs):
        try:
            with warnings.catch_warnings():
                warnings.simplefilter('ignore')
                r = _simplify_index(tuple(to_py(i, arr) for i in ixs), tuple(shape))
            impl = [1, [enc_norm(i) for i in r]]
        except Exception:
            impl = [0]
        if impl != o:
            ctx.disagree('simplify_index;tie;' + ','.join(kind(i) for i in ixs),
                         dict(shape=shape, index=[list(i) if isinstance(i, tuple) else i for i in ixs]), impl, o,
                         '_simplify_index differs from its model', kind='tie')
        ctx.count('simplify:' + ('ok' if impl != [0] else 'rejects'))
    ctx.extra['simplify_cases'] = len(cases)


# ---------------------------------------------------------------------------------------------
# read sets of contiguous requests

def rnd_contig(rng, n):
    r = rng.random()
    if r < 0.25 and n > 0:
        return rng.randint(-n, n - 1)
    if r < 0.4:
        return ('s', None, None, None)
    a = rng.randint(0, n)
    b = rng.randint(a, n) if rng.random() < 0.85 else rng.randint(0, n)
    if rng.random() < 0.2:
        a = a - n if a < n else a
    if rng.random() < 0.2:
        b = b - n if 0 < b < n else b
    return ('s', rng.choice([a, a, None if a == 0 else a]), rng.choice([b, b, None if b == n else b]),
            rng.choice([None, 1]))


def gen_reads_case(rng):
    nd = rng.randint(1, 3)
    shape = tuple(rng.randint(1, 7) for _ in range(nd))
    chunks = rnd_chunks(rng, shape)
    x = np.arange(int(np.prod(shape))).reshape(shape)
    stages = []
    cur = x
    pre = rng.random() < 0.3          # stage 0 = get_dask_array(index=...) through _prune_chunks
    nst = rng.choice([1, 2, 2, 3])
    for s in range(nst + 1):
        k = [rnd_contig(rng, n) for n in cur.shape[:rng.randint(0, cur.ndim)]]
        if s == 0 and pre:
            k = [i if not isinstance(i, int) else ('s', i % cur.shape[j], i % cur.shape[j] + 1, None)
                 for j, i in enumerate(k)]
        cur = np_oindex(cur, k)
        stages.append(k)
    return dict(shape=list(shape), chunks=[list(c) for c in chunks], stages=stages, pre=pre,
                elementwise=rng.random() < 0.3)


def reads_per_axis(case):
    """For each stored axis: the list of indices that reach it, stage by stage."""
    nd = len(case['shape'])
    alive = list(range(nd))
    per = [[] for _ in range(nd)]
    for k in case['stages']:
        nxt = []
        for j, ax in enumerate(alive):
            ix = k[j] if j < len(k) else ('s', None, None, None)
            per[ax].append(ix)
            if not isinstance(ix, int):
                nxt.append(ax)
        alive = nxt
    return per


def run_reads_impl(case):
    import dask
    from katdal.lazy_indexer import DaskLazyIndexer
    from fixtures import recstore
    shape = tuple(case['shape'])
    x = np.arange(int(np.prod(shape))).reshape(shape)
    chunks = tuple(tuple(c) for c in case['chunks'])
    stages = [tuple(to_py(i, True) for i in k) for k in case['stages']]
    with warnings.catch_warnings(), dask.config.set(scheduler='sync'):
        warnings.simplefilter('ignore')
        store = recstore.Rec(x=x)
        recstore.calls.clear()
        if case['pre']:
            src = store.get_dask_array('x', chunks, x.dtype, index=stages[0])
            rest = stages[1:]
        else:
            src = store.get_dask_array('x', chunks, x.dtype)
            rest = stages
        cur = src
        for k in rest[:-1]:
            cur = DaskLazyIndexer(cur, k, [TR(0)] if case['elementwise'] else [])
        if len(rest) == 1:
            cur = DaskLazyIndexer(cur)
        _ = (cur.shape, cur.dtype, cur.dataset)
        early = list(recstore.calls)
        out = cur[rest[-1]]
        calls = list(recstore.calls)
        recstore.calls.clear()
    return early, calls, out


def compare_reads(ctx, case, mo):
    cj = dict(case, stages=[[list(i) if isinstance(i, tuple) else i for i in k] for k in case['stages']])
    model, spec = mo
    if model != spec:
        ctx.disagree('reads;model_vs_spec', cj, None, model, 'read-set model differs from the overlap spec', spec=spec)
        return
    if model == [0]:
        ctx.count('reads:not_contiguous')
        return
    try:
        early, calls, out = run_reads_impl(case)
    except Exception as e:
        ctx.disagree('reads;raises;pre=%s' % case['pre'], cj, repr(e)[:200], model, 'contiguous request raised')
        return
    ctx.traces_validated += 1
    x = np.arange(int(np.prod(case['shape']))).reshape(case['shape'])
    exp_out = x
    for k in case['stages']:
        exp_out = np_oindex(exp_out, k)
    n_el = (len(case['stages']) - 1 - (1 if case['pre'] else 0)) if case['elementwise'] else 0
    for _ in range(max(0, n_el)):
        exp_out = tr_np(0, exp_out)
    if out.shape != exp_out.shape or not np.array_equal(out, exp_out):
        ctx.disagree('reads;wrong_data;pre=%s' % case['pre'], cj, out.tolist(), exp_out.tolist(),
                     'contiguous request through the chunk store returned wrong data')
    if early:
        ctx.disagree('reads;not_lazy;pre=%s' % case['pre'], cj, early[:4], [], 'chunks were read before any element was requested')
    ids = model[1]
    offs = [np.concatenate([[0], np.cumsum(c)]).tolist() for c in case['chunks']]
    expected = sorted(tuple((offs[a][i], offs[a][i + 1]) for a, i in enumerate(combo))
                      for combo in itertools.product(*ids))
    got = sorted(calls)
    empty = any(len(i) == 0 for i in ids)
    if got != expected:
        if empty:
            ctx.disagree(F21_SIG, cj, got, expected, 'a request for an empty region read chunks')
        else:
            dup = len(set(got)) < len(got)
            sym = 'chunk_read_twice' if dup and set(got) == set(expected) else (
                'over_read' if set(got) > set(expected) else ('under_read' if set(got) < set(expected) else 'other_reads'))
            ctx.disagree('reads;pre=%s;stages=%d;symptom=%s' % (case['pre'], len(case['stages']), sym), cj, got, expected,
                         'get_chunk calls differ from the chunks overlapping the requested region, each once')
    ctx.note_case(('reads', tuple(case['shape']), repr(case['chunks']), repr(case['stages']), case['pre']),
                  nontrivial=not empty and len(expected) < int(np.prod([len(c) for c in case['chunks']])),
                  sample=None)
    ctx.count('reads:stages=%d' % len(case['stages']))
    ctx.count('reads:pre' if case['pre'] else 'reads:nopre')
    ctx.count('reads:empty_region' if empty else 'reads:nonempty')


def wire_reads(case):
    per = reads_per_axis(case)
    return [44, [[list(c), [to_wire(i) for i in ks]] for c, ks in zip(case['chunks'], per)]]


# ---------------------------------------------------------------------------------------------
# joint retrieval over several stores / several indexers of one stored array

NAMES = ['x', 'y']


def jcontent(shape, s, n):
    return np.arange(int(np.prod(shape))).reshape(shape) + 1000 * (2 * s + n)


def no_f20(shape, ixs):
    return [('s', None, None, None) if has_f20((n,), [ix]) else ix for n, ix in zip(shape, ixs)]


def rnd_nonempty_contig(rng, n):
    for _ in range(6):
        ix = rnd_contig(rng, n)
        if isinstance(ix, int) or len(range(*slice(ix[1], ix[2], ix[3]).indices(n))) > 0:
            return ix
    return ('s', None, None, None)


def gen_joint_case(rng):
    contig = rng.random() < 0.5
    nd = rng.randint(1, 3)
    shape = tuple(rng.randint(1, 6 if nd <= 2 else 4) for _ in range(nd))
    chunks = rnd_chunks(rng, shape)
    nstores = rng.choice([1, 2, 2, 3])
    x = np.arange(int(np.prod(shape))).reshape(shape)
    one = (lambda r, n: rnd_nonempty_contig(r, n)) if contig else rnd_index

    def rnd_keep(shp):
        k = [one(rng, n) for n in shp[:rng.randint(0, len(shp))]]
        k = no_f20(shp, k)
        try:
            np_oindex(np.zeros(shp), k)
        except Exception:
            return []
        return k

    def rnd_trs(ds):
        t = list(rng.choice([[], [], [0], [2], [0, 2], [2, 0]]))
        if not contig and rng.random() < 0.15 and ds.ndim >= 2 and ds.shape[-1] >= 1:
            t.append(1)
        return t

    keep0 = rnd_keep(shape)
    inds, dss = [], []
    for j in range(rng.randint(2, 4)):
        if j > 0 and rng.random() < 0.35:
            p = rng.randrange(j)
            keep = rnd_keep(dss[p].shape) if rng.random() < 0.5 else []
            ind = dict(store=inds[p]['store'], name=inds[p]['name'], parent=p, pre=None, keep=keep, trs=None)
            base = dss[p]
        else:
            pre = None
            base = x
            if not contig and rng.random() < 0.4:
                pre = []
                for n, c in zip(shape, chunks):
                    if rng.random() < 0.5:      # start on a chunk boundary: same offset, different extent
                        a = rng.choice(np.concatenate([[0], np.cumsum(c)[:-1]]).tolist())
                    else:
                        a = rng.randint(0, n - 1)
                    pre.append(('s', int(a), rng.randint(a + 1, n), None))
                pre = pre[:rng.randint(1, nd)]
            where = (rng.randrange(nstores), rng.choice([0, 0, 1]))
            views = [i for i in inds if i['pre']]
            other_view = bool(views) and rng.random() < 0.6
            if other_view:
                # another view of a stored array already viewed: same start (same offset / first chunk), other extent
                v = rng.choice(views)
                where = (v['store'], v['name'])
                pre = [('s', i[1], rng.randint(i[1] + 1, n), None) for i, n in zip(v['pre'], shape)]
            if pre is not None:
                base = np_oindex(x, pre)
            keep = keep0 if (pre is None and rng.random() < 0.7) else rnd_keep(base.shape)
            ind = dict(store=where[0], name=where[1], parent=None, pre=pre, keep=list(keep), trs=None)
            twins = [i for i in inds if i['parent'] is None]
            if twins and nstores > 1 and not other_view and rng.random() < 0.35:
                # the same array name, view, selection and transforms - held by ANOTHER store
                v = rng.choice(twins)
                ind = dict(v, store=rng.choice([t for t in range(nstores) if t != v['store']]), keep=list(v['keep']),
                           trs=list(v['trs']))
                base = x if not v['pre'] else np_oindex(x, v['pre'])
        ds = np_oindex(base, ind['keep'])
        if ind['trs'] is None:
            ind['trs'] = rnd_trs(ds)
        for c in ind['trs']:
            ds = tr_np(c, ds)
        inds.append(ind)
        dss.append(ds)
    ref = dss[rng.randrange(len(dss))]
    k2 = [one(rng, n) for n in ref.shape[:rng.randint(0, ref.ndim)]]
    for ds in dss:                       # keep F20 (dask normalize_slice) out of this stream, whichever indexer it hits
        k2 = no_f20(ds.shape, k2) + k2[ds.ndim:]
    return dict(stream='joint', shape=list(shape), chunks=[list(c) for c in chunks], nstores=nstores, inds=inds, k2=k2,
                contig=contig, out=rng.random() < 0.3, twin=rng.random() < 0.5, as_array=rng.random() < 0.6)


def jchain(case, j):
    ind = case['inds'][j]
    own = [(ind['keep'], ind['trs'])]
    if ind['parent'] is not None:
        return jchain(case, ind['parent']) + own
    return ([(ind['pre'], [])] if ind['pre'] else []) + own


def joint_json(case):
    d = dict(case)
    pl = lambda k: [list(i) if isinstance(i, tuple) else i for i in k]
    d['inds'] = [dict(i, keep=pl(i['keep']), pre=None if i['pre'] is None else pl(i['pre'])) for i in case['inds']]
    d['k2'] = pl(case['k2'])
    return d


def joint_from_json(d):
    c = dict(d)
    c['inds'] = [dict(i, keep=[from_json(k) for k in i['keep']],
                      pre=None if i['pre'] is None else [from_json(k) for k in i['pre']]) for i in d['inds']]
    c['k2'] = [from_json(i) for i in d['k2']]
    return c


def wire_joint(case):
    inds = [[i['store'], i['name'], [[[to_wire(ix) for ix in k], list(t)] for k, t in jchain(case, j)]]
            for j, i in enumerate(case['inds'])]
    return [45, [case['shape'], inds, [to_wire(i) for i in case['k2']]]]


def joint_axes(case, j):
    """per stored axis of indexer j: the indices reaching it, stage by stage (chain keeps, then the common index)."""
    return reads_per_axis(dict(shape=case['shape'], stages=[k for k, _ in jchain(case, j)] + [case['k2']]))


def wire_joint_reads(case):
    return [46, [[i['store'], i['name'], [[list(c), [to_wire(ix) for ix in ks]]
                                           for c, ks in zip(case['chunks'], joint_axes(case, j))]]
                 for j, i in enumerate(case['inds'])]]


def joint_np(case):
    """numpy statement: expected output of every indexer (None = rejected) and, per stored axis, the stored positions
    its request touches."""
    shape = tuple(case['shape'])
    outs, touched = [], []
    for j, ind in enumerate(case['inds']):
        cur = jcontent(shape, ind['store'], ind['name'])
        pos = [np.arange(n) for n in shape]
        alive = list(range(len(shape)))
        try:
            for k, trs in jchain(case, j) + [(case['k2'], [])]:
                if len(k) > cur.ndim:
                    raise IndexError('too many indices')
                cur = np_oindex(cur, k)
                nxt = []
                for a, ax in enumerate(alive):
                    ix = k[a] if a < len(k) else ('s', None, None, None)
                    pos[ax] = np.atleast_1d(pos[ax][to_py(ix, True)]) if not isinstance(ix, int) else pos[ax][[ix]]
                    if not isinstance(ix, int):
                        nxt.append(ax)
                alive = nxt
                for c in trs:
                    cur = tr_np(c, cur)
                    if c == 1:
                        pos[alive[-1]] = pos[alive[-1]][[0]]
                        alive = alive[:-1]
            outs.append(cur)
            touched.append([sorted(set(p.tolist())) for p in pos])
        except Exception:
            outs.append(None)
            touched.append(None)
    return outs, touched


def joint_oracle_reads(case, touched):
    """chunks (store, name, ((lo, hi), ...)) holding at least one touched position of some indexer, each once."""
    offs = [np.concatenate([[0], np.cumsum(c)]).tolist() for c in case['chunks']]
    want = set()
    for ind, t in zip(case['inds'], touched):
        per = []
        for ax, ps in enumerate(t):
            per.append([(offs[ax][i], offs[ax][i + 1]) for i in range(len(case['chunks'][ax]))
                        if any(offs[ax][i] <= p < offs[ax][i + 1] for p in ps)])
        for combo in itertools.product(*per):
            want.add((ind['store'], ind['name'], tuple(combo)))
    return sorted(want)


def run_joint_impl(case, exp):
    import dask
    from katdal.lazy_indexer import DaskLazyIndexer
    shape = tuple(case['shape'])
    chunks = tuple(tuple(c) for c in case['chunks'])
    from fixtures import jointstore
    JRec, JLOG = jointstore.JRec, jointstore.LOG
    from katdal.lazy_indexer import dask_getitem
    res = dict(exc=None, outs=None, single=None, early=[], calls=None, out_identity=True, flat=None)
    with warnings.catch_warnings(), dask.config.set(scheduler='sync'):
        warnings.simplefilter('ignore')
        JLOG.clear()
        stores = [JRec(s, x=jcontent(shape, s, 0), y=jcontent(shape, s, 1)) for s in range(case['nstores'])]
        cache = {}
        objs = []
        roots = []
        try:
            for ind in case['inds']:
                if ind['parent'] is not None:
                    src = objs[ind['parent']]
                    roots.append(roots[ind['parent']])
                else:
                    key = (ind['store'], ind['name'], repr(ind['pre']))
                    if case['twin'] or key not in cache:
                        kw = {} if not ind['pre'] else dict(index=tuple(to_py(i, True) for i in ind['pre']))
                        cache[key] = stores[ind['store']].get_dask_array(NAMES[ind['name']], chunks, np.dtype('int64'), **kw)
                    src = cache[key]
                    roots.append(src.name)
                objs.append(DaskLazyIndexer(src, tuple(to_py(i, case['as_array']) for i in ind['keep']),
                                            [TR(c) for c in ind['trs']]))
            k2 = tuple(to_py(i, case['as_array']) for i in case['k2'])
            _ = [(o.shape, o.dtype, o.dataset) for o in objs]
            # was the selected array flattened by the cull of dask_getitem?  (the stored array's own layer is gone)
            res['flat'] = [r not in dask_getitem(o.dataset, k2).dask.layers for o, r in zip(objs, roots)]
            res['early'] = [(t, c) for t, l in JLOG.items() for c in l]
            JLOG.clear()
            if case['out'] and all(e is not None for e in exp):
                pre = [np.full(e.shape, -77, e.dtype) for e in exp]
                outs = DaskLazyIndexer.get(objs, k2, out=pre)
                res['out_identity'] = all(a is b for a, b in zip(outs, pre))
            else:
                outs = DaskLazyIndexer.get(objs, k2)
            res['calls'] = sorted((t, n, c) for t, l in JLOG.items() for n, c in l)
            res['outs'] = list(outs)
            JLOG.clear()
            res['single'] = [o[k2] for o in objs]
        except Exception as e:
            res['exc'] = '%s:%s' % (type(e).__name__, str(e)[:80])
        JLOG.clear()
    return res


def joint_shape(case):
    keys = [(i['store'], i['name'], repr(jchain(case, j))) for j, i in enumerate(case['inds'])]
    other_store = any(a[0] != b[0] and a[1:] == b[1:] for a, b in itertools.combinations(keys, 2))
    shared = any(a[:2] == b[:2] and a != b for a, b in itertools.combinations(keys, 2))
    return other_store, shared


def joint_sig(case, symptom):
    other_store, shared = joint_shape(case)
    return 'joint;n=%d;stores=%d;same_array_other_store=%s;shared_stored_array=%s;%s;symptom=%s' % (
        len(case['inds']), len({i['store'] for i in case['inds']}), other_store, shared,
        'contig' if case['contig'] else 'fancy', symptom)


def same(a, b):
    return a.shape == b.shape and a.dtype == b.dtype and np.array_equal(a, b)


def compare_joint(ctx, case, mo, mr):
    """mo = wire_45 output [model_joint, [spec_i ...]]; mr = wire_46 output [model, spec, sequential] (contig only)."""
    cj = joint_json(case)
    n = len(case['inds'])
    exp, touched = joint_np(case)
    spec = [dec_arr(o) for o in mo[1]]
    model = None if mo[0] == [0] else [dec_arr(o) for o in mo[0][1]]
    # harness / spec guard: the Coq spec against numpy, indexer by indexer
    for j in range(n):
        e, sp = exp[j], spec[j]
        if (e is None) != (sp is None) or (e is not None and (
                tuple(e.shape) != sp[0] or e.astype(np.int64).ravel().tolist() != sp[2] or DTYPES[sp[1]] != e.dtype)):
            ctx.disagree(joint_sig(case, 'coq_spec_vs_numpy'), cj, None if e is None else e.tolist(), None,
                         'Coq spec of indexer %d differs from numpy outer indexing (harness/spec defect)' % j, spec=sp,
                         kind='tie')
            return
    in_domain = all(e is not None for e in exp)
    impl = run_joint_impl(case, exp)
    ctx.traces_validated += 1
    if impl['early']:
        ctx.disagree(joint_sig(case, 'not_lazy'), cj, impl['early'][:4], [], 'chunks were read before any element was '
                     'requested (construction, .shape, .dtype, .dataset of the indexers of a joint request)')
    f23 = impl['exc'] is not None and 'Missing dependency' in impl['exc']
    f24 = impl['exc'] is not None and 'range() arg 3 must not be zero' in impl['exc']
    if not in_domain:
        ctx.count('joint:error_case')
        if impl['exc'] is None:
            ctx.count('out_of_domain_answered')
    elif impl['exc'] is not None:
        ctx.disagree(F23_SIG if f23 else F24_SIG if f24 else joint_sig(case, 'raises'), cj, impl['exc'], mo[0],
                     'joint DaskLazyIndexer.get raised on a request every indexer accepts', spec=mo[1])
    else:
        outs = impl['outs']
        show = [dict(shape=list(o.shape), dtype=str(o.dtype), values=o.astype(np.int64).ravel().tolist()[:24])
                for o in outs]
        bad_spec = [j for j in range(n) if not same(outs[j], exp[j])]
        bad_single = [j for j in range(n) if not same(outs[j], impl['single'][j])]
        bad_model = [] if model is None else [
            j for j in range(n) if model[j] is None or tuple(outs[j].shape) != model[j][0]
            or outs[j].astype(np.int64).ravel().tolist() != model[j][2] or outs[j].dtype != DTYPES[model[j][1]]]
        if model is None or bad_model:
            ctx.disagree(joint_sig(case, 'tie:joint_output'), cj, show, mo[0], 'joint get differs from the extracted '
                         'name-keyed model of DaskLazyIndexer.get (outputs %s)' % bad_model, spec=mo[1], kind='tie')
        if bad_spec or bad_single:
            j = (bad_spec or bad_single)[0]
            other = [i for i in range(n) if i != j and exp[i] is not None and same(outs[j], exp[i])]
            sym = 'output_of_another_indexer' if other else (
                'shape' if outs[j].shape != exp[j].shape else 'dtype' if outs[j].dtype != exp[j].dtype else 'wrong_data')
            ctx.disagree(joint_sig(case, sym), cj, show, mo[0], 'DaskLazyIndexer.get of several indexers differs from '
                         'fetching them one by one / from transform(array[stage 1])[stage 2] (outputs %s vs spec, %s vs '
                         'one-by-one)' % (bad_spec, bad_single), spec=mo[1])
        if not impl['out_identity']:
            ctx.disagree(joint_sig(case, 'out_not_used'), cj, 'returned arrays are not the given out= arrays', None,
                         'DaskLazyIndexer.get(out=...) did not return the caller\'s output arrays')
    # reads of the ONE joint request, per store
    if case['contig'] and mr is not None and in_domain and impl['exc'] is None:
        offs = [np.concatenate([[0], np.cumsum(c)]).tolist() for c in case['chunks']]
        dec = lambda o: None if o == [0] else sorted(
            (k[0], k[1], tuple((offs[a][i], offs[a][i + 1]) for a, i in enumerate(k[2]))) for k in o[1])
        m_reads, s_reads = dec(mr[0]), dec(mr[1])
        oracle = joint_oracle_reads(case, touched)
        if m_reads is None or s_reads is None or s_reads != oracle or m_reads != s_reads:
            ctx.disagree(joint_sig(case, 'coq_reads_vs_oracle'), cj, oracle, m_reads, 'Coq joint read model / spec differ '
                         'from the numpy statement of "chunks touched by some indexer" (harness/spec defect)', spec=s_reads,
                         kind='tie')
        else:
            got = [(t, NAMES.index(nm), c) for t, nm, c in impl['calls']]
            empty = any(any(len(p) == 0 for p in t) for t in touched)
            culled = [bool(b) for b in mr[3]]
            twice = dec(mr[4])
            if not empty and impl['flat'] != culled:
                ctx.disagree(joint_sig(case, 'tie:culled_flag'), cj, impl['flat'], culled, 'which selected arrays '
                             'dask_getitem flattened (cull) differs from the model j_culled', kind='tie')
            if got != m_reads:
                cnt = {k: got.count(k) for k in set(got)}
                if empty:
                    ctx.disagree(F21_SIG, cj, got, m_reads, 'a joint request with an empty region read extra chunks')
                elif set(got) == set(m_reads) and all(v == 1 or (v == 2 and k in twice) for k, v in cnt.items()):
                    ctx.disagree(F48_SIG, cj, got, m_reads, 'a chunk needed by a culled and an un-culled selected '
                                 'array of one stored array was fetched twice in one joint request', spec=s_reads)
                else:
                    gs, es = set(got), set(m_reads)
                    sym = 'chunk_read_twice' if gs == es else ('over_read' if gs > es else 'under_read' if gs < es
                                                               else 'other_reads')
                    if gs - es and all((k[0], k[1]) not in {(i['store'], i['name']) for i in case['inds']}
                                       for k in gs - es):
                        sym = 'read_from_uninvolved_store_or_array'
                    ctx.disagree(joint_sig(case, sym), cj, got, m_reads, 'get_chunk calls of the joint request, per '
                                 'store, differ from: the chunks meeting the region of some indexer of that stored '
                                 'array, each once', spec=s_reads)
            if any(culled):
                ctx.count('joint:some_selection_culled')
            ctx.count('joint:reads_compared' if not empty else 'joint:reads_empty_region')
            ctx.extra['joint_reads_stores_max'] = max(ctx.extra.get('joint_reads_stores_max', 0),
                                                     len({k[0] for k in m_reads}))
    other_store, shared = joint_shape(case)
    nonempty = in_domain and all(e.size > 0 for e in exp)
    ctx.note_case(('joint', tuple(case['shape']), repr(case['chunks']), repr(cj['inds']), repr(cj['k2'])),
                  nontrivial=bool(nonempty and (other_store or shared)),
                  sample=dict(shape=case['shape'], chunks=case['chunks'], inds=cj['inds'], k2=cj['k2']))
    ctx.count('joint:n=%d' % n)
    ctx.count('joint:stores=%d' % len({i['store'] for i in case['inds']}))
    ctx.count('joint:contig' if case['contig'] else 'joint:fancy')
    if other_store:
        ctx.count('joint:same_array_other_store')
    if shared:
        ctx.count('joint:shared_stored_array')
    if any(i['parent'] is not None for i in case['inds']):
        ctx.count('joint:nested')
    if any(i['pre'] for i in case['inds']):
        ctx.count('joint:index_view')
    if case['out']:
        ctx.count('joint:out_given')


def run_joint(ctx, cases):
    outs = ctx.model([wire_joint(c) for c in cases])
    routs = ctx.model([wire_joint_reads(c) for c in cases])
    for c, o, r in zip(cases, outs, routs):
        compare_joint(ctx, c, o, r if c['contig'] else None)


# ---------------------------------------------------------------------------------------------
# `dataset` over histories of accesses with faults: atomic, all-or-nothing, cached

LAZY_KINDS = ['dataset', 'shape', 'dtype', 'getitem', 'getitem', 'get', 'len', 'str', 'iter']
DT_CODE = {np.dtype('int64'): 0, np.dtype('float64'): 1, np.dtype('int32'): 2}


class InjectedFault(Exception):
    """raised by an instrumented transform when the fault plan of the current request says so"""


def gen_lazy_case(rng):
    nd = rng.randint(1, 3)
    shape = tuple(rng.randint(1, 5) for _ in range(nd))
    x = np.arange(int(np.prod(shape))).reshape(shape)
    objs, dss = [], []          # dss[j] = expected data set (numpy) or None when stage 1 is rejected
    for j in range(rng.choice([1, 1, 2, 2, 3, 4])):
        parent = -1
        if j > 0 and rng.random() < 0.65:
            parent = rng.randrange(j)
        base = x if parent < 0 else dss[parent]
        keep, ds = [], None
        if base is not None:
            keep = no_f20(base.shape, [rnd_index(rng, n) for n in base.shape[:rng.randint(0, base.ndim)]])
            if rng.random() < 0.06:          # malformed first stage: dask_getitem raises at every access
                keep = keep + [rng.choice([99, -99, ('l', [99])])] if len(keep) < base.ndim else [99] + keep[1:]
            try:
                ds = np_oindex(base, keep)
            except Exception:
                ds = None
        trs = []
        cur = ds
        for _ in range(rng.choice([0, 1, 2, 2, 3, 3])):
            code = rng.choice([0, 0, 2, 2, 1])
            if code == 1 and (cur is None or cur.ndim < 2 or cur.shape[-1] < 1):
                code = 0
            trs.append(code)
            if cur is not None:
                cur = tr_np(code, cur)
        objs.append(dict(parent=parent, keep=keep, trs=trs))
        dss.append(cur)

    def chain(j):
        out = []
        while j >= 0:
            out.append(j)
            j = objs[j]['parent']
        return out

    hist = []
    for _ in range(rng.randint(2, 6)):
        if rng.random() < 0.12:      # the caller overwrites the index arrays it passed as `keep` (no access)
            hist.append(dict(kind='mutate', objs=[], plan=[], k2=[]))
        kind = rng.choice(LAZY_KINDS)
        if kind == 'get':
            tg = [rng.randrange(len(objs)) for _ in range(rng.randint(1, 3))]
        else:
            tg = [rng.randrange(len(objs))]
        plan = []
        if rng.random() < 0.55:
            cands = [(j, k) for t in tg for j in chain(t) for k in range(len(objs[j]['trs']))]
            for _ in range(rng.choice([1, 1, 2])):
                if cands:
                    plan.append(list(rng.choice(cands)))
        k2 = []
        ref = [dss[t] for t in tg]
        if kind in ('getitem', 'get') and all(r is not None for r in ref) and rng.random() < 0.8:
            r0 = ref[0]
            k2 = [rnd_index(rng, n) for n in r0.shape[:rng.randint(0, r0.ndim)]]
            for r in ref:
                k2 = no_f20(r.shape, k2) + k2[r.ndim:]
            try:
                for r in ref:
                    np_oindex(r, k2)
            except Exception:
                k2 = []
        hist.append(dict(kind=kind, objs=tg, plan=sorted(plan), k2=k2))
    return dict(stream='lazy', shape=list(shape), chunks=[list(c) for c in rnd_chunks(rng, shape)], objs=objs, hist=hist,
                as_array=rng.random() < 0.5, src=rng.choice(['from_array', 'store']))


def lazy_accesses(case):
    return [r for r in case['hist'] if r['kind'] != 'mutate']


def lazy_json(case):
    pl = lambda k: [list(i) if isinstance(i, tuple) else i for i in k]
    return dict(case, objs=[dict(o, keep=pl(o['keep'])) for o in case['objs']],
                hist=[dict(r, k2=pl(r['k2'])) for r in case['hist']])


def lazy_from_json(d):
    return dict(d, objs=[dict(o, keep=[from_json(i) for i in o['keep']]) for o in d['objs']],
                hist=[dict(r, k2=[from_json(i) for i in r['k2']], plan=[list(p) for p in r['plan']]) for r in d['hist']])


def wire_lazy(case):
    return [47, [case['shape'], [[o['parent'], [to_wire(i) for i in o['keep']], list(o['trs'])] for o in case['objs']],
                 [[list(r['objs']), [list(p) for p in r['plan']]] for r in lazy_accesses(case)]]]


def lazy_py_spec(case):
    """Independent python statement of the atomic, all-or-nothing, cached `dataset`: per request the list of
    (class, array | None, calls) of the objects accessed in turn (stops at the first that does not return)."""
    shape = tuple(case['shape'])
    x = np.arange(int(np.prod(shape))).reshape(shape)
    cache = {}

    def access(j, plan):
        if j in cache:
            return 'ret', cache[j], []
        o = case['objs'][j]
        calls = []
        if o['parent'] < 0:
            src = x
        else:
            cls, src, calls = access(o['parent'], plan)
            if cls != 'ret':
                return cls, None, calls
        try:
            if len(o['keep']) > src.ndim:
                raise IndexError('too many indices')
            cur = np_oindex(src, o['keep'])
        except Exception:
            return 'error', None, calls
        for k, code in enumerate(o['trs']):
            calls = calls + [[j, k]]
            if [j, k] in plan:
                return 'fault', None, calls          # nothing of object j is kept
            cur = tr_np(code, cur)
        cache[j] = cur                                # the whole chain, at once
        return 'ret', cur, calls

    out = []
    for r in lazy_accesses(case):
        res = []
        for j in r['objs']:
            cls, arr, calls = access(j, [list(p) for p in r['plan']])
            res.append((cls, arr, calls))
            if cls != 'ret':
                break
        out.append(res)
    return out


def lazy_dec(o):
    """wire outcome -> (class, (shape, dtype code, values) | None, calls)"""
    cls = {0: 'error', 1: 'ret', 2: 'none', 3: 'fault'}[o[0]]
    return cls, ((tuple(o[1]), o[2], o[3]) if o[0] == 1 else None), [list(p) for p in o[-1]]


def arr3(a):
    return (tuple(a.shape), DT_CODE.get(np.dtype(a.dtype), -1), np.asarray(a).astype(np.int64).ravel().tolist())


def run_lazy_impl(case):
    """Real DaskLazyIndexer objects with instrumented transforms; one entry per request:
    dict(cls=ret|fault|error|none, obs=<what the access delivered>, calls=[[obj, k] ...], exc=str|None)."""
    import dask
    import dask.array as da
    from katdal.lazy_indexer import DaskLazyIndexer
    shape = tuple(case['shape'])
    x = np.arange(int(np.prod(shape))).reshape(shape)
    state = dict(plan=[], calls=[])

    def mk(j, k, code):
        f = TR(code)

        def transform(a):
            state['calls'].append([j, k])
            if [j, k] in state['plan']:
                raise InjectedFault('transform %d of indexer %d' % (k, j))
            return f(a)
        return transform

    out = []
    from fixtures import recstore
    with warnings.catch_warnings(), dask.config.set(scheduler='sync'):
        warnings.simplefilter('ignore')
        chunks = tuple(tuple(c) for c in case['chunks'])
        if case.get('src') == 'store':
            src = recstore.Rec(x=x).get_dask_array('x', chunks, x.dtype)
        else:
            src = da.from_array(x, chunks=chunks)
        recstore.calls.clear()
        objs, mutable = [], []
        for j, o in enumerate(case['objs']):
            parent = src if o['parent'] < 0 else objs[o['parent']]
            pk = [to_py(i, case['as_array']) for i in o['keep']]
            mutable += [p for p in pk if isinstance(p, (list, np.ndarray))]
            objs.append(DaskLazyIndexer(parent, tuple(pk), [mk(j, k, c) for k, c in enumerate(o['trs'])]))
        for r in case['hist']:
            if r['kind'] == 'mutate':
                for p in mutable:
                    if isinstance(p, np.ndarray):
                        p[...] = ~p if p.dtype == bool else 0
                    else:
                        for q in range(len(p)):
                            p[q] = (not p[q]) if isinstance(p[q], bool) else 0
                continue
            state['plan'] = [list(p) for p in r['plan']]
            state['calls'] = []
            recstore.calls.clear()
            k2 = tuple(to_py(i, case['as_array']) for i in r['k2'])
            ent = dict(cls='ret', obs=None, exc=None, early=[])
            try:
                t = objs[r['objs'][0]]
                if r['kind'] == 'dataset':
                    v = t.dataset
                    ent['early'] = list(recstore.calls)
                    ent['obs'] = None if v is None else arr3(v.compute())
                    if v is None:
                        ent['cls'] = 'none'
                    else:
                        # F54: dask computes a blockwise layer wrongly over a zero-length block left by a stepped slice;
                        # indexer[()] (dask_getitem + da.store on the same data set) is not affected
                        ent['zero_block'] = any(0 in c and sum(c) > 0 for c in v.chunks)     # a non-empty axis with an empty block
                        if ent['zero_block']:
                            ent['via_getitem'] = arr3(t[()])
                elif r['kind'] == 'iter':
                    ent['obs'] = [arr3(v) for v in t]
                elif r['kind'] == 'shape':
                    ent['obs'] = tuple(t.shape)
                elif r['kind'] == 'dtype':
                    ent['obs'] = DT_CODE.get(np.dtype(t.dtype), -1)
                elif r['kind'] == 'len':
                    ent['obs'] = len(t)
                elif r['kind'] == 'str':
                    ent['obs'] = str(t).split(' -> ')[-1]
                elif r['kind'] == 'getitem':
                    ent['obs'] = arr3(t[k2])
                else:
                    ent['obs'] = [arr3(v) for v in DaskLazyIndexer.get([objs[j] for j in r['objs']], k2)]
            except InjectedFault:
                ent['cls'] = 'fault'
            except Exception as e:
                ent['cls'] = 'error'
                ent['exc'] = '%s:%s' % (type(e).__name__, str(e)[:80])
            ent['calls'] = list(state['calls'])
            if r['kind'] in ('shape', 'dtype', 'len', 'str') or ent['cls'] != 'ret':
                ent['early'] = list(recstore.calls)
            out.append(ent)
        recstore.calls.clear()
    return out


def lazy_expected_obs(r, res):
    """what request r must deliver, given the spec outcomes res = [(cls, array, calls) ...] of its objects."""
    cls = res[-1][0]
    if cls != 'ret':
        return cls, None
    a = res[0][1]
    try:
        if r['kind'] == 'dataset':
            return 'ret', arr3(a)
        if r['kind'] == 'shape':
            return 'ret', tuple(a.shape)
        if r['kind'] == 'dtype':
            return 'ret', DT_CODE[np.dtype(a.dtype)]
        if r['kind'] == 'len':
            return ('ret', a.shape[0]) if a.ndim else ('error', None)
        if r['kind'] == 'str':
            return 'ret', '%s %s' % (tuple(a.shape), a.dtype)
        if r['kind'] == 'iter':
            return ('ret', [arr3(a[k]) for k in range(a.shape[0])]) if a.ndim else ('error', None)
        if r['kind'] == 'getitem':
            return 'ret', arr3(np_oindex(a, r['k2']))
        return 'ret', [arr3(np_oindex(b, r['k2'])) for _, b, _ in res]
    except Exception:
        return 'error', None


def lazy_sig(case, n, r, symptom):
    before = lazy_accesses(case)[:n]
    nested = any(case['objs'][j]['parent'] >= 0 for j in r['objs'])
    faulted_before = any(b['plan'] for b in before)
    return 'lazy;access=%s;nested=%s;after_faulted_request=%s;fault_now=%s;symptom=%s' % (
        r['kind'], nested, faulted_before, bool(r['plan']), symptom)


def compare_lazy(ctx, case, mo):
    """mo = wire_47 output [code_ok, model, spec, counter-model(in place)] or None when there is no model binary."""
    cj = lazy_json(case)
    pys = lazy_py_spec(case)
    if mo is not None:
        model = [[lazy_dec(o) for o in req] for req in mo[1]]
        spec = [[lazy_dec(o) for o in req] for req in mo[2]]
        counter = [[lazy_dec(o) for o in req] for req in mo[3]]
        flat = [[(c, None if a is None else arr3(a), l) for c, a, l in req] for req in pys]
        if spec != flat:
            ctx.disagree('lazy;coq_spec_vs_python', cj, flat, None, 'Coq spec z_spec_run differs from the python statement '
                         'of the atomic cached data set (harness/spec defect)', spec=spec, kind='tie')
            return
    impl = run_lazy_impl(case)
    ctx.traces_validated += 1
    discr = mo is not None and counter != spec
    acc = lazy_accesses(case)
    for n, (r, ent, res) in enumerate(zip(acc, impl, pys)):
        exp_cls, exp_obs = lazy_expected_obs(r, res)
        exp_calls = [c for _, _, l in res for c in l]
        show = dict(request=n, got=dict(cls=ent['cls'], obs=ent['obs'], calls=ent['calls'], exc=ent['exc']),
                    all_requests=[dict(cls=e['cls'], obs=e['obs'], calls=e['calls']) for e in impl])
        want = dict(cls=exp_cls, obs=exp_obs, calls=exp_calls)
        sym = None
        if ent['cls'] != exp_cls:
            if ent['cls'] == 'ret':
                sym = 'data_returned_where_it_must_raise'
            elif exp_cls == 'ret':
                sym = 'raises' if ent['cls'] != 'none' else 'returns_None'
            else:
                sym = 'raises_%s_instead_of_%s' % (ent['cls'], exp_cls)
        elif exp_cls == 'ret' and ent['obs'] != exp_obs:
            # is it what a PREFIX of the transform chain gives?  (half-built data set)
            sym = 'advertised_shape_dtype' if r['kind'] in ('shape', 'dtype', 'len', 'str') else 'wrong_data'
            if not r['plan'] and not ent['calls'] and exp_calls:
                sym = 'half_built_dataset_served'
        elif ent['calls'] != exp_calls:
            sym = 'transforms_applied_again' if len(ent['calls']) > len(exp_calls) else 'transform_calls_differ'
        elif ent['early']:
            sym = 'not_lazy'
            want['reads'] = []
            show['got']['reads'] = ent['early'][:6]
        if sym is not None:
            known = None
            if sym == 'wrong_data' and ent.get('zero_block') and ent.get('via_getitem') == exp_obs:
                known = F54_SIG
            elif ent['exc'] and 'Missing dependency' in ent['exc']:
                known = F23_SIG
            elif ent['exc'] and 'range() arg 3 must not be zero' in ent['exc']:
                known = F24_SIG
            ctx.disagree(known or lazy_sig(case, n, r, sym), cj, show, None if mo is None else mo[1], 'history of accesses to '
                         'DaskLazyIndexer.dataset (through .%s): request %d differs from the atomic, all-or-nothing, '
                         'cached computation transforms(array[stage 1]) (%s)' % (r['kind'], n, sym), spec=want)
            break
        if mo is not None:
            mres = model[n]
            m_cls = mres[-1][0]
            m_calls = [c for _, _, l in mres for c in l]
            m_first = mres[0][1]
            post = res[-1][0] == 'ret' and exp_cls != 'ret'      # the data set was delivered, the accessor then fails (len of 0-d)
            bad = (ent['cls'] != m_cls and not post) or ent['calls'] != m_calls
            if not bad and m_cls == 'ret' and r['kind'] == 'dataset' and ent['obs'] != m_first:
                bad = True
            if bad:
                ctx.disagree(lazy_sig(case, n, r, 'tie'), cj, show, mo[1], 'request %d differs from the extracted model of '
                             'the translated statement skeleton of DaskLazyIndexer.dataset' % n, spec=mo[2], kind='tie')
                break
    nfault = sum(1 for r in acc if r['plan'])
    retry = any(r['plan'] for r in acc[:-1])
    ctx.note_case(('lazy', tuple(case['shape']), repr(cj['objs']), repr(cj['hist'])),
                  nontrivial=bool(retry and any(len(o['trs']) >= 2 for o in case['objs'])),
                  sample=dict(shape=case['shape'], objs=cj['objs'], hist=cj['hist']))
    ctx.count('lazy:objects=%d' % len(case['objs']))
    ctx.count('lazy:requests', len(acc))
    ctx.count('lazy:src=' + case.get('src', 'from_array'))
    if len(acc) < len(case['hist']):
        ctx.count('lazy:index_arrays_mutated_between_requests')
    ctx.count('lazy:faulted_requests', nfault)
    if any(o['parent'] >= 0 for o in case['objs']):
        ctx.count('lazy:nested')
    if len({o['parent'] for o in case['objs'] if o['parent'] >= 0}) < sum(1 for o in case['objs'] if o['parent'] >= 0):
        ctx.count('lazy:shared_parent')
    if discr:
        ctx.count('lazy:history_separates_in_place_build')
    for r, res in zip(acc, pys):
        ctx.count('lazy:access=' + r['kind'])
        ctx.count('lazy:outcome=' + res[-1][0])


def run_lazy(ctx, cases):
    outs = [None] * len(cases)
    if ctx.model_ok:
        outs = ctx.model([wire_lazy(c) for c in cases])
        # when the translator refuses the current tree the pipeline falls back to the last model binary built; use it
        # for the tie only if it was built from the statement skeleton the tree has now
        from vh import core
        from vh.items import c04 as items
        cur = items.dataset_code(core.REPO)
        if outs and (cur is None or outs[0] == SX_ERR or outs[0][0] != cur):
            ctx.extra['lazy_model_binary'] = 'not built from the current DaskLazyIndexer.dataset: spec comparison only'
            outs = [None] * len(cases)
    for c, o in zip(cases, outs):
        compare_lazy(ctx, c, o)


# the history the engineers described for seeded change C04-6 (kept as a fixed regression input)
LAZY_FIXED = [
    dict(stream='lazy', shape=[2, 3], chunks=[[1, 1], [3]], as_array=True,
         objs=[dict(parent=-1, keep=[('s', None, None, None), ('l', [0, 2])], trs=[0, 2])],
         hist=[dict(kind='shape', objs=[0], plan=[[0, 1]], k2=[]), dict(kind='getitem', objs=[0], plan=[], k2=[('s', None, None, None), 0]),
               dict(kind='dataset', objs=[0], plan=[], k2=[])]),
    dict(stream='lazy', shape=[4], chunks=[[2, 2]], as_array=False,
         objs=[dict(parent=-1, keep=[('s', 1, None, None)], trs=[0]), dict(parent=0, keep=[('l', [2, 0])], trs=[2, 0]),
               dict(parent=0, keep=[], trs=[2])],
         hist=[dict(kind='dtype', objs=[1], plan=[[0, 0]], k2=[]), dict(kind='dtype', objs=[1], plan=[[1, 1]], k2=[]),
               dict(kind='get', objs=[2, 1], plan=[[1, 0]], k2=[]), dict(kind='get', objs=[1, 2], plan=[], k2=[])]),
]



# ---------------------------------------------------------------------------------------------
# the store as a recorded history: multi-step histories of public accesses over recording chunk stores
# (wire 48 = Model/DaskStore.v: log increment of every access)

STORE_META = ['shape', 'dtype', 'dataset', 'len', 'str', 'repr']


def gen_store_case(rng):
    nd = rng.randint(1, 3)
    shape = tuple(rng.randint(1, 6 if nd <= 2 else 4) for _ in range(nd))
    chunks = rnd_chunks(rng, shape)
    nstores = rng.choice([1, 2])
    x = np.arange(int(np.prod(shape))).reshape(shape)
    inds, dss = [], []

    def rnd_keep(shp):
        return [rnd_nonempty_contig(rng, n) for n in shp[:rng.randint(0, len(shp))]]

    for j in range(rng.randint(1, 3)):
        if j > 0 and rng.random() < 0.45:
            p = rng.randrange(j)
            ind = dict(store=inds[p]['store'], name=inds[p]['name'], parent=p, pre=None, keep=rnd_keep(dss[p].shape))
            base = dss[p]
        else:
            ind = dict(store=rng.randrange(nstores), name=rng.choice([0, 1]), parent=None, pre=None, keep=rnd_keep(shape))
            base = x
        ind['trs'] = list(rng.choice([[], [], [0], [2], [0, 2]]))
        ds = np_oindex(base, ind['keep'])
        for c in ind['trs']:
            ds = tr_np(c, ds)
        inds.append(ind)
        dss.append(ds)
    hist = []
    made = []

    def meta_op():
        j = rng.choice(made)
        kinds = [k for k in STORE_META if k != 'len' or dss[j].ndim >= 1]
        return dict(kind=rng.choice(kinds), objs=[j], k2=[])

    def fetch_op():
        j = rng.choice(made)
        k2 = rnd_keep(dss[j].shape)
        objs = [j]
        if rng.random() < 0.4:
            # a joint get: further objects of OTHER stored arrays with the same data set shape (sharing one stored
            # array between a culled and an un-culled selection is finding F48 and lives in the joint stream)
            for o in made:
                if o != j and dss[o].shape == dss[j].shape and \
                        all((inds[o]['store'], inds[o]['name']) != (inds[q]['store'], inds[q]['name']) for q in objs):
                    objs.append(o)
        return dict(kind='getitem' if len(objs) == 1 and rng.random() < 0.7 else 'get', objs=objs, k2=k2)

    for j in range(len(inds)):
        hist.append(dict(kind='new', objs=[j], k2=[]))
        made.append(j)
        for _ in range(rng.choice([0, 1, 1, 2])):
            hist.append(meta_op())
        if rng.random() < 0.3:
            hist.append(fetch_op())
    for _ in range(rng.randint(2, 5)):
        r = rng.random()
        if r < 0.2 and any(h['kind'] in ('get', 'getitem') for h in hist):
            hist.append(dict(rng.choice([h for h in hist if h['kind'] in ('get', 'getitem')])))   # the same request again
        elif r < 0.55:
            hist.append(meta_op())
        else:
            hist.append(fetch_op())
    return dict(stream='store', shape=list(shape), chunks=[list(c) for c in chunks], nstores=nstores, inds=inds, hist=hist)


def store_json(case):
    pl = lambda k: [list(i) if isinstance(i, tuple) else i for i in k]
    return dict(case, inds=[dict(i, keep=pl(i['keep'])) for i in case['inds']],
                hist=[dict(h, k2=pl(h['k2'])) for h in case['hist']])


def store_from_json(d):
    return dict(d, inds=[dict(i, keep=[from_json(k) for k in i['keep']]) for i in d['inds']],
                hist=[dict(h, k2=[from_json(k) for k in h['k2']]) for h in d['hist']])


def store_rind(case, j, k2):
    pseudo = dict(shape=case['shape'], inds=case['inds'], k2=k2)
    return [case['inds'][j]['store'], case['inds'][j]['name'],
            [[list(c), [to_wire(ix) for ix in ks]] for c, ks in zip(case['chunks'], joint_axes(pseudo, j))]]


def wire_store(case):
    ops = []
    for h in case['hist']:
        if h['kind'] == 'new':
            ops.append([0, store_rind(case, h['objs'][0], [])])
        elif h['kind'] in STORE_META:
            ops.append([1, store_rind(case, h['objs'][0], [])])
        else:
            ops.append([2, [store_rind(case, j, h['k2']) for j in h['objs']]])
    return [48, ops]


def run_store_impl(case):
    import dask
    from katdal.lazy_indexer import DaskLazyIndexer
    from fixtures import jointstore
    JRec, JLOG = jointstore.JRec, jointstore.LOG
    shape = tuple(case['shape'])
    chunks = tuple(tuple(c) for c in case['chunks'])
    res = []
    with warnings.catch_warnings(), dask.config.set(scheduler='sync'):
        warnings.simplefilter('ignore')
        JLOG.clear()
        stores = [JRec(s, x=jcontent(shape, s, 0), y=jcontent(shape, s, 1)) for s in range(case['nstores'])]
        roots, objs = {}, {}
        for h in case['hist']:
            r = dict(exc=None, val=None)
            try:
                j = h['objs'][0]
                k2 = tuple(to_py(i, True) for i in h['k2'])
                if h['kind'] == 'new':
                    ind = case['inds'][j]
                    if ind['parent'] is not None:
                        src = objs[ind['parent']]
                    else:
                        key = (ind['store'], ind['name'])
                        if key not in roots:
                            roots[key] = stores[key[0]].get_dask_array(NAMES[key[1]], chunks, np.dtype('int64'))
                        src = roots[key]
                    objs[j] = DaskLazyIndexer(src, tuple(to_py(i, True) for i in ind['keep']), [TR(c) for c in ind['trs']])
                elif h['kind'] == 'shape':
                    r['val'] = list(objs[j].shape)
                elif h['kind'] == 'dtype':
                    r['val'] = str(objs[j].dtype)
                elif h['kind'] == 'dataset':
                    d = objs[j].dataset
                    r['val'] = [list(d.shape), str(d.dtype)]
                elif h['kind'] == 'len':
                    r['val'] = len(objs[j])
                elif h['kind'] == 'str':
                    r['val'] = str(objs[j]).split(' -> ')[-1]
                elif h['kind'] == 'repr':
                    r['val'] = repr(objs[j]).split(': ')[-1].split(' at ')[0]
                elif h['kind'] == 'getitem':
                    r['val'] = [objs[j][k2]]
                else:
                    r['val'] = list(DaskLazyIndexer.get([objs[o] for o in h['objs']], k2))
            except Exception as e:
                r['exc'] = '%s:%s' % (type(e).__name__, str(e)[:80])
            r['calls'] = sorted((t, NAMES.index(n), c) for t, l in JLOG.items() for n, c in l)
            JLOG.clear()
            res.append(r)
    return res


def store_sig(case, n, symptom):
    h = case['hist'][n]
    fetched_before = any(g['kind'] in ('get', 'getitem') for g in case['hist'][:n])
    nested = any(case['inds'][j]['parent'] is not None for j in h['objs'])
    repeat = any(g['kind'] in ('get', 'getitem') and g['objs'] == h['objs'] and g['k2'] == h['k2'] for g in case['hist'][:n])
    return 'store;access=%s;n=%d;nested=%s;after_a_fetch=%s;repeat=%s;symptom=%s' % (
        h['kind'], len(h['objs']), nested, fetched_before, repeat, symptom)


def compare_store(ctx, case, mo):
    cj = store_json(case)
    shape = tuple(case['shape'])
    offs = [np.concatenate([[0], np.cumsum(c)]).tolist() for c in case['chunks']]
    grid = [set(zip(o[:-1], o[1:])) for o in offs]
    dsets, _ = joint_np(dict(shape=case['shape'], inds=case['inds'], k2=[]))
    impl = run_store_impl(case)
    ctx.traces_validated += 1
    model = None
    if mo is not None and mo != SX_ERR:
        model = [None if o == [0] else sorted((c[0], c[1], tuple((a, b) for a, b in c[2])) for c in o[1]) for o in mo[0]]
        if mo[2] != [0, 1]:
            # (also a stale binary built from another tree while the translator refuses the current one)
            ctx.disagree('store;translated_compute_counts', cj, mo[2], [0, 1], 'the translator counts a dask computation '
                         'in an accessor that must not compute (or not exactly one in get())', kind='tie')
            model = None
    else:
        ctx.extra['store_model_binary'] = 'not available: python oracle only'
    for n, (h, r) in enumerate(zip(case['hist'], impl)):
        ctx.count('store:op=' + h['kind'])
        fetch = h['kind'] in ('get', 'getitem')
        if r['exc'] is not None:
            ctx.disagree(store_sig(case, n, 'raises'), dict(cj, at=n), r['exc'], None,
                         'a public access of a valid lazy indexer raised')
            return
        if not fetch:
            if r['calls']:
                ctx.disagree(store_sig(case, n, 'read_before_element_requested'), dict(cj, at=n), r['calls'][:6], [],
                             'the store was asked for chunks by an access that requests no element '
                             '(construction / .shape / .dtype / .dataset / len / str / repr)')
            if model is not None and model[n] != []:
                ctx.disagree(store_sig(case, n, 'tie:model_reads_on_meta'), dict(cj, at=n), r['calls'][:6], model[n],
                             'the translated model reads on an access that requests no element', kind='tie')
            j = h['objs'][0]
            e = dsets[j]
            want = {'shape': list(e.shape), 'dtype': str(e.dtype), 'dataset': [list(e.shape), str(e.dtype)],
                    'len': e.shape[0] if e.ndim else None, 'str': '%s %s' % (tuple(e.shape), e.dtype),
                    'repr': 'shape %s, type %s' % (tuple(e.shape), e.dtype), 'new': None}[h['kind']]
            if h['kind'] != 'new' and r['val'] != want:
                ctx.disagree(store_sig(case, n, 'advertised_shape_dtype'), dict(cj, at=n), r['val'], want,
                             'shape / dtype advertised before the fetch differ from transform(array[stage 1])')
            continue
        exp, touched = joint_np(dict(shape=case['shape'], inds=case['inds'], k2=h['k2']))
        sel = h['objs']
        oracle = joint_oracle_reads(dict(chunks=case['chunks'], inds=[case['inds'][j] for j in sel]),
                                    [touched[j] for j in sel])
        for o, j in zip(r['val'], sel):
            if not same(o, exp[j]):
                ctx.disagree(store_sig(case, n, 'wrong_data'), dict(cj, at=n),
                             dict(shape=list(o.shape), dtype=str(o.dtype), values=o.astype(np.int64).ravel().tolist()[:24]),
                             exp[j].tolist(), 'a fetch inside a history differs from transform(array[stage 1])[stage 2]')
        got = r['calls']
        if model is not None and model[n] != oracle:
            ctx.disagree(store_sig(case, n, 'coq_reads_vs_oracle'), dict(cj, at=n), oracle, model[n],
                         'Coq store-history model differs from the numpy statement of "whole chunks touched by the '
                         'request, each once" (harness/spec defect)', kind='tie')
            continue
        if got != oracle:
            gs, es = set(got), set(oracle)
            part = [c for c in got if any(se not in grid[a] for a, se in enumerate(c[2]))]
            sym = ('partial_chunk_requested' if part else 'chunk_read_twice' if gs == es else 'over_read' if gs > es
                   else 'under_read' if gs < es else 'other_reads')
            ctx.disagree(store_sig(case, n, sym), dict(cj, at=n), got, oracle, 'the get_chunk calls recorded during an '
                         'element request differ from: the whole stored chunks overlapping the requested region, each once')
        ctx.count('store:fetch_compared')
        if any(g['kind'] in ('get', 'getitem') and g['objs'] == h['objs'] and g['k2'] == h['k2'] for g in case['hist'][:n]):
            ctx.count('store:repeated_request')
    nf = sum(1 for h in case['hist'] if h['kind'] in ('get', 'getitem'))
    ctx.count('store:fetches=%d' % min(nf, 4))
    ctx.count('store:objects=%d' % len(case['inds']))
    if any(i['parent'] is not None for i in case['inds']):
        ctx.count('store:nested')
    if any(len(h['objs']) > 1 for h in case['hist']):
        ctx.count('store:joint_get')
    ctx.note_case(('store', tuple(case['shape']), repr(case['chunks']), repr(cj['inds']), repr(cj['hist'])),
                  nontrivial=nf >= 2 and any(h['kind'] in STORE_META for h in case['hist']),
                  sample=dict(shape=case['shape'], chunks=case['chunks'], inds=cj['inds'], hist=cj['hist']))


STORE_FIXED = [
    dict(stream='store', shape=[3, 6], chunks=[[2, 1], [3, 1, 2]], nstores=1,
         inds=[dict(store=0, name=0, parent=None, pre=None, keep=[('s', 1, 3, None), ('s', 2, 5, None)], trs=[0]),
               dict(store=0, name=0, parent=0, pre=None, keep=[('s', 0, 1, None)], trs=[2])],
         hist=[dict(kind='new', objs=[0], k2=[]), dict(kind='shape', objs=[0], k2=[]), dict(kind='new', objs=[1], k2=[]),
               dict(kind='dtype', objs=[1], k2=[]), dict(kind='repr', objs=[1], k2=[]),
               dict(kind='getitem', objs=[1], k2=[0, ('s', 1, 3, None)]), dict(kind='len', objs=[0], k2=[]),
               dict(kind='getitem', objs=[1], k2=[0, ('s', 1, 3, None)]), dict(kind='get', objs=[0], k2=[])]),
]


def run_store(ctx, cases):
    outs = [None] * len(cases)
    if ctx.model_ok:
        try:
            outs = ctx.model([wire_store(c) for c in cases])
        except Exception as e:                 # a model binary built without Model/DaskStore.v
            ctx.extra['store_model_binary'] = 'unavailable: %s' % str(e)[-120:]
    for c, o in zip(cases, outs):
        compare_store(ctx, c, o)

# ---------------------------------------------------------------------------------------------

F20_WITNESS = dict(shape=[5], chunks=[[2, 3]], levels=[[[], []]], k2=[['s', -6, 2, -2]], src='from_array',
                   as_array=True, mutate=False, joint=False, f20=True)


def run_findings(ctx):
    for f in ctx.findings:
        w = f.get('witness') or {}
        if w.get('stream') == 'lazy':
            run_lazy(ctx, [lazy_from_json(w)])
        elif w.get('stream') == 'store':
            run_store(ctx, [store_from_json(w)])
        elif w.get('stream') == 'reads':
            case = dict(w['case'], stages=[[from_json(i) for i in k] for k in w['case']['stages']])
            compare_reads(ctx, case, ctx.model([wire_reads(case)])[0])
        elif 'inds' in w:
            run_joint(ctx, [joint_from_json(w)])
        elif 'levels' in w:
            case = case_from_json(w)
            compare(ctx, case, ctx.model([wire_case(case)])[0])


def run(ctx):
    if not ctx.model_ok:
        # no model binary at all: the fault histories still have their python statement of the spec
        run_lazy(ctx, LAZY_FIXED + [gen_lazy_case(ctx.rng) for _ in range(ctx.scale(400, 4000))])
        run_store(ctx, STORE_FIXED + [gen_store_case(ctx.rng) for _ in range(ctx.scale(250, 3000))])
        raise RuntimeError('no model binary: cannot run the correspondence')
    run_findings(ctx)
    run_lazy(ctx, LAZY_FIXED + [gen_lazy_case(ctx.rng) for _ in range(ctx.scale(400, 4000))])
    stream_slices(ctx)
    stream_range_to_slice(ctx)
    stream_simplify(ctx)
    rng = ctx.rng
    cases = [gen_case(rng) for _ in range(ctx.scale(2500, 40000))]
    outs = ctx.model([wire_case(c) for c in cases])
    for c, o in zip(cases, outs):
        compare(ctx, c, o)
    rcases = [gen_reads_case(rng) for _ in range(ctx.scale(500, 6000))]
    routs = ctx.model([wire_reads(c) for c in rcases])
    for c, o in zip(rcases, routs):
        compare_reads(ctx, c, o)
    jcases = [gen_joint_case(rng) for _ in range(ctx.scale(700, 8000))]
    run_joint(ctx, jcases)
    run_store(ctx, STORE_FIXED + [gen_store_case(rng) for _ in range(ctx.scale(250, 3000))])
    if ctx.tier == 'thorough':
        exhaustive_small(ctx)
        cross_check_extraction(ctx, cases[:150], rcases[:50], jcases[:60])


def small_alphabet(n):
    out = [('s', None, None, None)]
    out += list(range(-n, n))
    for a in [None] + list(range(-n - 1, n + 2)):
        for b in [None] + list(range(-n - 1, n + 2)):
            for c in (None, 2, -1, -2):
                out.append(('s', a, b, c))
    for m in itertools.product([False, True], repeat=n):
        out.append(('m', list(m)))
    for r in range(0, 3):
        for l in itertools.product(range(-n, n), repeat=r):
            out.append(('l', list(l)))
    return out


def exhaustive_small(ctx):
    """all (stage 1, stage 2) index pairs on 1-D arrays of length <= 3 and a sample of pairs on shapes <= (3,3)."""
    rng = ctx.rng
    cases = []
    for n in (1, 2, 3):
        x = np.arange(n)
        for k1 in small_alphabet(n):
            try:
                s1 = np_oindex(x, [k1])
            except Exception:
                continue
            if s1.ndim == 0:
                cases.append(dict(shape=[n], chunks=[[n]] if n < 2 else [[1, n - 1]], levels=[([k1], [])], k2=[],
                                  src='from_array', as_array=True, mutate=False, joint=False, f20=has_f20((n,), [k1])))
                continue
            alpha2 = small_alphabet(s1.shape[0]) if s1.shape[0] <= 3 else [('s', None, None, None)]
            if len(alpha2) > 40:
                alpha2 = rng.sample(alpha2, 40)
            for k2 in alpha2:
                cases.append(dict(shape=[n], chunks=[[n]] if n < 2 else [[1, n - 1]], levels=[([k1], [])], k2=[k2],
                                  src='from_array', as_array=True, mutate=False, joint=False,
                                  f20=has_f20((n,), [k1]) or has_f20(s1.shape, [k2])))
    outs = ctx.model([wire_case(c) for c in cases])
    for c, o in zip(cases, outs):
        compare(ctx, c, o)
    ctx.extra['small_1d_pairs'] = len(cases)


def cross_check_extraction(ctx, cases, rcases, jcases=()):
    from vh import core
    wc = [wire_case(c) for c in cases] + [wire_reads(c) for c in rcases] + [wire_joint(c) for c in jcases] \
        + [wire_joint_reads(c) for c in jcases if c['contig']]
    a = ctx.model(wc)
    # the thorough tier cleans the Coq tree and rebuilds only this property's cone: make sure every model the
    # dispatcher imports is compiled before evaluating inside Coq
    targets = ' '.join(s[:-2] + '.vo' for s in core.coq_sources() if s.startswith(('Base/', 'Gen/', 'Model/')))
    with core.BuildLock():
        core.sh('timeout 1200 make -j4 %s' % targets, cwd=core.COQ, timeout=1300)
        core.sh('timeout 600 coqc -Q . KV Extract/Dispatch.v', cwd=core.COQ, timeout=700)
    try:
        b = core.run_model_in_coq(wc, 'c04')
    except RuntimeError as e:
        ctx.extra['extraction_cross_check'] = 'unavailable: ' + str(e)[-200:]
        return
    bad = [i for i in range(len(wc)) if a[i] != b[i]]
    ctx.extra['extraction_cross_checked'] = len(wc)
    if bad:
        ctx.disagree('extraction_vs_vm_compute', dict(wire=wc[bad[0]]), a[bad[0]], b[bad[0]],
                     'extracted OCaml model differs from vm_compute inside Coq', kind='tie')


def replay(ctx, doc):
    case = doc.get('case', {})
    if case.get('stream') == 'lazy':
        run_lazy(ctx, [lazy_from_json(case)])
    elif case.get('stream') == 'store':
        run_store(ctx, [store_from_json({k: v for k, v in case.items() if k != 'at'})])
    elif 'inds' in case:
        run_joint(ctx, [joint_from_json(case)])
    elif 'stages' in case:
        c = dict(case, stages=[[from_json(i) for i in k] for k in case['stages']])
        compare_reads(ctx, c, ctx.model([wire_reads(c)])[0])
    elif 'levels' in case:
        c = case_from_json(case)
        compare(ctx, c, ctx.model([wire_case(c)])[0])
    else:
        run(ctx)
