"""A tiny loopback HTTP server that plays the part of an S3 endpoint for the C08 fault cases.

Objects live in a dict {path: bytes}.  Per-path fault plans decide what a GET receives:
  ('ok',)            the whole object
  ('cut', k)         status 200, Content-Length of the WHOLE object, only the first k body bytes, then close
  ('status', code)   an HTTP error status with a short XML body
  ('raw', cl, body)  status 200, Content-Length cl (None: no Content-Length header at all), exactly `body`, then close:
                     an object truncated IN THE STORE is ('raw', k, obj[:k]) -- the server honestly announces what it
                     holds; a transfer cut short is ('raw', len(obj), obj[:k]); any other combination is possible
PUT requests are answered from `put_plans[path]`, a list of statuses used up one per attempt (then 200); the object
is stored exactly when the answer is 2xx.  `put_log` records (path, status, number of body bytes) per attempt.
Unknown paths get 404; a bucket listing (GET /bucket?max-keys=1) answers with one <Contents> element
unless the bucket is listed in `empty_buckets` / `missing_buckets`.
"""
import http.server
import socket
import threading
import urllib.parse


class _Handler(http.server.BaseHTTPRequestHandler):
    protocol_version = 'HTTP/1.1'

    def log_message(self, *a):
        pass

    def _send(self, status, body, ctype='application/xml', length=None, close=True, no_length=False):
        self.send_response(status)
        self.send_header('Content-Type', ctype)
        if not no_length:
            self.send_header('Content-Length', str(len(body) if length is None else length))
        if close:
            self.send_header('Connection', 'close')
        self.end_headers()
        self.wfile.write(body)
        self.wfile.flush()
        self.close_connection = True

    def do_GET(self):
        srv = self.server
        parts = urllib.parse.urlsplit(self.path)
        path = urllib.parse.unquote(parts.path)
        with srv.lock:
            srv.requests.append(path)
            plan = srv.plans.get(path) or srv.default_plan
            obj = srv.objects.get(path)
        comps = path.strip('/').split('/')
        if len(comps) == 1:     # bucket listing
            b = comps[0]
            if b in srv.missing_buckets:
                return self._send(404, b'<Error><Code>NoSuchBucket</Code></Error>')
            if b in srv.empty_buckets:
                return self._send(200, b'<ListBucketResult></ListBucketResult>')
            return self._send(200, b'<ListBucketResult><Contents><Key>x</Key></Contents></ListBucketResult>')
        if plan[0] == 'status':
            return self._send(plan[1], b'<Error><Code>Injected</Code></Error>')
        if plan[0] == 'raw':
            obj = b''
        if obj is None:
            return self._send(404, b'<Error><Code>NoSuchKey</Code></Error>')
        if plan[0] == 'raw':
            self._send(200, plan[2], ctype='application/octet-stream', length=plan[1], no_length=plan[1] is None)
            try:
                self.connection.shutdown(socket.SHUT_RDWR)
            except OSError:
                pass
            return
        if plan[0] == 'cut':
            k = plan[1]
            self._send(200, obj[:k], ctype='application/octet-stream', length=len(obj))
            try:
                self.connection.shutdown(socket.SHUT_RDWR)
            except OSError:
                pass
            return
        return self._send(200, obj, ctype='application/octet-stream')


    def do_PUT(self):
        srv = self.server
        path = urllib.parse.unquote(urllib.parse.urlsplit(self.path).path)
        n = int(self.headers.get('Content-Length') or 0)
        body = self.rfile.read(n) if n else b''
        with srv.lock:
            seq = srv.put_plans.get(path)
            status = seq.pop(0) if seq else 200
            if 200 <= status < 300 and len(path.strip('/').split('/')) > 1:
                srv.objects[path] = body
            srv.put_log.append((path, status, len(body)))
        if status < 200 or status in (204, 304):
            return self._send(status, b'')
        return self._send(status, b'<Error><Code>Injected</Code></Error>' if status >= 300 else b'')


class FakeS3:
    def __init__(self):
        self.httpd = http.server.ThreadingHTTPServer(('127.0.0.1', 0), _Handler)
        self.httpd.daemon_threads = True
        h = self.httpd
        h.lock = threading.Lock()
        h.objects = {}
        h.plans = {}
        h.default_plan = ('ok',)
        h.requests = []
        h.put_plans = {}
        h.put_log = []
        h.empty_buckets = set()
        h.missing_buckets = set()
        self.port = h.server_address[1]
        self.url = 'http://127.0.0.1:%d' % self.port
        self.thread = threading.Thread(target=h.serve_forever, kwargs={'poll_interval': 0.05}, daemon=True)
        self.thread.start()

    def put(self, path, data):
        with self.httpd.lock:
            self.httpd.objects[path] = bytes(data)

    def plan(self, path, plan):
        with self.httpd.lock:
            if plan is None:
                self.httpd.plans.pop(path, None)
            else:
                self.httpd.plans[path] = plan

    def put_plan(self, path, statuses):
        with self.httpd.lock:
            if statuses is None:
                self.httpd.put_plans.pop(path, None)
            else:
                self.httpd.put_plans[path] = list(statuses)

    def get(self, path):
        with self.httpd.lock:
            return self.httpd.objects.get(path)

    def remove(self, path):
        with self.httpd.lock:
            self.httpd.objects.pop(path, None)

    def attempts(self, path):
        with self.httpd.lock:
            return [st for (p, st, _) in self.httpd.put_log if p == path]

    def default(self, plan):
        with self.httpd.lock:
            self.httpd.default_plan = plan

    def close(self):
        self.httpd.shutdown()
        self.httpd.server_close()


def closed_port():
    """A loopback port nobody listens on (connection refused)."""
    s = socket.socket()
    s.bind(('127.0.0.1', 0))
    port = s.getsockname()[1]
    s.close()
    return port
