"""C18 — Telstate stream resolution and flag-stream upgrade."""
import itertools
import os
import shutil
import urllib.parse

import katsdptelstate
import numpy as np
from katsdptelstate.rdb_writer import RDBWriter

from fixtures import v4
from katdal.datasources import (DataSourceNotFound, TelstateDataSource, view_capture_stream,
                                view_l0_capture_stream)

RULE = ('(a) inherit chains of length 0-3: view prefixes; (b) every non-empty subset of the six namespaces of a 1-step '
        'chain (63, exhaustive) and random subsets for longer chains, holding an attribute and a sensor with a distinct '
        'value per namespace; every PAIR of the six namespaces x 3 naming schemes (rank order differs from key length and '
        'sort order) x both insertion orders; random key sets from a grammar (mutable / immutable keys under view prefixes, '
        'foreign prefixes, keys equal to a prefix, aliased names) seen through capture-stream views and exclusive views: the '
        'COMPLETE sensor table name -> key; _relative_view prefixes and lookups; (c) capture block and stream overrides: '
        'file x URL query x keyword matrix on a file with 3 capture blocks x 4 streams through from_url / open_data_source / '
        'katdal.open (plain path and file:// URL), wrong stream type, unknown ids; unreadable sources (missing, directory, '
        'empty, garbage, truncated RDB, unknown schemes) x entry point x keywords; (d) archived flag stream sets with types, '
        'sources, shapes, dump counts and the placement of stream_type / src_streams / chunk_info among the namespaces of the '
        'candidate and of its inherit chain (absent included), opened in every way; _align_chunk_info on random chunk '
        'layouts. Non-trivial = key defined in >= 2 namespaces / >= 1 candidate flag stream / an override present; '
        'distinct by full configuration.')
ASSUMPTIONS = ['katsdptelstate view semantics (ordered prefixes, first match) and sorted key order are modelled, not verified',
               'cyclic inherit chains make the real loop diverge and are excluded',
               'all arrays of one stream have the same number of dumps; an archived flag stream holds only a flags array',
               'a source with neither data nor synthesised timestamps (chunk_store=None and timestamps given) derives nothing '
               'from the streams: only the given timestamps are compared there',
               'redis:// and http(s):// sources need a network and are not exercised',
               'a truncated RDB file must be either not found or opened with the content of the complete file']


def codes(s):
    return [ord(c) for c in s]


def sig_case(d):
    return d


# --------------------------------------------------------------------------- prefixes

def check_prefixes(ctx, chain):
    """chain = [stream, inh1, inh2...]"""
    ts = katsdptelstate.TelescopeState()
    for a, b in zip(chain, chain[1:]):
        ts[a + '_inherit'] = b
    got = list(view_capture_stream(ts, 'cb', chain[0]).prefixes)
    names = list(chain)
    st = [[codes(a + '_inherit'), 0, names.index(b)] for a, b in zip(chain, chain[1:])]
    case = dict(chain=chain)
    if ctx.model_ok:
        mo = ctx.model([[18, [1, st, [codes(n) for n in names], codes('cb'), codes(chain[0])]]])[0]
        model = [''.join(map(chr, p)) for p in mo[0]]
        spec = [''.join(map(chr, p)) for p in mo[1]]
    else:
        model = got
        spec = ['cb_%s_' % s for s in chain] + ['cb_'] + [s + '_' for s in chain] + ['']
    if got != model:
        ctx.disagree('what=prefixes_tie', case, got, model, 'view prefixes differ from model', kind='tie')
    if got != spec:
        ctx.disagree('what=prefix_order;chain_len=%d' % len(chain), case, got, None,
                     'namespace order is not cb+stream, cb+inherited, cb, stream, inherited, global', spec=spec)
    ctx.traces_validated += 1
    ctx.note_case(('prefixes', tuple(chain)), nontrivial=len(chain) > 1, sample=dict(kind='prefixes', **case))
    ctx.count('prefixes')
    return spec


# --------------------------------------------------------------------------- placements

def check_placement(ctx, chain, subset_attr, subset_sens):
    """subset_*: indices (into the spec prefix list) of namespaces that define attribute 'attr' / sensor 'foo'."""
    ts = katsdptelstate.TelescopeState()
    for a, b in zip(chain, chain[1:]):
        ts[a + '_inherit'] = b
    prefixes = ['cb_%s_' % s for s in chain] + ['cb_'] + [s + '_' for s in chain] + ['']
    for i in subset_attr:
        ts[prefixes[i] + 'attr'] = 100 + i
    for i in subset_sens:
        ts.add(prefixes[i] + 'foo', 200.0 + i, ts=1.0)
    ts['sdp_l0x_unused'] = 0
    view = view_capture_stream(ts, 'cb', chain[0])
    case = dict(chain=chain, attr_in=[prefixes[i] for i in subset_attr], sensor_in=[prefixes[i] for i in subset_sens])
    # attribute
    got_attr = view.get('attr')
    exp_attr = 100 + min(subset_attr) if subset_attr else None
    # sensor through the real TelstateDataSource
    src = TelstateDataSource(view, 'cb', chain[0], chunk_store=None, timestamps=np.arange(3.0))
    sensors = src.metadata.sensors
    got_sens = sensors['foo'].name if 'foo' in sensors else None
    exp_sens = prefixes[min(subset_sens)] + 'foo' if subset_sens else None
    if ctx.model_ok:
        keys = sorted(ts.keys())
        st = []
        for k in keys:
            mut = ts.key_type(k) == katsdptelstate.KeyType.MUTABLE
            val = int(ts.get_range(k, st=0)[0][0]) if mut else (ts[k] if isinstance(ts[k], int) else 0)
            st.append([codes(k), int(mut), val])
        pw = [codes(p) for p in prefixes]
        mo = ctx.model([[18, [2, st, pw, codes('attr')]], [18, [3, st, pw, [codes('foo')]]]])
        m_attr = mo[0][0] if mo[0] else None
        m_sens = ''.join(map(chr, mo[1][0][0][0])) if mo[1][0][0] else None
        s_sens = ''.join(map(chr, mo[1][0][1][0])) if mo[1][0][1] else None
        if got_attr != m_attr:
            ctx.disagree('what=attr_tie', case, got_attr, m_attr, 'attribute lookup differs from model', kind='tie')
        if got_sens != m_sens:
            ctx.disagree('what=sensor_tie', case, got_sens, m_sens, 'sensor table differs from model', kind='tie')
        if s_sens != exp_sens:
            ctx.disagree('what=spec_sensor_selfcheck', case, s_sens, exp_sens, 'Coq spec_sensor differs from harness expectation')
    if got_attr != exp_attr:
        ctx.disagree('what=attr_most_specific', case, got_attr, None,
                     'attribute not taken from the most specific namespace that defines it', spec=exp_attr)
    if got_sens != exp_sens:
        sig = ('sensor;namespaces>=2;less_specific_wins' if len(subset_sens) >= 2 and got_sens is not None
               else 'what=sensor_most_specific;namespaces=%d' % len(subset_sens))
        ctx.disagree(sig, case, got_sens, None,
                     'sensor not taken from the most specific namespace that defines it', spec=exp_sens)
    ctx.traces_validated += 1
    ctx.note_case(('place', tuple(chain), tuple(subset_attr), tuple(subset_sens)),
                  nontrivial=len(subset_attr) >= 2 or len(subset_sens) >= 2,
                  sample=dict(kind='placement', **case))
    ctx.count('placement:chain%d' % len(chain))


# --------------------------------------------------------------------------- the whole sensor table

def make_view(ts, cb, chain, kind):
    """kind: 'capture' = view_capture_stream on the root telstate; 'exclusive' = the same namespaces without the
    global one (TelstateDataSource accepts any view); 'flat' = cb+stream, cb, stream only (no inherit)."""
    if kind == 'capture':
        return view_capture_stream(ts, cb, chain[0])
    streams = list(reversed(chain)) if kind == 'exclusive' else [chain[0]]
    v = ts.view(streams[0], exclusive=True)
    for st_ in streams[1:]:
        v = v.view(st_)
    v = v.view(cb)
    for st_ in streams:
        v = v.view(ts.join(cb, st_))
    return v


def first_prefix(prefixes, key):
    for i, p in enumerate(prefixes):
        if key.startswith(p):
            return i
    return None


def check_sensor_table(ctx, case):
    """case: cb, chain, view, keys = [[full key, mutable?], ...] (in insertion order)."""
    cb, chain, kind = case['cb'], case['chain'], case['view']
    ts = katsdptelstate.TelescopeState()
    for a, b in zip(chain, chain[1:]):
        ts[a + '_inherit'] = b
    seen = set()
    case = dict(case, keys=[km for km in case['keys'] if not (km[0] in seen or seen.add(km[0]))])   # one entry per key
    for i, (k, mut) in enumerate(case['keys']):
        if mut == 2:
            ts.set_indexed(k, 'sub', 100 + i)          # an indexed key is no sensor either
        elif mut:
            ts.add(k, 200.0 + i, ts=1.0)
        else:
            ts[k] = 100 + i
    view = make_view(ts, cb, chain, kind)
    prefixes = list(view.prefixes)
    try:
        src = TelstateDataSource(view, cb, chain[0], chunk_store=None, timestamps=np.arange(3.0))
    except Exception as e:   # noqa
        ctx.disagree('what=sensor_table;view=%s;symptom=raises;exc=%s' % (kind, type(e).__name__), case, repr(e)[:200], None,
                     'the data source cannot be constructed on this set of keys')
        ctx.note_case(('sensors', repr(case)))
        return
    got = {n: g.name for n, g in src.metadata.sensors.items()}
    mutable = {k for k, m in case['keys'] if m is True or m == 1}
    # the DATA of a sensor are those stored under the chosen key
    stored = {k: 200.0 + i for i, (k, m) in enumerate(case['keys']) if k in mutable}
    wrong_data = {n: k for n, k in got.items() if k in stored and list(src.metadata.sensors[n].get().value) != [stored[k]]}
    if wrong_data:
        ctx.disagree('what=sensor_data;view=%s' % kind, case, wrong_data, None, 'a sensor does not deliver the data stored under its key')
    # property: for a name that is not aliased, the mutable key of the FIRST namespace of the view that has one
    names = set(got)
    for k in mutable:
        for p in prefixes:
            if k.startswith(p) and len(k) > len(p):
                names.add(k[len(p):])
    exp = {}
    for n in sorted(names):
        owners = [p for p in prefixes if p + n in mutable]
        if all(first_prefix(prefixes, p + n) == prefixes.index(p) for p in owners):
            exp[n] = owners[0] + n if owners else None
    nmax = max([sum(1 for p in set(prefixes) if p + n in mutable) for n in names] or [0])
    if ctx.model_ok:
        keys = sorted(ts.keys())
        st = [[codes(k), int(k in mutable), 0] for k in keys]
        pw = [codes(q) for q in prefixes]
        order = sorted(names)
        mo = ctx.model([[18, [13, st, pw]], [18, [3, st, pw, [codes(n) for n in order]]]])
        mnames = sorted(''.join(map(chr, n)) for n in mo[0])
        model = {}
        for n, r in zip(order, mo[1]):
            if r[0]:
                model[n] = ''.join(map(chr, r[0][0]))
            if n in exp and (''.join(map(chr, r[1][0])) if r[1] else None) != exp[n]:
                ctx.disagree('what=spec_sensor_selfcheck', case, None, r[1], 'Coq spec_sensor differs from harness expectation', spec=exp[n])
        if mnames != sorted(model):
            ctx.disagree('what=sensor_names_model', case, None, mnames, 'sensor_names differs from the table of the model', spec=sorted(model))
        if got != model:
            ctx.disagree('what=sensor_tie;view=%s' % kind, case, got, model, 'sensor table differs from model', kind='tie')
    bad = sorted(n for n in exp if got.get(n) != exp[n])
    if bad:
        n = bad[0]
        k = sum(1 for q in set(prefixes) if q + n in mutable)
        sig = ('sensor;namespaces>=2;less_specific_wins' if k >= 2 and got.get(n) is not None
               else 'what=sensor_most_specific;namespaces=%d;got=%s' % (k, 'none' if got.get(n) is None else 'other'))
        ctx.disagree(sig, case, {m: got.get(m) for m in bad}, None,
                     'sensor not taken from the most specific namespace that defines it', spec={m: exp[m] for m in bad})
    ctx.traces_validated += 1
    ctx.note_case(('sensors', repr(case)), nontrivial=nmax >= 2, sample=dict(kind='sensor_table', **case))
    ctx.count('sensor_table:%s:%s' % (kind, 'multi' if nmax >= 2 else 'single'))


NAMINGS = [('cb', ['s', 'base']), ('c', ['stream', 'b']), ('1234567890', ['sdp_l0', 'l0']), ('zz', ['ab', 'ab_c']), ('s', ['s', 't'])]


def gen_sensor_case(rng):
    cb, chain = rng.choice(NAMINGS + [('cb', ['s']), ('cb', ['s', 'b1', 'b2'])])
    kind = rng.choice(['capture', 'capture', 'exclusive', 'flat'])
    spec = ['%s_%s_' % (cb, x) for x in chain] + [cb + '_'] + [x + '_' for x in chain] + ['']
    names = rng.sample(['foo', 'bar', 'x', chain[0] + '_foo', chain[-1] + '_bar', 'foo_bar'], rng.randint(1, 3))
    keys = {}
    for n in names:
        for q in rng.sample(spec, rng.randint(0, min(4, len(spec)))):
            keys[q + n] = rng.random() < 0.8 or (2 if rng.random() < 0.25 else False)
    for _ in range(rng.randint(0, 3)):
        keys[rng.choice(['zz_', 'cb_other_', 'other_', cb]) + rng.choice(names)] = rng.random() < 0.7
    if rng.random() < 0.3:
        keys[rng.choice(spec[:-1])] = True            # a key that equals a prefix
    keys = [[k, m] for k, m in keys.items() if not k.endswith('_inherit') and k]
    rng.shuffle(keys)
    return dict(cb=cb, chain=chain, view=kind, keys=keys)


# --------------------------------------------------------------------------- _relative_view

def check_relative(ctx, case):
    """case: cb, chain, view, name, attr_in (indices of the relative namespaces that define 'attr')."""
    from katdal.visdatav4 import _relative_view
    cb, chain, kind, name = case['cb'], case['chain'], case['view'], case['name']
    ts = katsdptelstate.TelescopeState()
    for a, b in zip(chain, chain[1:]):
        ts[a + '_inherit'] = b
    view = ts if kind == 'root' else make_view(ts, cb, chain, kind)
    prefixes = list(view.prefixes)
    exp_prefixes = [q + name + '_' for q in prefixes]
    for i in sorted(i % len(prefixes) for i in case['attr_in']):
        if exp_prefixes[i] + 'attr' not in ts:          # (a view may list a prefix twice, e.g. capture block = stream)
            ts[exp_prefixes[i] + 'attr'] = 100 + i
    ts['attr'] = -1                  # the relative view is exclusive: the global key must not be seen
    ts[name + '_other'] = 5
    rv = _relative_view(view, name)
    got = (list(rv.prefixes), rv.get('attr'), view.get(name + '_attr'))
    idx = sorted(i % len(prefixes) for i in case['attr_in'])
    e = 100 + idx[0] if idx else None
    exp = (exp_prefixes, e, e)
    if ctx.model_ok:
        mo = ctx.model([[18, [11, [codes(q) for q in prefixes], codes(name)]]])[0]
        model = [''.join(map(chr, q)) for q in mo[0]] if mo else None
        if got[0] != model:
            ctx.disagree('what=relative_view_tie', case, got[0], model, '_relative_view prefixes differ from model', kind='tie')
        if mo and mo[0] != mo[1]:
            ctx.disagree('what=relative_model_vs_spec', case, None, mo[0], 'model of _relative_view differs from Coq spec', spec=mo[1])
    if got != exp:
        ctx.disagree('what=relative_view;symptom=%s' % ('prefixes' if got[0] != exp[0] else 'lookup'), case, got, None,
                     'attributes of another stream are not read relative to the namespaces of the view, most specific first',
                     spec=exp)
    ctx.traces_validated += 1
    ctx.note_case(('relative', repr(case)), nontrivial=len(idx) >= 2, sample=dict(kind='relative_view', **case))
    ctx.count('relative_view:%s' % kind)


# --------------------------------------------------------------------------- cal stream attributes of an OPENED data set

def check_cal_relative(ctx, case):
    """case: kind='cal_relative', full = index of the L0 namespace (of the six of a 1-step inherit chain) whose relative
    namespace <p>calx_ holds a complete set of cal attributes (its own center_freq), empty = index of the one that holds an
    empty antlist (a cal stream without solutions); optionally typed = [index, index]: `stream_type` 'sdp.cal' in the
    first and another type in the second.  The data set is opened (metadata only) and the cal stream it registered is
    observed: virtual sensors present?, channel frequencies of the stream."""
    from katdal.visdatav4 import VisibilityDataV4
    full, empty, typed = case['full'], case['empty'], case.get('typed')
    cal = 'calx'

    def hook(ts, cbid, stream):
        ts[stream + '_inherit'] = 'base'
        spaces = ['%s_%s_' % (cbid, stream), '%s_base_' % cbid, cbid + '_', stream + '_', 'base_', '']
        hook.spaces = spaces
        for i in ([full] if full is not None else []):
            q = spaces[i] + cal + '_'
            ts[q + 'antlist'] = ['m000', 'm001']
            ts[q + 'pol_ordering'] = ['h', 'v']
            ts[q + 'center_freq'] = 1e9 + 1e7 * i
            ts[q + 'n_chans'] = 4
            ts[q + 'bandwidth'] = 4e6
        if empty is not None:
            q = spaces[empty] + cal + '_'
            ts[q + 'antlist'] = []
            ts[q + 'center_freq'] = 5e8
            ts[q + 'n_chans'] = 4
            ts[q + 'bandwidth'] = 4e6
            ts[q + 'pol_ordering'] = ['h', 'v']
        if typed:
            ts[spaces[typed[0]] + cal + '_stream_type'] = 'sdp.cal'
            ts[spaces[typed[1]] + cal + '_stream_type'] = 'sdp.other'
        else:
            ts[cal + '_stream_type'] = 'sdp.cal'
        ts[cal + '_decoy'] = 1
    x = v4.build_v4(T=3, F=4, seed=1, construct=False, telstate_hook=hook, archived_override=['sdp_l0', cal])
    try:
        spaces = hook.spaces
        src = TelstateDataSource(x.view, x.cbid, x.stream, chunk_store=None)
        d = VisibilityDataV4(src)
        registered = any(k.startswith('Calibration/Products/l1/') for k in d.sensor.virtual)
        freqs = d._register_standard_cal_streams({})
        got = dict(registered=registered, center=float(freqs['l1'][2]) if 'l1' in freqs else None)
        prefixes = list(x.view.prefixes)
        # the property: the cal stream's attribute comes from the most specific L0 namespace that defines it
        is_l1 = True
        if typed:
            is_l1 = spaces.index(spaces[typed[0]]) < spaces.index(spaces[typed[1]])
        holders = sorted(i for i in (full, empty) if i is not None)
        win = holders[0] if (holders and is_l1) else None
        exp = dict(registered=win is not None and win == full, center=(1e9 + 1e7 * win) if win is not None and win == full else None)
        if ctx.model_ok:
            st = [[codes(k), 0, 0] for k in sorted(x.telstate.keys()) if k.endswith('_antlist') or k.endswith('_stream_type')]
            mo = ctx.model([[18, [11, [codes(q) for q in prefixes], codes(cal)]]])[0]
            rel = [''.join(map(chr, q)) for q in mo[0]] if mo else None
            if prefixes != spaces:
                ctx.disagree('what=prefix_order;chain_len=2', dict(chain=['sdp_l0', 'base']), prefixes, None,
                             'namespace order of the opened data set', spec=spaces)
            m_holder = next((i for i, q in enumerate(rel or []) if q + 'antlist' in x.telstate), None)
            m_type = next((x.telstate[q + 'stream_type'] for q in (rel or []) if q + 'stream_type' in x.telstate), None)
            m_win = m_holder if m_type == 'sdp.cal' else None
            model = dict(registered=m_win is not None and m_win == full,
                         center=(1e9 + 1e7 * m_win) if m_win is not None and m_win == full else None)
            if model != exp:
                ctx.disagree('what=cal_relative_model_vs_spec', case, None, model, 'relative view of the model differs from the rule', spec=exp)
            if got != model:
                ctx.disagree('what=cal_relative_tie', case, got, model, 'cal stream of the opened data set differs from model', kind='tie')
        if got != exp:
            ctx.disagree('what=cal_relative;symptom=%s' % ('stream_type' if typed else 'registered' if got['registered'] != exp['registered']
                                                           else 'attributes'), case, got, None,
                         'attributes of the cal stream are not taken from the most specific L0 namespace that defines them', spec=exp)
    finally:
        v4.cleanup(x)
    ctx.traces_validated += 1
    ctx.note_case(('cal_relative', repr(case)), nontrivial=full is not None and (empty is not None or bool(typed)),
                  sample=case)
    ctx.count('cal_relative:%s' % ('typed' if typed else 'pair' if None not in (full, empty) else 'single'))


# --------------------------------------------------------------------------- ids, types, sources

FILE_CB = '1234567890'
CBS = (FILE_CB, 'cbK', 'cbU')
STREAMS = (('sdp_l0', 'sdp.vis'), ('alt_l0', 'sdp.vis'), ('bad_l0', 'sdp.flags'), ('untyped', None))
ENTRY = ('from_url', 'open_data_source', 'katdal.open')


def ids_dumps(cb, sn):
    return 3 + 4 * CBS.index(cb) + [n for n, _ in STREAMS].index(sn)


def build_ids_fixture(layout_seed):
    """One RDB file with 3 capture blocks x 4 streams; every (capture block, stream) has its own number of dumps, a
    marker attribute (with less specific decoys) and possibly a sensor 'foo' in some of its namespaces."""
    import random
    lrng = random.Random(layout_seed)
    foo = {}

    def hook(ts, cbid, stream):
        ts['capture_block_id'] = cbid
        ts['stream_name'] = stream
        base = {k: ts[stream + '_' + k] for k in ('sync_time', 'int_time', 'bandwidth', 'center_freq', 'n_chans', 'n_bls',
                                                  'bls_ordering', 'need_weights_power_scale')}
        info0 = ts[ts.join(cbid, stream, 'chunk_info')]['correlator_data']
        for sn, ty in STREAMS:
            if sn != stream:
                for k, v in base.items():
                    ts[ts.join(sn, k)] = v
                if ty:
                    ts[ts.join(sn, 'stream_type')] = ty
            ts[ts.join(sn, 'marker')] = '-/' + sn
        for cb in CBS:
            for sn, _ in STREAMS:
                if (cb, sn) != (cbid, stream):
                    T = ids_dumps(cb, sn)
                    ts[ts.join(cb, sn, 'chunk_info')] = {'correlator_data': dict(
                        info0, shape=(T,) + tuple(info0['shape'][1:]), chunks=((1,) * T,) + tuple(info0['chunks'][1:]))}
                    ts[ts.join(cb, sn, 'first_timestamp')] = 123.0
                ts[ts.join(cb, sn, 'marker')] = cb + '/' + sn
            ts[ts.join(cb, 'marker')] = cb + '/-'
        ts['marker'] = '-/-'
        # the defaults are the GLOBAL keys of the file: the same key names in other namespaces are decoys
        for q, (dcb, dsn) in ((cbid + '_', ('cbU', 'alt_l0')), ('cbK_', ('cbU', 'alt_l0')), (stream + '_', ('cbK', 'alt_l0')),
                              ('alt_l0_', ('cbK', 'sdp_l0')), (ts.join(cbid, stream) + '_', ('cbK', 'alt_l0'))):
            ts[q + 'capture_block_id'] = dcb
            ts[q + 'stream_name'] = dsn
        spaces = [ts.join(cb, sn) + '_' for cb in CBS for sn, _ in STREAMS] + [cb + '_' for cb in CBS] \
            + [sn + '_' for sn, _ in STREAMS] + ['']
        for i, q in enumerate(spaces):
            if lrng.random() < 0.45:
                foo[q] = 500.0 + i
                ts.add(q + 'foo', foo[q], ts=1600000000.0)
    x = v4.build_v4(T=ids_dumps(FILE_CB, 'sdp_l0'), F=4, construct=False, telstate_hook=hook, seed=1)
    os.makedirs(os.path.join(x.tmp, x.cbid))
    x.rdb = os.path.join(x.tmp, x.cbid, '%s_%s.rdb' % (x.cbid, x.stream))
    with RDBWriter(x.rdb) as w:
        w.save(x.telstate)
    x.foo = foo
    x.layout = layout_seed
    return x


def open_entry(how, url, kw, full=True):
    """-> observables of the opened source or the class of the error."""
    import katdal
    from katdal.datasources import open_data_source
    try:
        d = None
        if how == 'from_url':
            src = TelstateDataSource.from_url(url, **kw)
        elif how == 'open_data_source':
            src = open_data_source(url, **kw)
        else:
            d = katdal.open(url, **kw)
            src = d.source
    except DataSourceNotFound:
        return 'DataSourceNotFound'
    except Exception as e:   # noqa
        return type(e).__name__
    if not full:
        return 'opened'
    got = dict(cb=src.capture_block_id, sn=src.stream_name, name=src.name, dumps=int(len(src.timestamps)),
               marker=src.telstate['marker'], foo=src.metadata.sensors['foo'].name if 'foo' in src.metadata.sensors else None)
    if d is not None:
        got['dataset_dumps'] = int(d.shape[0])
        try:
            got['foo_value'] = float(np.unique(d.sensor['foo'])[0])
        except KeyError:
            got['foo_value'] = None
    return got


def check_ids(ctx, x, st_vals, combo=None):
    """combo: how, form ('path' | 'file://'), url query and keywords for capture_block_id / stream_name."""
    rng = ctx.rng
    if combo is None:
        combo = dict(how=rng.choice(ENTRY), form=rng.choice(['path', 'path', 'file://']),
                     url_query={}, keywords={})
        for key, uopts, kopts in (('capture_block_id', [None, None, 'cbU', 'cbK', 'cbX'], [None, None, '', 'cbK', 'cbU']),
                                  ('stream_name', [None, None, 'alt_l0', 'bad_l0', 'untyped', 'missing', 'sdp_l0'],
                                   [None, None, '', 'alt_l0', 'sdp_l0', 'bad_l0'])):
            u, k = rng.choice(uopts), rng.choice(kopts)
            if u is not None:
                combo['url_query'][key] = u
            if k is not None:
                combo['keywords'][key] = k
    combo = dict(combo, layout=x.layout)
    query, kw, how = combo['url_query'], combo['keywords'], combo['how']
    url = ('file://' if combo['form'] == 'file://' else '') + x.rdb + ('?' + urllib.parse.urlencode(query) if query else '')
    got = open_entry(how, url, dict(kw, chunk_store=None))
    # spec: keyword beats URL query beats file; an empty value falls back to the file
    ucb, kcb, usn, ksn = query.get('capture_block_id'), kw.get('capture_block_id'), query.get('stream_name'), kw.get('stream_name')
    ecb = (kcb if kcb is not None else ucb) or FILE_CB
    esn = (ksn if ksn is not None else usn) or 'sdp_l0'
    if dict(STREAMS).get(esn) != 'sdp.vis':
        exp = 'ValueError'
    elif ecb not in CBS:
        exp = 'KeyError'                       # nothing defines the chunk info of that capture block
    else:
        spaces = [ecb + '_' + esn + '_', ecb + '_', esn + '_', '']
        fkey = next((q + 'foo' for q in spaces if q in x.foo), None)
        exp = dict(cb=ecb, sn=esn, name=ecb + '_' + esn, dumps=ids_dumps(ecb, esn), marker=ecb + '/' + esn, foo=fkey)
        if how == 'katdal.open':
            exp['dataset_dumps'] = exp['dumps']
            exp['foo_value'] = x.foo[fkey[:-3]] if fkey else None
    if ctx.model_ok:
        def opt(v):
            return [codes(v)] if v is not None else []
        hw = [0, 1, [1, int(combo['form'] == 'file://')]][ENTRY.index(how)]
        mo = ctx.model([[18, [12, hw, codes('file'), [], [0, [], []], st_vals[0], st_vals[1],
                              opt(kcb), opt(ucb), opt(ksn), opt(usn)]]])[0]

        def dec(r):
            if r[0] != 0:
                return ERRS.get(r[1], 'error%d' % r[1])
            return (''.join(map(chr, r[1])), ''.join(map(chr, r[2])), r[3])
        m_model, m_spec = dec(mo[0]), dec(mo[1])
        if m_model != m_spec:
            ctx.disagree('what=id_model_vs_spec', combo, None, m_model, 'model of the entry point differs from Coq spec', spec=m_spec)
        g = (got['cb'], got['sn'], got['dumps']) if isinstance(got, dict) else got
        e = (exp['cb'], exp['sn'], exp['dumps']) if isinstance(exp, dict) else exp
        if m_spec != e:
            ctx.disagree('what=id_spec_selfcheck', combo, None, m_spec, 'Coq spec differs from harness expectation', spec=e)
        if g != m_model:
            ctx.disagree('what=id_tie;how=%s' % how, combo, g, m_model, 'entry point differs from the model of the whole opening path',
                         kind='tie')
    if got != exp:
        if isinstance(got, dict) and isinstance(exp, dict):
            symptom = next(k for k in ('cb', 'sn', 'name', 'dumps', 'marker', 'foo', 'dataset_dumps', 'foo_value') if got.get(k) != exp.get(k))
        else:
            symptom = 'opened' if isinstance(got, dict) else str(got)
        ctx.disagree('what=id_precedence;how=%s;type_ok=%s;symptom=%s' % (how, exp != 'ValueError', symptom), combo, got, None,
                     'capture block / stream resolution (file < URL query < keyword), stream type check or what is read through '
                     'the resolved view differs', spec=exp)
    ctx.traces_validated += 1
    ctx.note_case(('ids', repr(combo)), nontrivial=bool(query) or bool(kw), sample=dict(kind='ids', **combo))
    ctx.count('ids:%s:%s' % (how, 'override' if query or kw else 'defaults'))


UNREADABLE = ('missing', 'directory', 'empty', 'garbage', 'truncated', 'scheme:ftp', 'scheme:s3', 'scheme:foo')


def check_unreadable(ctx, x, case=None):
    """An unreadable source is DataSourceNotFound through every entry point, whatever else is asked for."""
    rng = ctx.rng
    if case is None:
        case = dict(kind=rng.choice(UNREADABLE), how=rng.choice(ENTRY), keywords=rng.choice([{}, {}, {'capture_block_id': 'cbK'},
                    {'stream_name': 'alt_l0', 'upgrade_flags': False}]), chunk_store=rng.choice(['none', 'auto']),
                    url_query=rng.choice([{}, {}, {'stream_name': 'alt_l0'}]))
        if case['kind'] == 'truncated':
            case['cut'] = rng.random()
    case = dict(case, layout=x.layout)
    kind = case['kind']
    d = os.path.dirname(x.rdb)
    p = os.path.join(d, 'unreadable_%s.rdb' % kind.replace(':', '_'))
    exc, opened_ok = 'RdbParseError', False
    if kind == 'missing':
        exc = 'OSError'
    elif kind == 'directory':
        os.makedirs(p, exist_ok=True)
        exc = 'OSError'
    elif kind == 'empty':
        open(p, 'wb').close()
    elif kind == 'garbage':
        with open(p, 'wb') as f:
            f.write(b'REDIS0006\xfe\x00garbage' + bytes(range(64)))
    elif kind == 'truncated':
        data = open(x.rdb, 'rb').read()
        n = int(case['cut'] * (len(data) - 9))            # the last 9 bytes are the end marker and the checksum
        with open(p, 'wb') as f:
            f.write(data[:n])
    else:
        p = kind.split(':')[1] + '://host/' + os.path.basename(x.rdb)
    url = p + ('?' + urllib.parse.urlencode(case['url_query']) if case['url_query'] else '')
    kw = dict(case['keywords'])
    if case['chunk_store'] == 'none':
        kw['chunk_store'] = None
    try:
        got = open_entry(case['how'], url, kw, full=False)
    finally:
        if kind == 'directory':
            shutil.rmtree(p, ignore_errors=True)
        elif os.path.isfile(p):
            os.remove(p)
    if ctx.model_ok:
        scheme = kind.split(':')[1] if kind.startswith('scheme:') else 'file'
        hw = [0, 1, [1, int(kind.startswith('scheme:'))]][ENTRY.index(case['how'])]
        mo = ctx.model([[18, [12, hw, codes(scheme), [] if kind.startswith('scheme:') else [codes(exc)],
                              [int(case['chunk_store'] != 'none'), [], []], [], [], [], [], [], []]]])[0]
        if mo[0] != [-1, 5] or mo[1] != [-1, 5]:
            ctx.disagree('what=unreadable_model', case, None, mo[0], 'model / Coq spec do not classify the source as not found', spec=mo[1])
    if got != 'DataSourceNotFound':
        ctx.disagree('what=unreadable_source;kind=%s;how=%s;got=%s' % (kind.split(':')[0], case['how'], got), case, got, None,
                     'unreadable source not reported as DataSourceNotFound', spec='DataSourceNotFound')
    ctx.traces_validated += 1
    ctx.note_case(('unreadable', repr(case)), nontrivial=True, sample=dict(kind_='unreadable', **case))
    ctx.count('unreadable:%s:%s' % (kind.split(':')[0], case['how']))


# --------------------------------------------------------------------------- flag streams x every way of opening

T0 = 1600000123.0      # sync_time + first_timestamp of fixtures.v4 (integers: exact in float64 whatever the formula)
INT_TIME = 2.0
HOWS = ('ctor', 'from_url', 'open_data_source', 'katdal.open')
ERRS = {1: 'ValueError', 3: 'ValueError', 2: 'KeyError', 4: 'UnboundLocalError', 9: 'outside-model'}


def abstract_telstate(ts):
    """The telstate content as the model sees it: (store entries, value table).  Only the shapes the code looks at
    are kept: strings, lists of strings, chunk_info (dumps and channel/baseline shape of its flags array)."""
    st, vals = [], []
    for k in sorted(ts.keys()):
        mut = ts.key_type(k) == katsdptelstate.KeyType.MUTABLE
        v = None if mut else ts[k]
        if isinstance(v, bytes):
            v = v.decode()
        if isinstance(v, str):
            a = [0, codes(v)]
        elif isinstance(v, (list, tuple)) and all(isinstance(e, str) for e in v):
            a = [1, [codes(e) for e in v]]
        elif isinstance(v, dict) and any(isinstance(i, dict) and 'shape' in i for i in v.values()):
            info = v.get('flags') or v.get('correlator_data') or next(iter(v.values()))
            a = [2, int(info['shape'][0]), [int(n) for n in info['shape'][1:]], int('prefix' in info)]
        else:
            a = [3]
        st.append([codes(k), int(mut), len(vals)])
        vals.append(a)
    return st, vals


def build_flag_fixture(case, seed):
    """case: T, F, candidates [name, T, F, type, src, ...] -> fixtures.v4 object + RDB file next to its chunk store.

    Per candidate (all optional): type / src = values in its stream namespace (None = absent); cb_type / cb_src = values
    in its capture-block + stream namespace; inherit = parent stream (another candidate, a helper of case['parents'],
    or the opened stream itself); info_at = where its chunk info lives: 'cs' (capture block + stream, default), 's'
    (stream), 'p' / 'cp' (the parent's stream / capture block + stream namespace), 'none' (absent).
    case['parents'] = helper streams that are not archived: name, type, src, cb_type, cb_src, inherit."""
    T, F, B = case['T'], case['F'], 12
    cands = []
    for i, c in enumerate(case['candidates']):
        fl = np.full((c['T'], c['F'], c.get('B', B)), 0x10 + i + 1, np.uint8)
        cands.append(dict(name=c['name'], flags=fl, type=c['type'], src=c['src'] or [], chunks=(1, c['F'], c.get('B', B))))
    own = np.full((T, F, B), 0x10, np.uint8)

    def hook(ts, cbid, stream):
        ts['capture_block_id'] = cbid
        ts['stream_name'] = stream
        for c in list(case['candidates']) + list(case.get('parents') or []):
            nm = c['name']
            cs = ts.view(ts.join(cbid, nm), exclusive=True)
            sv = ts.view(nm, exclusive=True)
            if c in (case.get('parents') or []):
                if c.get('type') is not None:
                    sv['stream_type'] = c['type']
                if c.get('src') is not None:
                    sv['src_streams'] = list(c['src'])
            elif c['src'] is None:
                ts.delete(ts.join(nm, 'src_streams'))
            if c.get('cb_type') is not None:
                cs['stream_type'] = c['cb_type']
            if c.get('cb_src') is not None:
                cs['src_streams'] = list(c['cb_src'])
            if c.get('inherit'):
                sv['inherit'] = c['inherit']
            at = c.get('info_at', 'cs')
            if at != 'cs' and c not in (case.get('parents') or []):
                key = ts.join(cbid, nm, 'chunk_info')
                info = ts[key]
                ts.delete(key)
                if at == 's':
                    sv['chunk_info'] = info
                elif at == 'p':
                    ts[ts.join(c['inherit'], 'chunk_info')] = info
                elif at == 'cp':
                    ts[ts.join(cbid, c['inherit'], 'chunk_info')] = info
        if case.get('archived_decoy') is not None:
            # the real list lives in the capture block namespace, a less specific decoy in the global one
            ts.view(cbid, exclusive=True)['sdp_archived_streams'] = [stream] + [c['name'] for c in case['candidates']]
        # chunk infos without their own 'prefix': the chunk name is a key of its own (own_prefix / prefix_at = the
        # namespace that holds it: 'cs', 's', the parent's 'cp' / 'p', or 'none')

        def strip(key, where):
            info = ts[key]
            name = next(iter(info.values()))['prefix']
            ts.delete(key)
            ts[key] = {k: {kk: vv for kk, vv in v.items() if kk != 'prefix'} for k, v in info.items()}
            if where is not None:
                ts[where + 'chunk_name'] = name
        if case.get('own_prefix', 'info') != 'info':
            strip(ts.join(cbid, stream, 'chunk_info'), {'cs': ts.join(cbid, stream) + '_', 's': stream + '_'}.get(case['own_prefix']))
        for c in case['candidates']:
            at, iat = c.get('prefix_at', 'info'), c.get('info_at', 'cs')
            if at != 'info' and iat != 'none':
                nm, par = c['name'], c.get('inherit')
                key = {'cs': ts.join(cbid, nm), 's': nm, 'p': par, 'cp': ts.join(cbid, par or '')}[iat] + '_chunk_info'
                strip(key, {'cs': ts.join(cbid, nm) + '_', 's': nm + '_', 'p': (par or '') + '_',
                            'cp': ts.join(cbid, par or '') + '_'}.get(at))
    decoy = case.get('archived_decoy')
    x = v4.build_v4(T=T, F=F, arrays={'flags': own}, flag_streams=cands, seed=seed,
                    chunks={'correlator_data': (1, F, B)}, construct=False, telstate_hook=hook,
                    archived_override=None if decoy is None else ['sdp_l0'] + list(decoy))
    os.makedirs(os.path.join(x.tmp, x.cbid))
    x.rdb = os.path.join(x.tmp, x.cbid, '%s_%s.rdb' % (x.cbid, x.stream))
    with RDBWriter(x.rdb) as w:
        w.save(x.telstate)
    x.B = B
    return x


def spec_chain(ts, stream):
    chain = [stream]
    while ts.get(chain[-1] + '_inherit') is not None and len(chain) < 20:
        chain.append(ts[chain[-1] + '_inherit'])
    return chain


def spec_namespaces(ts, cb, stream, base=('',)):
    """The order of the property: capture block + stream, capture block + inherited streams, capture block, stream,
    inherited streams, then whatever the view is stacked on (global for the opened stream)."""
    chain = spec_chain(ts, stream)
    return ['%s_%s_' % (cb, st_) for st_ in chain] + [cb + '_'] + [st_ + '_' for st_ in chain] + list(base)


def spec_get(ts, spaces, key):
    for q in spaces:
        if q + key in ts:
            return ts[q + key]
    return None


def flat_get(ts, cb, stream, key):
    """NOT the property: only the places where the attributes usually are (used to count how often placement decides)."""
    for q in (['%s_%s_' % (cb, stream)] if key in ('chunk_info', 'chunk_name') else [stream + '_']):
        if q + key in ts:
            return ts[q + key]
    return None


def spec_of_mode(case, mode, ts, cb='1234567890', stream='sdp_l0', flat=False):
    """What the property says for this way of opening, from the content of the (root) telstate `ts`."""
    has_store = mode['store'] != 'none'
    upgrade = True if mode['upgrade'] is None else mode['upgrade']
    n_ts = mode['n_ts']
    if not has_store and n_ts is not None:
        return dict(dumps=n_ts, ts_ok=True)          # nothing is derived from the streams
    l0 = spec_namespaces(ts, cb, stream)
    own = spec_get(ts, l0, 'chunk_info')
    if 'prefix' not in own['flags'] and spec_get(ts, l0, 'chunk_name') is None:
        return 'KeyError'                            # nothing says where the chunks of the stream are
    T = own['correlator_data']['shape'][0]
    rest = tuple(own['flags']['shape'][1:])
    win = None
    names = [c['name'] for c in case['candidates']]
    for a in (spec_get(ts, l0, 'sdp_archived_streams') or []) if upgrade else []:
        spaces = spec_namespaces(ts, cb, a, base=l0)
        get = (lambda k: flat_get(ts, cb, a, k)) if flat else (lambda k: spec_get(ts, spaces, k))
        if get('stream_type') != 'sdp.flags':
            continue
        src = get('src_streams')
        if src is None:
            return 'KeyError'
        if stream not in src:
            continue
        info = get('chunk_info')
        if info is None:
            return 'KeyError'
        where = info['flags'].get('prefix') or (flat_get(ts, cb, a, 'chunk_name') if flat else spec_get(ts, spaces, 'chunk_name'))
        if where is None:
            return 'KeyError'
        if tuple(info['flags']['shape'][1:]) != rest:
            return 'ValueError'
        win = dict(info, where=where)
    wT = win['flags']['shape'][0] if win else T
    n = max(T, wT)
    exp = dict(dumps=n if n_ts is None else n_ts, ts_ok=True)
    if has_store:
        value = 0x10
        if win is not None and win['where'][len(cb) + 1:].replace('-', '_') != stream:
            value = 0x10 + names.index(win['where'][len(cb) + 1:].replace('-', '_')) + 1
        exp.update(data_dumps=n, flag_value=value, clean_dumps=min(T, wT), lost_ok=True)
    return exp


def open_mode(x, case, mode):
    """Open the data set the way `mode` says; returns the observables or an error name."""
    import katdal
    from katdal.datasources import open_data_source
    from katdal.visdatav4 import VisibilityDataV4
    T = case['T']
    kw = {}
    if mode['store'] == 'given':
        kw['chunk_store'] = x.store
    elif mode['store'] == 'none':
        kw['chunk_store'] = None
    if mode['upgrade'] is not None:
        kw['upgrade_flags'] = mode['upgrade']
    given = None
    if mode['n_ts'] is not None:
        given = 1600001000.0 + 4.0 * np.arange(mode['n_ts'])
        kw['timestamps'] = given.copy()
    query = dict(mode.get('query') or {})
    url = x.rdb + ('?' + urllib.parse.urlencode(query) if query else '')
    how = mode['how']
    d = None
    try:
        if how == 'ctor':
            kw.setdefault('chunk_store', None)
            src = TelstateDataSource(x.view, x.cbid, x.stream, **kw)
        elif how == 'from_url':
            src = TelstateDataSource.from_url(url, **kw)
        elif how == 'open_data_source':
            src = open_data_source(url, **kw)
        else:
            d = katdal.open(url, **kw)
            src = d.source
    except ValueError:
        return 'ValueError'
    except KeyError:
        return 'KeyError'
    except Exception as e:   # noqa
        return 'construct:' + type(e).__name__
    try:
        if d is None and mode.get('dataset', True):
            d = VisibilityDataV4(src)
        ts = np.asarray(d.timestamps if d is not None else src.timestamps)
        expected_ts = given if given is not None else T0 + INT_TIME * np.arange(len(ts))
        got = dict(dumps=int(len(ts)), ts_ok=bool(np.array_equal(ts, expected_ts)))
        if (src.data is None) != (mode['store'] == 'none'):
            got['data'] = 'absent' if src.data is None else 'present'
        if src.data is not None:
            if d is not None:
                raw, vis, nd = np.asarray(d.raw_flags[:]), np.asarray(d.vis[:]), int(d.shape[0])
            else:
                raw, vis, nd = src.data.flags.compute(), src.data.vis.compute(), int(src.data.shape[0])
            got['data_dumps'] = nd if raw.shape[0] == nd == vis.shape[0] else [nd, int(raw.shape[0]), int(vis.shape[0])]
            # a dump absent from either stream is lost data (all its flags carry data_lost, its visibilities are zero);
            # the dumps present in both are not, and their flags come from ONE stream (constant per stream)
            lost = (raw & 8).astype(bool).all(axis=(1, 2))
            clean = ((raw & 8) == 0).all(axis=(1, 2))
            nclean = int(clean.sum())
            vals = np.unique(raw[clean] & 0x77)
            got['flag_value'] = int(vals[0]) if len(vals) == 1 else [int(v) for v in vals]
            got['clean_dumps'] = nclean
            got['lost_ok'] = bool(np.all(lost | clean) and np.all(clean[:nclean]) and np.all(vis[T:] == 0))
        return got
    except Exception as e:   # noqa
        return 'late:' + type(e).__name__


def check_open(ctx, case, mode, x=None, st_vals=None):
    own_x = x is None
    if own_x:
        x = build_flag_fixture(case, ctx.seed)
    try:
        got = open_mode(x, case, mode)
        if ctx.model_ok and st_vals is None:
            st_vals = abstract_telstate(x.telstate)
        exp = spec_of_mode(case, mode, x.telstate)
        full = dict(case, mode=mode)
        if ctx.model_ok:
            def opt(v):
                return [codes(v)] if v is not None else []
            st, vals = st_vals
            q = mode.get('query') or {}
            kcb, ksn = (x.cbid, x.stream) if mode['how'] == 'ctor' else (None, None)
            wm = [int(mode['store'] != 'none'), [] if mode['upgrade'] is None else [int(mode['upgrade'])],
                  [] if mode['n_ts'] is None else [mode['n_ts']]]
            mo = ctx.model([[18, [8, wm, st, vals, opt(kcb), opt(q.get('capture_block_id')), opt(ksn), opt(q.get('stream_name'))]]])[0]
            names = [c['name'] for c in case['candidates']]

            def decode(r):
                if r[0] == -1:
                    return ERRS.get(r[1], 'error%d' % r[1])
                out = dict(dumps=r[3], ts_ok=True)
                if r[4]:
                    info = x.telstate[''.join(map(chr, st[r[4][1]][0]))]      # the chunk info the flags come from
                    where = x.telstate[''.join(map(chr, st[r[4][2]][0]))]     # ... and what names the place of its chunks
                    where = where if isinstance(where, str) else where['flags']['prefix']
                    where = where[len(x.cbid) + 1:].replace('-', '_')
                    idx = None if where == x.stream else names.index(where)
                    out.update(data_dumps=r[4][0], flag_value=0x10 if idx is None else 0x10 + idx + 1,
                               clean_dumps=min(case['T'], info['flags']['shape'][0]), lost_ok=True)
                return out
            m_model, m_spec = decode(mo[0]), decode(mo[1])
            if m_model != m_spec:
                ctx.disagree('what=open_model_vs_spec', full, None, m_model, 'model of opening differs from Coq spec', spec=m_spec)
            if m_spec != exp:
                ctx.disagree('what=open_spec_selfcheck', full, None, m_spec, 'Coq spec of opening differs from harness expectation', spec=exp)
            if got != m_model:
                ctx.disagree('what=open_tie;how=%s' % mode['how'], full, got, m_model, 'opened data set differs from model', kind='tie')
    finally:
        if own_x:
            v4.cleanup(x)
    if got != exp:
        if isinstance(got, dict) and isinstance(exp, dict):
            symptom = next((k for k in ('dumps', 'ts_ok', 'data', 'data_dumps', 'flag_value', 'clean_dumps', 'lost_ok')
                            if got.get(k) != exp.get(k)), 'other')
        else:
            symptom = ('not_refused' if isinstance(got, dict) else str(got))
        ctx.disagree('what=open_span;how=%s;data=%s;timestamps=%s;symptom=%s'
                     % (mode['how'], 'no' if mode['store'] == 'none' else 'yes',
                        'synthesised' if mode['n_ts'] is None else 'given', symptom), full, got, None,
                     'flag stream upgrade / span of the data set differs from the documented rule for this way of opening',
                     spec=exp)
    ctx.traces_validated += 1
    ctx.note_case(('open', repr(full)), nontrivial=len(case['candidates']) >= 1, sample=dict(kind='open', **full))
    ctx.count('open:%s:%s:%s' % (mode['how'], 'data' if mode['store'] != 'none' else 'meta',
                                 'ts_given' if mode['n_ts'] is not None else 'ts_synth'))
    return st_vals


def gen_flag_case(rng):
    T, F = rng.randint(2, 5), 4
    cands = []
    for i in range(rng.randint(0, 3)):
        cands.append(dict(name='fl%d' % i, T=max(1, T + rng.choice([0, 0, 1, -1, 2, 3])), F=F if rng.random() < 0.85 else F + 2,
                          type=rng.choice(['sdp.flags', 'sdp.flags', 'sdp.flags', 'sdp.vis', None]),
                          src=rng.choice([['sdp_l0'], ['sdp_l0'], ['other'], ['other', 'sdp_l0'], []])))
    case = dict(T=T, F=F, candidates=cands)
    parents = []
    for c in cands:
        if c['F'] == F and rng.random() < 0.08:
            c['B'] = 8                       # same channels, different number of baselines
    # placements: the attributes of a candidate (stream_type, src_streams, chunk_info) in its capture-block namespace
    # (more specific than its stream namespace, which then holds a different value), absent from its own namespaces
    # and inherited (from another archived stream, from a helper stream that is not archived, from the opened stream),
    # absent altogether; the list of archived streams in the capture block namespace with a decoy in the global one
    for i, c in enumerate(cands):
        r = rng.random()
        if r < 0.15:
            c['cb_type'] = rng.choice(['sdp.flags', 'sdp.vis'])
        elif r < 0.25:
            c['cb_src'] = rng.choice([['sdp_l0'], ['other']])
        elif r < 0.37 and i > 0:
            c['inherit'] = cands[rng.randrange(i)]['name']
            if rng.random() < 0.7:
                c['type'] = None
            if rng.random() < 0.4:
                c['src'] = None
            if rng.random() < 0.3:
                c['info_at'] = 'none'
        elif r < 0.55:
            par = dict(name='par%d' % i, type=rng.choice(['sdp.flags', 'sdp.flags', 'sdp.vis', None]),
                       src=rng.choice([['sdp_l0'], ['sdp_l0'], ['other'], None]))
            q = rng.random()
            if q < 0.25:
                par['cb_type'] = rng.choice(['sdp.flags', 'sdp.vis'])
            elif q < 0.5:
                par['cb_src'] = rng.choice([['sdp_l0'], ['other']])
            parents.append(par)
            c['inherit'] = par['name']
            c['type'] = rng.choice([None, None, c['type']])
            c['src'] = rng.choice([None, None, c['src']])
            c['info_at'] = rng.choice(['cs', 's', 'p', 'cp'])
        elif r < 0.63:
            c['inherit'] = 'sdp_l0'           # as in production: the flags stream inherits the stream it flags
            c['type'] = rng.choice([None, c['type'], 'sdp.flags'])
            c['info_at'] = rng.choice(['cs', 'cs', 's', 'none'])
        elif r < 0.70:
            c['src'] = None
            c['info_at'] = rng.choice(['cs', 's', 'none'])
    if parents:
        case['parents'] = parents
    r = rng.random()
    if r < 0.15:
        case['own_prefix'] = 'cs' if r < 0.10 else 's' if r < 0.14 else 'none'
    reach = set()
    if 'own_prefix' in case:
        # outside the abstraction (a chunk info = its flags array): a candidate whose chain reaches the opened stream and
        # whose own info is not the most specific one picks up the prefix-less info of the opened stream, ALL arrays of
        # which would then take the candidate's chunk name
        for c in cands:
            if c.get('inherit') == 'sdp_l0' or c.get('inherit') in reach:
                reach.add(c['name'])
                c.pop('info_at', None)
    for c in cands:
        if c.get('info_at', 'cs') != 'none' and rng.random() < 0.3:
            opts = ['cs', 'cs', 's'] + (['p', 'cp'] if str(c.get('inherit', '')).startswith('par') else []) \
                + (['none'] if 'own_prefix' not in case else [])
            c['prefix_at'] = rng.choice(opts)
            if 'own_prefix' in case and c['name'] in reach:
                c['prefix_at'] = 'cs'        # (else the chunk name of the opened stream, more specific, would be taken)
    if cands and rng.random() < 0.25:
        case['archived_decoy'] = rng.choice([[], [cands[0]['name']], [c['name'] for c in reversed(cands)]])
    return case


def all_modes(case, rng, ts, cbid='1234567890'):
    """Every way of opening: how x (chunk store given / found automatically / none) x timestamps synthesised or
    given; the upgrade_flags keyword (absent, True, False) and the URL query are drawn per mode."""
    out = []
    for how in HOWS:
        for store in (('given', 'none') if how == 'ctor' else ('auto', 'given', 'none')):
            for given in (False, True):
                up = rng.choice([None, None, True, False])
                mode = dict(how=how, store=store, upgrade=up, n_ts=None)
                if given:
                    e = spec_of_mode(case, dict(mode, store='given'), ts)
                    mode['n_ts'] = e['dumps'] if isinstance(e, dict) else case['T']
                if how != 'ctor':
                    mode['query'] = rng.choice([{}, {}, {'stream_name': 'sdp_l0'},
                                                {'capture_block_id': cbid, 'stream_name': 'sdp_l0'}])
                # the dataset layer on top of the source is exercised by katdal.open and by half of the others
                mode['dataset'] = how == 'katdal.open' or rng.random() < 0.5
                out.append(mode)
    return out


def check_flag_streams(ctx, case=None, n_modes=None):
    rng = ctx.rng
    case = case or gen_flag_case(rng)
    x = build_flag_fixture(case, ctx.seed)
    try:
        modes = all_modes(case, rng, x.telstate)
        if n_modes is not None:
            # always keep one metadata-only and one with-data opening with synthesised timestamps
            synth = [m for m in modes if m['n_ts'] is None]
            first = [rng.choice([m for m in synth if m['store'] == 'none']), rng.choice([m for m in synth if m['store'] != 'none'])]
            for m in first:
                if m['upgrade'] is False:
                    m['upgrade'] = None
            rest = [m for m in modes if m not in first]
            modes = first + rng.sample(rest, max(0, n_modes - 2))
        st_vals = None
        for mode in modes:
            st_vals = check_open(ctx, case, mode, x=x, st_vals=st_vals)
        ctx.count('flag_streams:%d' % len(case['candidates']))
        # how often the namespace placement of the candidates' attributes decides the outcome
        m0 = dict(how='ctor', store='given', upgrade=True, n_ts=None)
        if case.get('archived_decoy') is not None or case.get('parents') \
                or 'own_prefix' in case \
                or any(set(c) - {'name', 'T', 'F', 'B', 'type', 'src'} or c['src'] is None for c in case['candidates']):
            ctx.count('flag_layout:varied')
            full, flat = spec_of_mode(case, m0, x.telstate), spec_of_mode(case, m0, x.telstate, flat=True)
            if full != flat:
                ctx.count('flag_layout:decides_outcome')
            if full in ('KeyError', 'ValueError'):
                ctx.count('flag_layout:' + full)
    finally:
        v4.cleanup(x)


# --------------------------------------------------------------------------- chunk infos with ALL their arrays

ARR_CB = '1234567890'
ARR_NAMES = ('correlator_data', 'flags', 'weights', 'weights_channel', 'extra')


def gen_arrays_case(rng):
    """Own chunk info + archived candidates, every array with its own shape / time chunks / prefix (or none)."""
    def chunks_for(n):
        out = []
        while sum(out) < n:
            out.append(rng.randint(1, max(1, n - sum(out))))
        return out

    def array(name, T, rest, p_prefix):
        n = max(0, T + rng.choice([0, 0, 0, 1, -1, 2]))
        return [name, [n] + list(rest), chunks_for(n), int(rng.random() < p_prefix)]
    F, B = rng.choice([4, 6]), rng.choice([3, 12])
    rests = {'correlator_data': [F, B], 'flags': [F, B], 'weights': [F, B], 'weights_channel': [F], 'extra': [2]}
    T = rng.randint(1, 5)
    p_own = rng.choice([1.0, 1.0, 0.5, 0.0])
    own = [array(n, T if rng.random() < 0.8 else T + 1, rests[n], p_own) for n in ARR_NAMES[:4]]
    if rng.random() < 0.1:
        own = [a for a in own if a[0] != rng.choice(['weights', 'weights_channel'])]
    cands = []
    for i in range(rng.randint(0, 3)):
        Tc = max(0, T + rng.choice([0, 0, 1, -1, 3]))
        names = rng.choice([['flags'], ['flags'], ['flags', 'weights'], ['weights', 'flags', 'extra'], ['extra'],
                            ['flags', 'weights', 'weights_channel', 'correlator_data'], []])
        p_c = rng.choice([1.0, 0.5, 0.0])
        info = []
        for n in names:
            rest = list(rests[n])
            r = rng.random()
            if r < 0.07 and rest:
                rest[0] += 2                               # first non-dump axis (channel) differs
            elif r < 0.14 and len(rest) > 1:
                rest[1] = 8                                # baseline axis only
            elif r < 0.17:
                rest = rest[:-1] if rng.random() < 0.5 else rest + [2]      # another number of axes
            info.append(array(n, Tc, rest, p_c))
        cands.append(dict(name='fl%d' % i, type=rng.choice(['sdp.flags'] * 4 + ['sdp.vis', None]),
                          src=rng.choice([['sdp_l0']] * 4 + [['other'], ['other', 'sdp_l0'], None]),
                          info=info if rng.random() < 0.93 else None, chunk_name=int(rng.random() < 0.6)))
    return dict(kind='arrays', upgrade=rng.choice([None, None, True, False]), own=own, own_name=int(rng.random() < 0.7),
                cands=cands)


def arrays_telstate(case):
    ts = katsdptelstate.TelescopeState()
    cb, stream = ARR_CB, 'sdp_l0'

    def info_dict(arrays, origin, prefix):
        out = {}
        for name, shape, chunks, hp in arrays:
            e = {'shape': tuple(shape), 'chunks': (tuple(chunks),) + tuple((n,) for n in shape[1:]), 'dtype': '|u1',
                 'origin': origin}
            if hp:
                e['prefix'] = prefix
            out[name] = e
        return out
    ts['capture_block_id'], ts['stream_name'] = cb, stream
    ts['sdp_l0_stream_type'] = 'sdp.vis'
    ts['sdp_l0_sync_time'], ts['sdp_l0_int_time'] = 1600000000.0, INT_TIME
    ts[cb + '_sdp_l0_first_timestamp'] = 123.0
    ts[cb + '_sdp_l0_chunk_info'] = info_dict(case['own'], 0, cb + '-sdp-l0')
    if case['own_name']:
        ts[cb + '_sdp_l0_chunk_name'] = 'name-own'
    for i, c in enumerate(case['cands']):
        if c['type'] is not None:
            ts[c['name'] + '_stream_type'] = c['type']
        if c['src'] is not None:
            ts[c['name'] + '_src_streams'] = list(c['src'])
        if c['info'] is not None:
            ts['%s_%s_chunk_info' % (cb, c['name'])] = info_dict(c['info'], i + 1, '%s-%s' % (cb, c['name']))
        if c['chunk_name']:
            ts['%s_%s_chunk_name' % (cb, c['name'])] = 'name-' + c['name']
    ts['sdp_archived_streams'] = ['sdp_l0'] + [c['name'] for c in case['cands']]
    return ts


def _entries(info):
    return [[k, v.get('origin'), [int(n) for n in v['shape']], [int(n) for n in v['chunks'][0]], v.get('prefix')]
            for k, v in info.items()]


def spec_arrays(case, ts):
    """The rule of the property, array by array, read from the telstate in the namespace order of the property."""
    cb, stream = ARR_CB, 'sdp_l0'
    l0 = spec_namespaces(ts, cb, stream)

    def complete(info, spaces):
        for e in info.values():
            if 'prefix' not in e:
                name = spec_get(ts, spaces, 'chunk_name')
                if name is None:
                    return None
                e['prefix'] = name
        return info
    cur = complete(spec_get(ts, l0, 'chunk_info'), l0)
    if cur is None:
        return 'KeyError'
    upgrade = True if case['upgrade'] is None else case['upgrade']
    for a in (spec_get(ts, l0, 'sdp_archived_streams') or []) if upgrade else []:
        spaces = spec_namespaces(ts, cb, a, base=l0)
        if spec_get(ts, spaces, 'stream_type') != 'sdp.flags':
            continue
        src = spec_get(ts, spaces, 'src_streams')
        if src is None:
            return 'KeyError'
        if stream not in src:
            continue
        info = spec_get(ts, spaces, 'chunk_info')
        if info is None or complete(info, spaces) is None:
            return 'KeyError'
        # channel, baseline and any further axis of every offered array must be those of the array it replaces
        if any(k in cur and tuple(e['shape'][1:]) != tuple(cur[k]['shape'][1:]) for k, e in info.items()):
            return 'ValueError'
        cur = dict(cur, **info)             # offered arrays replace (or are added last), the others stay
    longest = max(e['shape'][0] for e in cur.values())
    out = []
    for k, o, shape, chunks, prefix in _entries(cur):
        out.append([k, o, [longest] + shape[1:], chunks + [1] * (longest - shape[0]), prefix])
    n_ts = longest if 'correlator_data' in cur else 'KeyError'
    return [out, n_ts]


def check_arrays(ctx, case=None):
    from katdal.datasources import _align_chunk_info, _ensure_prefix_is_set, _upgrade_flags
    case = case or gen_arrays_case(ctx.rng)
    cb, stream = ARR_CB, 'sdp_l0'
    ts = arrays_telstate(case)
    kw = {} if case['upgrade'] is None else {'upgrade_flags': case['upgrade']}
    view = view_l0_capture_stream(ts, cb, stream)[0]
    # (a) the statements of TelstateDataSource.__init__ that prepare the chunk info (sequence pinned by item_open)
    try:
        ci = _ensure_prefix_is_set(view['chunk_info'], view)
        if kw.get('upgrade_flags', True):
            ci = _upgrade_flags(ci, view, cb, stream)
        got = [_entries(_align_chunk_info(ci))]
    except Exception as e:   # noqa
        got = type(e).__name__
    # (b) the data source itself, metadata only: the number of synthesised timestamps
    try:
        src = TelstateDataSource(view, cb, stream, chunk_store=None, **kw)
        n_ts = int(len(src.timestamps))
        if not np.array_equal(src.timestamps, T0 + INT_TIME * np.arange(n_ts)):
            n_ts = 'wrong_timestamps'
    except Exception as e:   # noqa
        n_ts = type(e).__name__
    if isinstance(got, list):
        got.append(n_ts)
    elif n_ts != got:
        got = [got, n_ts]
    exp = spec_arrays(case, ts)
    if ctx.model_ok:
        l0 = spec_namespaces(ts, cb, stream)
        prefixes = []

        def pid(name):
            if name not in prefixes:
                prefixes.append(name)
            return prefixes.index(name)

        def wdict(info):
            return [[codes(k), e['origin'], [int(n) for n in e['shape']], [int(n) for n in e['chunks'][0]],
                     [pid(e['prefix'])] if 'prefix' in e else []] for k, e in info.items()]

        def optname(v):
            return [] if v is None else [pid(v)]
        archived = []
        for a in spec_get(ts, l0, 'sdp_archived_streams') or []:
            spaces = spec_namespaces(ts, cb, a, base=l0)
            ty, sr, info = (spec_get(ts, spaces, k) for k in ('stream_type', 'src_streams', 'chunk_info'))
            archived.append([[codes(ty)] if isinstance(ty, str) else [], [[codes(x) for x in sr]] if sr is not None else [],
                             [wdict(info)] if info is not None else [], optname(spec_get(ts, spaces, 'chunk_name'))])
        mo = ctx.model([[181, [1, int(kw.get('upgrade_flags', True)), codes(stream), wdict(spec_get(ts, l0, 'chunk_info')),
                               optname(spec_get(ts, l0, 'chunk_name')), archived]]])[0]
        if mo[0][0] == -1:
            model = ERRS.get(mo[0][1], 'error%d' % mo[0][1])
        else:
            model = [[[''.join(map(chr, k)), o, sh, ch, prefixes[p[0]] if p else None] for k, o, sh, ch, p in mo[0][1]],
                     mo[1][0] if mo[1] else 'KeyError']
        if model != exp:
            ctx.disagree('what=arrays_model_vs_spec', case, None, model, 'model of the chunk info preparation differs from the '
                         'array-by-array rule', spec=exp)
        if got != model:
            ctx.disagree('what=arrays_tie', case, got, model, 'prepared chunk info differs from model', kind='tie')
    if got != exp:
        if isinstance(got, str) or isinstance(exp, str):
            symptom = 'not_refused' if isinstance(exp, str) and not isinstance(got, str) else \
                ('refused:%s' % got if isinstance(got, str) else 'mixed')
        elif got[1] != exp[1]:
            symptom = 'timestamps'
        elif [e[0] for e in got[0]] != [e[0] for e in exp[0]]:
            symptom = 'array_names'
        else:
            symptom = next((w for j, w in ((1, 'origin'), (2, 'shape'), (3, 'chunks'), (4, 'prefix'))
                            if [e[j] for e in got[0]] != [e[j] for e in exp[0]]), 'other')
        ctx.disagree('what=arrays;candidates=%d;symptom=%s' % (len(case['cands']), symptom), case, got, None,
                     'arrays of the chunk info are not replaced / refused / extended array by array as documented', spec=exp)
    ctx.traces_validated += 1
    multi = any(c['info'] and len(c['info']) > 1 for c in case['cands'])
    ctx.note_case(('arrays', repr(case)), nontrivial=bool(case['cands']), sample=case)
    ctx.count('arrays:%s:%s' % ('multi' if multi else 'single', exp if isinstance(exp, str) else 'ok'))


# --------------------------------------------------------------------------- _align_chunk_info on its own

def check_align(ctx, arrays=None):
    """arrays: list of (time chunks, trailing shape) -> the real _align_chunk_info against the model / the rule."""
    from katdal.datasources import _align_chunk_info
    rng = ctx.rng
    if arrays is None:
        arrays = []
        for _ in range(rng.randint(1, 4)):
            chunks = [rng.randint(1, 4) for _ in range(rng.choice([0, 1, 1, 2, 3, 5]))]
            arrays.append([chunks, rng.choice([[], [4], [4, 12]])])
        if rng.random() < 0.3:
            arrays.append(list(arrays[0]))
    info = {}
    for i, (chunks, tail) in enumerate(arrays):
        info['a%d' % i] = {'prefix': 'p', 'dtype': '<u1', 'shape': (sum(chunks),) + tuple(tail),
                          'chunks': (tuple(chunks),) + tuple((n,) for n in tail)}
    case = dict(arrays=arrays)
    try:
        out = _align_chunk_info({k: dict(v) for k, v in info.items()})
    except Exception as e:   # noqa
        ctx.disagree('what=align;arrays=%d;symptom=raises:%s' % (len(arrays), type(e).__name__), case, repr(e)[:200], None,
                     '_align_chunk_info raises on a legal chunk info')
        ctx.note_case(('align', repr(arrays)))
        return
    got = [[list(out[k]['chunks'][0]), list(out[k]['shape']), [list(c) for c in out[k]['chunks'][1:]]] for k in sorted(info)]
    mx = max(sum(c) for c, _ in arrays)
    exp = [[list(c) + [1] * (mx - sum(c)), [mx] + list(t), [[n] for n in t]] for c, t in arrays]
    case = dict(arrays=arrays)
    if ctx.model_ok:
        mo = ctx.model([[18, [7, [c for c, _ in arrays]]]])[0]
        if [g[0] for g in got] != mo:
            ctx.disagree('what=align_tie', case, [g[0] for g in got], mo, '_align_chunk_info differs from model', kind='tie')
    if got != exp:
        ctx.disagree('what=align;arrays=%d' % len(arrays), case, got, None,
                     'arrays are not extended to the longest one by one-dump chunks appended after their own chunks', spec=exp)
    ctx.traces_validated += 1
    ctx.note_case(('align', repr(arrays)), nontrivial=len({sum(c) for c, _ in arrays}) > 1, sample=dict(kind='align', **case))
    ctx.count('align')


def _model_guard(ctx):
    """A Model file that does not compile on the tree under test (a translator item it needs failed closed) is left out
    of the driver: the comparisons with the model are then skipped and the checks go on against the Python statements of
    the property (the failing-input search)."""
    if not ctx.model_ok:
        return
    try:
        import json
        from vh import core
        lo = os.path.join(core.EXTRACT_DIR, 'left_out_wires.json')
        left = json.load(open(lo)) if os.path.exists(lo) else {}
        if any(str(w) in left for w in (18, 181)):
            ctx.model_ok = False
            ctx.extra['model'] = 'wires 18 / 181 are missing from the driver: search against the Python statements only'
    except Exception:
        pass


def run(ctx):
    rng = ctx.rng
    _model_guard(ctx)
    for f in ctx.findings:
        w = f['witness']
        if 'keys' in w:
            check_sensor_table(ctx, w)
            check_sensor_table(ctx, dict(w, view='exclusive'))
        else:
            check_placement(ctx, w['chain'], w['attr'], w['sensor'])
    chains = [['s'], ['s', 'base'], ['s', 'b1', 'b2'], ['sdp_l0', 'b1', 'b2', 'b3'], ['a', 'a_b']]
    for ch in chains:
        check_prefixes(ctx, ch)
    # exhaustive: 1-step chain, all non-empty subsets of the six namespaces, for the attribute and the sensor
    subsets = [s for r in range(1, 7) for s in itertools.combinations(range(6), r)]
    for s in subsets:
        check_placement(ctx, ['s', 'base'], list(s), list(s))
    ctx.extra['exhaustive_1step_subsets'] = len(subsets)
    for _ in range(ctx.scale(60, 600)):
        ch = rng.choice(chains[:4])
        npre = 2 * len(ch) + 2
        sa = sorted(rng.sample(range(npre), rng.randint(0, min(3, npre))))
        ss = sorted(rng.sample(range(npre), rng.randint(0, min(3, npre))))
        check_placement(ctx, ch, sa, ss)
    # every PAIR of the six namespaces defines the same sensor name; naming schemes in which the more specific
    # namespace has the shorter / the longer / the alphabetically later key; both insertion orders
    npairs = 0
    for cb, chain in NAMINGS:
        spec = ['%s_%s_' % (cb, x) for x in chain] + [cb + '_'] + [x + '_' for x in chain] + ['']
        for i, j in itertools.combinations(range(6), 2):
            for order in ((i, j), (j, i)):
                check_sensor_table(ctx, dict(cb=cb, chain=chain, view='capture', keys=[[spec[k] + 'foo', True] for k in order]))
                npairs += 1
    ctx.extra['namespace_pairs_x_namings_x_orders'] = npairs
    for _ in range(ctx.scale(250, 2500)):
        check_sensor_table(ctx, gen_sensor_case(rng))
    for _ in range(ctx.scale(40, 400)):
        cb, chain = rng.choice(NAMINGS)
        kind = rng.choice(['capture', 'capture', 'exclusive', 'flat', 'root'])
        check_relative(ctx, dict(cb=cb, chain=chain, view=kind, name=rng.choice(['cal', 'sdp_l1_flags', chain[0]]),
                                 attr_in=sorted(rng.sample(range(6), rng.randint(0, 3)))))
    # cal stream attributes of an opened data set: EVERY pair of the six L0 namespaces holds differing values (both ways
    # round), every single namespace, and the stream type decided by a pair of namespaces
    for i, j in itertools.permutations(range(6), 2):
        check_cal_relative(ctx, dict(kind='cal_relative', full=i, empty=j))
    for i in range(6):
        check_cal_relative(ctx, dict(kind='cal_relative', full=i, empty=None))
    for _ in range(ctx.scale(6, 60)):
        a, b = rng.sample(range(6), 2)
        check_cal_relative(ctx, dict(kind='cal_relative', full=rng.randrange(6), empty=None, typed=[a, b]))
    for _ in range(ctx.scale(40, 400)):
        check_align(ctx)
    for _ in range(ctx.scale(300, 3000)):
        check_arrays(ctx)
    # capture block / stream named by file, URL query, keyword - through every entry point; unreadable sources
    x = build_ids_fixture(rng.randrange(1 << 30))
    try:
        st_vals = abstract_telstate(x.telstate) if ctx.model_ok else None
        for how in ENTRY:                      # the defaults recorded in the file, and one full override, per entry point
            check_ids(ctx, x, st_vals, dict(how=how, form='path', url_query={}, keywords={}))
            check_ids(ctx, x, st_vals, dict(how=how, form='path', url_query={'capture_block_id': 'cbU', 'stream_name': 'alt_l0'},
                                            keywords={'capture_block_id': 'cbK'}))
        for _ in range(ctx.scale(120, 1200)):
            check_ids(ctx, x, st_vals)
        for kind in UNREADABLE:
            for how in ENTRY:
                check_unreadable(ctx, x, dict(kind=kind, how=how, keywords={}, chunk_store='none', url_query={}, cut=0.5))
        for _ in range(ctx.scale(30, 300)):
            check_unreadable(ctx, x)
    finally:
        v4.cleanup(x)
    # flag streams x every way of opening: two fixtures opened in ALL ways, the others in a sample of ways
    for k in range(ctx.scale(40, 400)):
        check_flag_streams(ctx, n_modes=None if k < 2 else 6)
    # a longer flag stream opened as metadata only / with data, deterministic (the shape of seeded change C18-2)
    fixed = dict(T=3, F=4, candidates=[dict(name='fl0', T=5, F=4, type='sdp.flags', src=['sdp_l0'])])
    for how, store in (('ctor', 'none'), ('from_url', 'none'), ('katdal.open', 'none'), ('from_url', 'auto')):
        check_open(ctx, fixed, dict(how=how, store=store, upgrade=None, n_ts=None, query={}, dataset=True))
    # shape compatibility PER AXIS: channel only, baseline only, both, (and a second, compatible, stream after / before the
    # incompatible one) x metadata-only and with-data openings through every entry point
    for bad in (dict(T=3, F=4, candidates=[dict(name='fl0', T=3, F=6, type='sdp.flags', src=['sdp_l0'])]),
                dict(T=3, F=4, candidates=[dict(name='fl0', T=3, F=4, B=8, type='sdp.flags', src=['sdp_l0'])]),
                dict(T=3, F=4, candidates=[dict(name='fl0', T=4, F=6, B=8, type='sdp.flags', src=['sdp_l0'])]),
                dict(T=3, F=4, candidates=[dict(name='fl0', T=3, F=4, type='sdp.flags', src=['sdp_l0']),
                                           dict(name='fl1', T=5, F=4, B=8, type='sdp.flags', src=['other', 'sdp_l0'])]),
                dict(T=3, F=4, candidates=[dict(name='fl0', T=3, F=4, B=14, type='sdp.flags', src=['sdp_l0']),
                                           dict(name='fl1', T=3, F=4, type='sdp.flags', src=['sdp_l0'])])):
        x = build_flag_fixture(bad, ctx.seed)
        try:
            st_vals = None
            for how, store in (('ctor', 'none'), ('ctor', 'given'), ('from_url', 'none'), ('from_url', 'auto'),
                               ('open_data_source', 'none'), ('open_data_source', 'given'), ('katdal.open', 'none'),
                               ('katdal.open', 'auto')):
                st_vals = check_open(ctx, bad, dict(how=how, store=store, upgrade=None, n_ts=None, query={}, dataset=True),
                                     x=x, st_vals=st_vals)
                ctx.count('shape_axis:%s' % ('meta' if store == 'none' else 'data'))
        finally:
            v4.cleanup(x)
    # the attributes of a flags stream that inherits (as in production) the stream it flags / a helper stream:
    # its type, sources and chunk info each only reachable through the chain
    prod = [dict(T=3, F=4, candidates=[dict(name='fl0', T=5, F=4, type='sdp.flags', src=['sdp_l0'], inherit='sdp_l0')]),
            dict(T=3, F=4, candidates=[dict(name='fl0', T=5, F=4, type=None, src=None, inherit='par0', info_at='cp')],
                 parents=[dict(name='par0', type='sdp.flags', src=['sdp_l0'])]),
            dict(T=3, F=4, candidates=[dict(name='fl0', T=5, F=4, type='sdp.flags', src=['sdp_l0'], inherit='par0', info_at='p')],
                 parents=[dict(name='par0', type='sdp.vis', src=['other'], cb_type='sdp.cal')]),
            dict(T=3, F=4, candidates=[dict(name='fl0', T=4, F=4, type='sdp.flags', src=None)]),
            dict(T=3, F=4, candidates=[dict(name='fl0', T=4, F=4, type='sdp.flags', src=['sdp_l0'], info_at='none')]),
            # chunk infos without 'prefix' (older files): every stream's chunk name is found through ITS OWN view
            dict(T=3, F=4, own_prefix='cs', candidates=[dict(name='fl0', T=5, F=4, type='sdp.flags', src=['sdp_l0'], prefix_at='cs')]),
            dict(T=3, F=4, own_prefix='s', candidates=[dict(name='fl0', T=3, F=4, type='sdp.flags', src=['sdp_l0'], prefix_at='cp',
                                                            inherit='par0', info_at='cs')],
                 parents=[dict(name='par0', type=None, src=None)]),
            dict(T=3, F=4, candidates=[dict(name='fl0', T=3, F=4, type='sdp.flags', src=['sdp_l0'], prefix_at='none')])]
    for c in prod:
        for how, store in (('ctor', 'given'), ('katdal.open', 'none')):
            check_open(ctx, c, dict(how=how, store=store, upgrade=None, n_ts=None, query={}, dataset=True))


def replay(ctx, doc):
    _model_guard(ctx)
    case = doc['case']
    if 'attr_in' in case and 'name' in case:
        check_relative(ctx, case)
    elif 'attr_in' in case:
        chain = case['chain']
        prefixes = ['cb_%s_' % s for s in chain] + ['cb_'] + [s + '_' for s in chain] + ['']
        check_placement(ctx, chain, [prefixes.index(p) for p in case['attr_in']], [prefixes.index(p) for p in case['sensor_in']])
    elif 'keys' in case:
        check_sensor_table(ctx, case)
    elif case.get('kind') == 'cal_relative':
        check_cal_relative(ctx, case)
    elif case.get('kind') == 'arrays':
        check_arrays(ctx, case)
    elif 'arrays' in case:
        check_align(ctx, case['arrays'])
    elif 'chain' in case:
        check_prefixes(ctx, case['chain'])
    elif 'mode' in case:
        mode = case['mode']
        check_open(ctx, {k: v for k, v in case.items() if k != 'mode'}, mode)
    elif 'kind' in case or 'form' in case:
        x = build_ids_fixture(case.get('layout', 0))
        try:
            if 'kind' in case:
                check_unreadable(ctx, x, case)
            else:
                check_ids(ctx, x, abstract_telstate(x.telstate) if ctx.model_ok else None, case)
        finally:
            v4.cleanup(x)
    else:
        run(ctx)
