"""C18 — Telstate stream resolution and flag-stream upgrade."""
import itertools
import os
import shutil
import urllib.parse

import katsdptelstate
import numpy as np
from katsdptelstate.rdb_writer import RDBWriter

from fixtures import v4
from katdal.datasources import (DataSourceNotFound, TelstateDataSource, view_capture_stream,
                                view_l0_capture_stream)

RULE = ('(a) inherit chains of length 0-3: view prefixes; (b) every non-empty subset of the six namespaces of a 1-step '
        'chain (63, exhaustive) and random subsets for longer chains, holding an attribute and a sensor with a distinct '
        'value per namespace: value seen through the view / TelstateDataSource sensor table; (c) capture block and stream '
        'overrides: file x URL query x keyword matrix, wrong stream type, unreadable/corrupt RDB; (d) archived flag stream '
        'sets with types, sources, shapes and dump counts. Non-trivial = key defined in >= 2 namespaces / >= 1 candidate '
        'flag stream; distinct by full configuration.')
ASSUMPTIONS = ['katsdptelstate view semantics (ordered prefixes, first match) and sorted key order are modelled, not verified',
               'cyclic inherit chains make the real loop diverge and are excluded']


def codes(s):
    return [ord(c) for c in s]


def sig_case(d):
    return d


# --------------------------------------------------------------------------- prefixes

def check_prefixes(ctx, chain):
    """chain = [stream, inh1, inh2...]"""
    ts = katsdptelstate.TelescopeState()
    for a, b in zip(chain, chain[1:]):
        ts[a + '_inherit'] = b
    got = list(view_capture_stream(ts, 'cb', chain[0]).prefixes)
    names = list(chain)
    st = [[codes(a + '_inherit'), 0, names.index(b)] for a, b in zip(chain, chain[1:])]
    case = dict(chain=chain)
    if ctx.model_ok:
        mo = ctx.model([[18, [1, st, [codes(n) for n in names], codes('cb'), codes(chain[0])]]])[0]
        model = [''.join(map(chr, p)) for p in mo[0]]
        spec = [''.join(map(chr, p)) for p in mo[1]]
    else:
        model = got
        spec = ['cb_%s_' % s for s in chain] + ['cb_'] + [s + '_' for s in chain] + ['']
    if got != model:
        ctx.disagree('what=prefixes_tie', case, got, model, 'view prefixes differ from model', kind='tie')
    if got != spec:
        ctx.disagree('what=prefix_order;chain_len=%d' % len(chain), case, got, None,
                     'namespace order is not cb+stream, cb+inherited, cb, stream, inherited, global', spec=spec)
    ctx.traces_validated += 1
    ctx.note_case(('prefixes', tuple(chain)), nontrivial=len(chain) > 1, sample=dict(kind='prefixes', **case))
    ctx.count('prefixes')
    return spec


# --------------------------------------------------------------------------- placements

def check_placement(ctx, chain, subset_attr, subset_sens):
    """subset_*: indices (into the spec prefix list) of namespaces that define attribute 'attr' / sensor 'foo'."""
    ts = katsdptelstate.TelescopeState()
    for a, b in zip(chain, chain[1:]):
        ts[a + '_inherit'] = b
    prefixes = ['cb_%s_' % s for s in chain] + ['cb_'] + [s + '_' for s in chain] + ['']
    for i in subset_attr:
        ts[prefixes[i] + 'attr'] = 100 + i
    for i in subset_sens:
        ts.add(prefixes[i] + 'foo', 200.0 + i, ts=1.0)
    ts['sdp_l0x_unused'] = 0
    view = view_capture_stream(ts, 'cb', chain[0])
    case = dict(chain=chain, attr_in=[prefixes[i] for i in subset_attr], sensor_in=[prefixes[i] for i in subset_sens])
    # attribute
    got_attr = view.get('attr')
    exp_attr = 100 + min(subset_attr) if subset_attr else None
    # sensor through the real TelstateDataSource
    src = TelstateDataSource(view, 'cb', chain[0], chunk_store=None, timestamps=np.arange(3.0))
    sensors = src.metadata.sensors
    got_sens = sensors['foo'].name if 'foo' in sensors else None
    exp_sens = prefixes[min(subset_sens)] + 'foo' if subset_sens else None
    if ctx.model_ok:
        keys = sorted(ts.keys())
        st = []
        for k in keys:
            mut = ts.key_type(k) == katsdptelstate.KeyType.MUTABLE
            val = int(ts.get_range(k, st=0)[0][0]) if mut else (ts[k] if isinstance(ts[k], int) else 0)
            st.append([codes(k), int(mut), val])
        pw = [codes(p) for p in prefixes]
        mo = ctx.model([[18, [2, st, pw, codes('attr')]], [18, [3, st, pw, [codes('foo')]]]])
        m_attr = mo[0][0] if mo[0] else None
        m_sens = ''.join(map(chr, mo[1][0][0][0])) if mo[1][0][0] else None
        s_sens = ''.join(map(chr, mo[1][0][1][0])) if mo[1][0][1] else None
        if got_attr != m_attr:
            ctx.disagree('what=attr_tie', case, got_attr, m_attr, 'attribute lookup differs from model', kind='tie')
        if got_sens != m_sens:
            ctx.disagree('what=sensor_tie', case, got_sens, m_sens, 'sensor table differs from model', kind='tie')
        if s_sens != exp_sens:
            ctx.disagree('what=spec_sensor_selfcheck', case, s_sens, exp_sens, 'Coq spec_sensor differs from harness expectation')
    if got_attr != exp_attr:
        ctx.disagree('what=attr_most_specific', case, got_attr, None,
                     'attribute not taken from the most specific namespace that defines it', spec=exp_attr)
    if got_sens != exp_sens:
        sig = ('sensor;namespaces>=2;less_specific_wins' if len(subset_sens) >= 2 and got_sens is not None
               else 'what=sensor_most_specific;namespaces=%d' % len(subset_sens))
        ctx.disagree(sig, case, got_sens, None,
                     'sensor not taken from the most specific namespace that defines it', spec=exp_sens)
    ctx.traces_validated += 1
    ctx.note_case(('place', tuple(chain), tuple(subset_attr), tuple(subset_sens)),
                  nontrivial=len(subset_attr) >= 2 or len(subset_sens) >= 2,
                  sample=dict(kind='placement', **case))
    ctx.count('placement:chain%d' % len(chain))


# --------------------------------------------------------------------------- ids, types, sources

def make_rdb(tmp):
    ts = katsdptelstate.TelescopeState()
    ts['capture_block_id'] = 'cbF'
    ts['stream_name'] = 'sdp_l0'
    info = {'correlator_data': {'prefix': 'x', 'chunks': ((2, 2), (4,), (4,)), 'dtype': '<c8', 'shape': (4, 4, 4)}}
    for s, ty in (('sdp_l0', 'sdp.vis'), ('alt_l0', 'sdp.vis'), ('bad_l0', 'sdp.flags'), ('untyped', None)):
        v = ts.view(s)
        if ty:
            v['stream_type'] = ty
        v['chunk_info'] = info
        v['sync_time'] = 1600000000.0
        v['int_time'] = 2.0
        v['first_timestamp'] = 10.0
    path = os.path.join(tmp, 'cbF_sdp_l0.rdb')
    with RDBWriter(path) as w:
        w.save(ts)
    return path


def check_ids(ctx, path):
    opts_cb = [None, '', 'cbU']
    opts_sn = [None, '', 'alt_l0', 'bad_l0', 'untyped', 'missing']
    combos = list(itertools.product(opts_cb, [None, 'cbK'], opts_sn, [None, 'alt_l0', 'sdp_l0']))
    if ctx.tier != 'thorough':
        combos = ctx.rng.sample(combos, 40)
    for (ucb, kcb, usn, ksn) in combos:
        query = {}
        if ucb is not None:
            query['capture_block_id'] = ucb
        if usn is not None:
            query['stream_name'] = usn
        url = urllib.parse.urlunparse(('file', '', path, '', urllib.parse.urlencode(query), ''))
        kw = {}
        if kcb is not None:
            kw['capture_block_id'] = kcb
        if ksn is not None:
            kw['stream_name'] = ksn
        case = dict(url_query=query, keywords=kw)
        # spec: keyword beats URL query beats file; empty string falls back to the file
        ecb = kcb if kcb is not None else ucb
        ecb = ecb if ecb else 'cbF'
        esn = ksn if ksn is not None else usn
        esn = esn if esn else 'sdp_l0'
        ok_type = esn in ('sdp_l0', 'alt_l0')
        try:
            src = TelstateDataSource.from_url(url, chunk_store=None, **kw)
            got = (src.capture_block_id, src.stream_name)
        except ValueError:
            got = 'ValueError'
        except KeyError:
            got = 'KeyError'
        exp = (ecb, esn) if ok_type else 'ValueError'
        if ctx.model_ok:
            def opt(s):
                return [codes(s)] if s is not None else []
            mo = ctx.model([[18, [4, opt(kcb), opt(ucb), opt('cbF')]], [18, [4, opt(ksn), opt(usn), opt('sdp_l0')]],
                            [18, [5, opt({'sdp_l0': 'sdp.vis', 'alt_l0': 'sdp.vis', 'bad_l0': 'sdp.flags'}.get(esn))]]])
            mcb = ''.join(map(chr, mo[0][0])) if mo[0] else None
            msn = ''.join(map(chr, mo[1][0])) if mo[1] else None
            mexp = (mcb, msn) if mo[2] == 1 else 'ValueError'
            if mexp != exp:
                ctx.disagree('what=id_model_vs_spec', case, None, mexp, 'model id resolution differs from spec', spec=exp)
        if got != exp and not (esn == 'missing' and got in ('ValueError', 'KeyError')):
            ctx.disagree('what=id_precedence;type_ok=%s' % ok_type, case, got, None,
                         'capture block / stream resolution or stream type check differs from file < URL < keyword',
                         spec=exp)
        ctx.traces_validated += 1
        ctx.note_case(('ids', ucb, kcb, usn, ksn), nontrivial=bool(query) or bool(kw), sample=dict(kind='ids', **case))
        ctx.count('ids')
    # unreadable sources are reported as not found
    bad = os.path.join(os.path.dirname(path), 'corrupt.rdb')
    with open(bad, 'wb') as f:
        f.write(b'REDIS0006\xfe\x00garbage' + bytes(range(64)))
    empty = os.path.join(os.path.dirname(path), 'empty.rdb')
    open(empty, 'wb').close()
    for u in (os.path.join(os.path.dirname(path), 'nonexistent.rdb'), bad, empty, 'ftp://host/x.rdb'):
        try:
            TelstateDataSource.from_url(u, chunk_store=None)
            got = 'opened'
        except DataSourceNotFound:
            got = 'DataSourceNotFound'
        except Exception as e:   # noqa
            got = type(e).__name__
        if got != 'DataSourceNotFound':
            ctx.disagree('what=unreadable_source;kind=%s' % os.path.basename(u), dict(url=os.path.basename(u)), got, None,
                         'unreadable source not reported as DataSourceNotFound', spec='DataSourceNotFound')
        ctx.note_case(('unreadable', os.path.basename(u)))
        ctx.count('unreadable')


# --------------------------------------------------------------------------- flag streams

def check_flag_streams(ctx):
    rng = ctx.rng
    T, F = rng.randint(2, 5), 4
    B = 12
    n = rng.randint(0, 3)
    cands = []
    for i in range(n):
        Tf = max(1, T + rng.choice([0, 0, 1, -1, 2]))
        Ff = F if rng.random() < 0.8 else F + 2
        ty = rng.choice(['sdp.flags', 'sdp.flags', 'sdp.flags', 'sdp.vis', None])
        src = rng.choice([['sdp_l0'], ['sdp_l0'], ['other'], ['other', 'sdp_l0'], []])
        fl = np.full((Tf, Ff, B), 0x10 + i + 1, np.uint8)
        cands.append(dict(name='fl%d' % i, flags=fl, type=ty, src=src, chunks=(1, Ff, B)))
    own = np.full((T, F, B), 0x10, np.uint8)
    upgrade = rng.random() < 0.85
    case = dict(T=T, F=F, upgrade_flags=upgrade,
                candidates=[dict(name=c['name'], T=c['flags'].shape[0], F=c['flags'].shape[1], type=c['type'], src=c['src'])
                            for c in cands])
    # spec
    matching = [c for c in cands if c['type'] == 'sdp.flags' and 'sdp_l0' in c['src']] if upgrade else []
    if any(c['flags'].shape[1:] != (F, B) for c in matching):
        exp = 'ValueError'
    else:
        win = matching[-1] if matching else None
        wT = win['flags'].shape[0] if win else T
        exp = dict(flag_value=(0x10 + int(win['name'][2:]) + 1) if win else 0x10, dumps=max(T, wT), flag_dumps=wT)
    x = v4.build_v4(T=T, F=F, arrays={'flags': own}, flag_streams=cands, seed=ctx.seed,
                    chunks={'correlator_data': (1, F, B)}, construct=False)
    try:
        try:
            # an incompatible shape must be refused when the data source is constructed, not when data are read
            src = TelstateDataSource(x.view, x.cbid, x.stream, chunk_store=x.store, upgrade_flags=upgrade)
        except ValueError:
            src = None
            got = 'ValueError'
        except Exception as e:   # noqa
            src = None
            got = 'construct:' + type(e).__name__
        if src is not None:
            try:
                from katdal.visdatav4 import VisibilityDataV4
                d = VisibilityDataV4(src)
                raw = np.asarray(d.raw_flags[:])
                vis = np.asarray(d.vis[:])
                got = dict(dumps=int(d.shape[0]))
                nf = exp['flag_dumps'] if isinstance(exp, dict) else 0
                common = min(nf, T)
                vals = np.unique(raw[:common] & 0x77) if common else np.array([exp['flag_value'] if isinstance(exp, dict) else 0])
                got['flag_value'] = int(vals[0]) if len(vals) == 1 else vals.tolist()
                got['flag_dumps'] = nf
                # absent dumps are lost data: data_lost set, vis zero beyond T, data_lost beyond the flag dumps
                lost_ok = True
                if isinstance(exp, dict):
                    if exp['dumps'] > T:
                        lost_ok &= bool(np.all(raw[T:] & 8)) and bool(np.all(vis[T:] == 0))
                    if exp['dumps'] > nf:
                        lost_ok &= bool(np.all(raw[nf:] & 8))
                    lost_ok &= bool(np.all((raw[:common] & 8) == 0))
                got['lost_ok'] = lost_ok
            except Exception as e:   # noqa
                got = 'late:' + type(e).__name__
    finally:
        v4.cleanup(x)
    if isinstance(exp, dict):
        exp = dict(exp, lost_ok=True)
    if ctx.model_ok:
        ar = [[i + 1, [codes(c['type'])] if c['type'] else [], [codes(s) for s in c['src']], c['flags'].shape[0],
               [c['flags'].shape[1], B]] for i, c in enumerate(cands)] if upgrade else []
        mo = ctx.model([[18, [6, codes('sdp_l0'), [0, T, [F, B]], ar]]])[0]
        if mo[0] != mo[1]:
            ctx.disagree('what=upgrade_model_vs_spec', case, None, mo[0], 'model upgrade differs from Coq spec', spec=mo[1])
        mexp = 'ValueError' if mo[0][0] == -1 else dict(flag_value=0x10 + mo[0][0], dumps=max(T, mo[0][1]), flag_dumps=mo[0][1], lost_ok=True)
        if mexp != exp:
            ctx.disagree('what=upgrade_spec_selfcheck', case, None, mexp, 'Coq spec differs from harness expectation', spec=exp)
        if isinstance(exp, dict):
            al = ctx.model([[18, [7, [[1] * T, [1] * exp['flag_dumps']]]]])[0]
            if [sum(a) for a in al] != [exp['dumps']] * 2:
                ctx.disagree('what=align_model', case, None, al, 'model alignment does not span the longer stream')
    if got != exp:
        ctx.disagree('what=flags_upgrade;n_candidates=%d' % len(cands), case, got, None,
                     'flag stream upgrade / alignment differs from the documented rule', spec=exp)
    ctx.traces_validated += 1
    ctx.note_case(('flags', repr(case)), nontrivial=len(cands) >= 1, sample=dict(kind='flag_streams', **case))
    ctx.count('flag_streams:%d' % len(cands))


def run(ctx):
    rng = ctx.rng
    for f in ctx.findings:
        w = f['witness']
        check_placement(ctx, w['chain'], w['attr'], w['sensor'])
    chains = [['s'], ['s', 'base'], ['s', 'b1', 'b2'], ['sdp_l0', 'b1', 'b2', 'b3'], ['a', 'a_b']]
    for ch in chains:
        check_prefixes(ctx, ch)
    # exhaustive: 1-step chain, all non-empty subsets of the six namespaces, for the attribute and the sensor
    subsets = [s for r in range(1, 7) for s in itertools.combinations(range(6), r)]
    for s in subsets:
        check_placement(ctx, ['s', 'base'], list(s), list(s))
    ctx.extra['exhaustive_1step_subsets'] = len(subsets)
    for _ in range(ctx.scale(60, 600)):
        ch = rng.choice(chains[:4])
        npre = 2 * len(ch) + 2
        sa = sorted(rng.sample(range(npre), rng.randint(0, min(3, npre))))
        ss = sorted(rng.sample(range(npre), rng.randint(0, min(3, npre))))
        check_placement(ctx, ch, sa, ss)
    tmp = v4.scratch_dir('c18')
    try:
        check_ids(ctx, make_rdb(tmp))
    finally:
        shutil.rmtree(tmp, ignore_errors=True)
    for _ in range(ctx.scale(40, 400)):
        check_flag_streams(ctx)


def replay(ctx, doc):
    case = doc['case']
    if 'attr_in' in case:
        chain = case['chain']
        prefixes = ['cb_%s_' % s for s in chain] + ['cb_'] + [s + '_' for s in chain] + ['']
        check_placement(ctx, chain, [prefixes.index(p) for p in case['attr_in']], [prefixes.index(p) for p in case['sensor_in']])
    elif 'chain' in case:
        check_prefixes(ctx, case['chain'])
    else:
        run(ctx)
