"""C18 — Telstate stream resolution and flag-stream upgrade."""
import itertools
import os
import shutil
import urllib.parse

import katsdptelstate
import numpy as np
from katsdptelstate.rdb_writer import RDBWriter

from fixtures import v4
from katdal.datasources import (DataSourceNotFound, TelstateDataSource, view_capture_stream,
                                view_l0_capture_stream)

RULE = ('(a) inherit chains of length 0-3: view prefixes; (b) every non-empty subset of the six namespaces of a 1-step '
        'chain (63, exhaustive) and random subsets for longer chains, holding an attribute and a sensor with a distinct '
        'value per namespace: value seen through the view / TelstateDataSource sensor table; (c) capture block and stream '
        'overrides: file x URL query x keyword matrix, wrong stream type, unreadable/corrupt RDB; (d) archived flag stream '
        'sets with types, sources, shapes and dump counts. Non-trivial = key defined in >= 2 namespaces / >= 1 candidate '
        'flag stream; distinct by full configuration.')
ASSUMPTIONS = ['katsdptelstate view semantics (ordered prefixes, first match) and sorted key order are modelled, not verified',
               'cyclic inherit chains make the real loop diverge and are excluded',
               'all arrays of one stream have the same number of dumps; an archived flag stream holds only a flags array',
               'a source with neither data nor synthesised timestamps (chunk_store=None and timestamps given) derives nothing '
               'from the streams: only the given timestamps are compared there']


def codes(s):
    return [ord(c) for c in s]


def sig_case(d):
    return d


# --------------------------------------------------------------------------- prefixes

def check_prefixes(ctx, chain):
    """chain = [stream, inh1, inh2...]"""
    ts = katsdptelstate.TelescopeState()
    for a, b in zip(chain, chain[1:]):
        ts[a + '_inherit'] = b
    got = list(view_capture_stream(ts, 'cb', chain[0]).prefixes)
    names = list(chain)
    st = [[codes(a + '_inherit'), 0, names.index(b)] for a, b in zip(chain, chain[1:])]
    case = dict(chain=chain)
    if ctx.model_ok:
        mo = ctx.model([[18, [1, st, [codes(n) for n in names], codes('cb'), codes(chain[0])]]])[0]
        model = [''.join(map(chr, p)) for p in mo[0]]
        spec = [''.join(map(chr, p)) for p in mo[1]]
    else:
        model = got
        spec = ['cb_%s_' % s for s in chain] + ['cb_'] + [s + '_' for s in chain] + ['']
    if got != model:
        ctx.disagree('what=prefixes_tie', case, got, model, 'view prefixes differ from model', kind='tie')
    if got != spec:
        ctx.disagree('what=prefix_order;chain_len=%d' % len(chain), case, got, None,
                     'namespace order is not cb+stream, cb+inherited, cb, stream, inherited, global', spec=spec)
    ctx.traces_validated += 1
    ctx.note_case(('prefixes', tuple(chain)), nontrivial=len(chain) > 1, sample=dict(kind='prefixes', **case))
    ctx.count('prefixes')
    return spec


# --------------------------------------------------------------------------- placements

def check_placement(ctx, chain, subset_attr, subset_sens):
    """subset_*: indices (into the spec prefix list) of namespaces that define attribute 'attr' / sensor 'foo'."""
    ts = katsdptelstate.TelescopeState()
    for a, b in zip(chain, chain[1:]):
        ts[a + '_inherit'] = b
    prefixes = ['cb_%s_' % s for s in chain] + ['cb_'] + [s + '_' for s in chain] + ['']
    for i in subset_attr:
        ts[prefixes[i] + 'attr'] = 100 + i
    for i in subset_sens:
        ts.add(prefixes[i] + 'foo', 200.0 + i, ts=1.0)
    ts['sdp_l0x_unused'] = 0
    view = view_capture_stream(ts, 'cb', chain[0])
    case = dict(chain=chain, attr_in=[prefixes[i] for i in subset_attr], sensor_in=[prefixes[i] for i in subset_sens])
    # attribute
    got_attr = view.get('attr')
    exp_attr = 100 + min(subset_attr) if subset_attr else None
    # sensor through the real TelstateDataSource
    src = TelstateDataSource(view, 'cb', chain[0], chunk_store=None, timestamps=np.arange(3.0))
    sensors = src.metadata.sensors
    got_sens = sensors['foo'].name if 'foo' in sensors else None
    exp_sens = prefixes[min(subset_sens)] + 'foo' if subset_sens else None
    if ctx.model_ok:
        keys = sorted(ts.keys())
        st = []
        for k in keys:
            mut = ts.key_type(k) == katsdptelstate.KeyType.MUTABLE
            val = int(ts.get_range(k, st=0)[0][0]) if mut else (ts[k] if isinstance(ts[k], int) else 0)
            st.append([codes(k), int(mut), val])
        pw = [codes(p) for p in prefixes]
        mo = ctx.model([[18, [2, st, pw, codes('attr')]], [18, [3, st, pw, [codes('foo')]]]])
        m_attr = mo[0][0] if mo[0] else None
        m_sens = ''.join(map(chr, mo[1][0][0][0])) if mo[1][0][0] else None
        s_sens = ''.join(map(chr, mo[1][0][1][0])) if mo[1][0][1] else None
        if got_attr != m_attr:
            ctx.disagree('what=attr_tie', case, got_attr, m_attr, 'attribute lookup differs from model', kind='tie')
        if got_sens != m_sens:
            ctx.disagree('what=sensor_tie', case, got_sens, m_sens, 'sensor table differs from model', kind='tie')
        if s_sens != exp_sens:
            ctx.disagree('what=spec_sensor_selfcheck', case, s_sens, exp_sens, 'Coq spec_sensor differs from harness expectation')
    if got_attr != exp_attr:
        ctx.disagree('what=attr_most_specific', case, got_attr, None,
                     'attribute not taken from the most specific namespace that defines it', spec=exp_attr)
    if got_sens != exp_sens:
        sig = ('sensor;namespaces>=2;less_specific_wins' if len(subset_sens) >= 2 and got_sens is not None
               else 'what=sensor_most_specific;namespaces=%d' % len(subset_sens))
        ctx.disagree(sig, case, got_sens, None,
                     'sensor not taken from the most specific namespace that defines it', spec=exp_sens)
    ctx.traces_validated += 1
    ctx.note_case(('place', tuple(chain), tuple(subset_attr), tuple(subset_sens)),
                  nontrivial=len(subset_attr) >= 2 or len(subset_sens) >= 2,
                  sample=dict(kind='placement', **case))
    ctx.count('placement:chain%d' % len(chain))


# --------------------------------------------------------------------------- ids, types, sources

def make_rdb(tmp):
    ts = katsdptelstate.TelescopeState()
    ts['capture_block_id'] = 'cbF'
    ts['stream_name'] = 'sdp_l0'
    info = {'correlator_data': {'prefix': 'x', 'chunks': ((2, 2), (4,), (4,)), 'dtype': '<c8', 'shape': (4, 4, 4)}}
    for s, ty in (('sdp_l0', 'sdp.vis'), ('alt_l0', 'sdp.vis'), ('bad_l0', 'sdp.flags'), ('untyped', None)):
        v = ts.view(s)
        if ty:
            v['stream_type'] = ty
        v['chunk_info'] = info
        v['sync_time'] = 1600000000.0
        v['int_time'] = 2.0
        v['first_timestamp'] = 10.0
    path = os.path.join(tmp, 'cbF_sdp_l0.rdb')
    with RDBWriter(path) as w:
        w.save(ts)
    return path


def check_ids(ctx, path, only=None):
    opts_cb = [None, '', 'cbU']
    opts_sn = [None, '', 'alt_l0', 'bad_l0', 'untyped', 'missing']
    # (an empty value in the URL query is dropped by parse_qsl; an empty KEYWORD reaches the `if not x` default)
    combos = list(itertools.product(opts_cb, [None, '', 'cbK'], opts_sn, [None, '', 'alt_l0', 'sdp_l0']))
    if only is not None:
        q, k = only
        combos = [(q.get('capture_block_id'), k.get('capture_block_id'), q.get('stream_name'), k.get('stream_name'))]
    elif ctx.tier != 'thorough':
        combos = ctx.rng.sample(combos, 60)
    st_vals = None
    if ctx.model_ok:
        ts0 = katsdptelstate.TelescopeState()
        ts0.load_from_file(path)
        st_vals = abstract_telstate(ts0)
    for (ucb, kcb, usn, ksn) in combos:
        query = {}
        if ucb is not None:
            query['capture_block_id'] = ucb
        if usn is not None:
            query['stream_name'] = usn
        url = urllib.parse.urlunparse(('file', '', path, '', urllib.parse.urlencode(query), ''))
        kw = {}
        if kcb is not None:
            kw['capture_block_id'] = kcb
        if ksn is not None:
            kw['stream_name'] = ksn
        case = dict(url_query=query, keywords=kw)
        # spec: keyword beats URL query beats file; empty string falls back to the file
        ecb = kcb if kcb is not None else ucb
        ecb = ecb if ecb else 'cbF'
        esn = ksn if ksn is not None else usn
        esn = esn if esn else 'sdp_l0'
        ok_type = esn in ('sdp_l0', 'alt_l0')
        try:
            src = TelstateDataSource.from_url(url, chunk_store=None, **kw)
            got = (src.capture_block_id, src.stream_name)
        except ValueError:
            got = 'ValueError'
        except KeyError:
            got = 'KeyError'
        exp = (ecb, esn) if ok_type else 'ValueError'
        if ctx.model_ok:
            def opt(s):
                return [codes(s)] if s is not None else []
            mo = ctx.model([[18, [4, opt(kcb), opt(ucb), opt('cbF')]], [18, [4, opt(ksn), opt(usn), opt('sdp_l0')]],
                            [18, [5, opt({'sdp_l0': 'sdp.vis', 'alt_l0': 'sdp.vis', 'bad_l0': 'sdp.flags'}.get(esn))]]])
            mcb = ''.join(map(chr, mo[0][0])) if mo[0] else None
            msn = ''.join(map(chr, mo[1][0])) if mo[1] else None
            mexp = (mcb, msn) if mo[2] == 1 else 'ValueError'
            if mexp != exp:
                ctx.disagree('what=id_model_vs_spec', case, None, mexp, 'model id resolution differs from spec', spec=exp)
            # the whole path in the model: ids from keyword / URL query / the keys recorded in the file, the view,
            # the stream type read through the view (metadata only, timestamps synthesised)
            mo = ctx.model([[18, [8, [0, [], []], st_vals[0], st_vals[1], opt(kcb), opt(ucb), opt(ksn), opt(usn)]]])[0][0]
            mgot = (''.join(map(chr, mo[1])), ''.join(map(chr, mo[2]))) if mo[0] == 0 else ERRS.get(mo[1], 'error')
            if got != mgot and not (esn == 'missing' and got in ('ValueError', 'KeyError')):
                ctx.disagree('what=id_tie', case, got, mgot, 'from_url differs from the model of the whole opening path', kind='tie')
        if got != exp and not (esn == 'missing' and got in ('ValueError', 'KeyError')):
            ctx.disagree('what=id_precedence;type_ok=%s' % ok_type, case, got, None,
                         'capture block / stream resolution or stream type check differs from file < URL < keyword',
                         spec=exp)
        ctx.traces_validated += 1
        ctx.note_case(('ids', ucb, kcb, usn, ksn), nontrivial=bool(query) or bool(kw), sample=dict(kind='ids', **case))
        ctx.count('ids')
    if only is not None:
        return
    # unreadable sources are reported as not found
    bad = os.path.join(os.path.dirname(path), 'corrupt.rdb')
    with open(bad, 'wb') as f:
        f.write(b'REDIS0006\xfe\x00garbage' + bytes(range(64)))
    empty = os.path.join(os.path.dirname(path), 'empty.rdb')
    open(empty, 'wb').close()
    for u in (os.path.join(os.path.dirname(path), 'nonexistent.rdb'), bad, empty, 'ftp://host/x.rdb'):
        try:
            TelstateDataSource.from_url(u, chunk_store=None)
            got = 'opened'
        except DataSourceNotFound:
            got = 'DataSourceNotFound'
        except Exception as e:   # noqa
            got = type(e).__name__
        if got != 'DataSourceNotFound':
            ctx.disagree('what=unreadable_source;kind=%s' % os.path.basename(u), dict(url=os.path.basename(u)), got, None,
                         'unreadable source not reported as DataSourceNotFound', spec='DataSourceNotFound')
        ctx.note_case(('unreadable', os.path.basename(u)))
        ctx.count('unreadable')


# --------------------------------------------------------------------------- flag streams x every way of opening

T0 = 1600000123.0      # sync_time + first_timestamp of fixtures.v4 (integers: exact in float64 whatever the formula)
INT_TIME = 2.0
HOWS = ('ctor', 'from_url', 'open_data_source', 'katdal.open')
ERRS = {1: 'ValueError', 3: 'ValueError', 2: 'KeyError', 4: 'UnboundLocalError', 9: 'outside-model'}


def abstract_telstate(ts):
    """The telstate content as the model sees it: (store entries, value table).  Only the shapes the code looks at
    are kept: strings, lists of strings, chunk_info (dumps and channel/baseline shape of its flags array)."""
    st, vals = [], []
    for k in sorted(ts.keys()):
        mut = ts.key_type(k) == katsdptelstate.KeyType.MUTABLE
        v = None if mut else ts[k]
        if isinstance(v, bytes):
            v = v.decode()
        if isinstance(v, str):
            a = [0, codes(v)]
        elif isinstance(v, (list, tuple)) and all(isinstance(e, str) for e in v):
            a = [1, [codes(e) for e in v]]
        elif isinstance(v, dict) and any(isinstance(i, dict) and 'shape' in i for i in v.values()):
            info = v.get('flags') or v.get('correlator_data') or next(iter(v.values()))
            a = [2, int(info['shape'][0]), [int(n) for n in info['shape'][1:]]]
        else:
            a = [3]
        st.append([codes(k), int(mut), len(vals)])
        vals.append(a)
    return st, vals


def build_flag_fixture(case, seed):
    """case: T, F, candidates [name, T, F, type, src] -> fixtures.v4 object + RDB file next to its chunk store."""
    T, F, B = case['T'], case['F'], 12
    cands = []
    for i, c in enumerate(case['candidates']):
        fl = np.full((c['T'], c['F'], c.get('B', B)), 0x10 + i + 1, np.uint8)
        cands.append(dict(name=c['name'], flags=fl, type=c['type'], src=c['src'], chunks=(1, c['F'], c.get('B', B))))
    own = np.full((T, F, B), 0x10, np.uint8)

    def hook(ts, cbid, stream):
        ts['capture_block_id'] = cbid
        ts['stream_name'] = stream
        for c in case['candidates']:
            cs = ts.view(ts.join(cbid, c['name']), exclusive=True)
            if c.get('cb_type') is not None:
                cs['stream_type'] = c['cb_type']
            if c.get('cb_src') is not None:
                cs['src_streams'] = list(c['cb_src'])
            if c.get('inherit'):
                ts.view(c['name'], exclusive=True)['inherit'] = c['inherit']
        if case.get('archived_decoy') is not None:
            # the real list lives in the capture block namespace, a less specific decoy in the global one
            ts.view(cbid, exclusive=True)['sdp_archived_streams'] = [stream] + [c['name'] for c in case['candidates']]
    decoy = case.get('archived_decoy')
    x = v4.build_v4(T=T, F=F, arrays={'flags': own}, flag_streams=cands, seed=seed,
                    chunks={'correlator_data': (1, F, B)}, construct=False, telstate_hook=hook,
                    archived_override=None if decoy is None else ['sdp_l0'] + list(decoy))
    os.makedirs(os.path.join(x.tmp, x.cbid))
    x.rdb = os.path.join(x.tmp, x.cbid, '%s_%s.rdb' % (x.cbid, x.stream))
    with RDBWriter(x.rdb) as w:
        w.save(x.telstate)
    x.B = B
    return x


def effective(case, c, key):
    """Attribute of an archived stream per the property: capture block + stream, capture block + inherited streams,
    (capture block), stream, inherited streams.  key: 'type' | 'src'."""
    by_name = {d['name']: d for d in case['candidates']}
    chain = [c]
    while chain[-1].get('inherit') in by_name:
        chain.append(by_name[chain[-1]['inherit']])
    for d in chain:
        if d.get('cb_' + key) is not None:
            return d['cb_' + key]
    for d in chain:
        if d.get(key) is not None:
            return d[key]
    return None


def spec_of_mode(case, mode):
    """What the property says: dumps / flags of the data set for this way of opening."""
    T, F, B = case['T'], case['F'], 12
    has_store = mode['store'] != 'none'
    upgrade = True if mode['upgrade'] is None else mode['upgrade']
    n_ts = mode['n_ts']
    if not has_store and n_ts is not None:
        return dict(dumps=n_ts, ts_ok=True)          # nothing is derived from the streams
    cands = case['candidates']
    matching = [(i, c) for i, c in enumerate(cands)
                if effective(case, c, 'type') == 'sdp.flags' and 'sdp_l0' in (effective(case, c, 'src') or [])] if upgrade else []
    if any(c['F'] != F or c.get('B', B) != B for _, c in matching):
        return 'ValueError'
    wi, win = matching[-1] if matching else (None, None)
    wT = win['T'] if win else T
    n = max(T, wT)
    exp = dict(dumps=n if n_ts is None else n_ts, ts_ok=True)
    if has_store:
        exp.update(data_dumps=n, flag_value=(0x10 + wi + 1) if win else 0x10, clean_dumps=min(T, wT), lost_ok=True)
    return exp


def open_mode(x, case, mode):
    """Open the data set the way `mode` says; returns the observables or an error name."""
    import katdal
    from katdal.datasources import open_data_source
    from katdal.visdatav4 import VisibilityDataV4
    T = case['T']
    kw = {}
    if mode['store'] == 'given':
        kw['chunk_store'] = x.store
    elif mode['store'] == 'none':
        kw['chunk_store'] = None
    if mode['upgrade'] is not None:
        kw['upgrade_flags'] = mode['upgrade']
    given = None
    if mode['n_ts'] is not None:
        given = 1600001000.0 + 4.0 * np.arange(mode['n_ts'])
        kw['timestamps'] = given.copy()
    query = dict(mode.get('query') or {})
    url = x.rdb + ('?' + urllib.parse.urlencode(query) if query else '')
    how = mode['how']
    d = None
    try:
        if how == 'ctor':
            kw.setdefault('chunk_store', None)
            src = TelstateDataSource(x.view, x.cbid, x.stream, **kw)
        elif how == 'from_url':
            src = TelstateDataSource.from_url(url, **kw)
        elif how == 'open_data_source':
            src = open_data_source(url, **kw)
        else:
            d = katdal.open(url, **kw)
            src = d.source
    except ValueError:
        return 'ValueError'
    except Exception as e:   # noqa
        return 'construct:' + type(e).__name__
    try:
        if d is None and mode.get('dataset', True):
            d = VisibilityDataV4(src)
        ts = np.asarray(d.timestamps if d is not None else src.timestamps)
        expected_ts = given if given is not None else T0 + INT_TIME * np.arange(len(ts))
        got = dict(dumps=int(len(ts)), ts_ok=bool(np.array_equal(ts, expected_ts)))
        if (src.data is None) != (mode['store'] == 'none'):
            got['data'] = 'absent' if src.data is None else 'present'
        if src.data is not None:
            if d is not None:
                raw, vis, nd = np.asarray(d.raw_flags[:]), np.asarray(d.vis[:]), int(d.shape[0])
            else:
                raw, vis, nd = src.data.flags.compute(), src.data.vis.compute(), int(src.data.shape[0])
            got['data_dumps'] = nd if raw.shape[0] == nd == vis.shape[0] else [nd, int(raw.shape[0]), int(vis.shape[0])]
            # a dump absent from either stream is lost data (all its flags carry data_lost, its visibilities are zero);
            # the dumps present in both are not, and their flags come from ONE stream (constant per stream)
            lost = (raw & 8).astype(bool).all(axis=(1, 2))
            clean = ((raw & 8) == 0).all(axis=(1, 2))
            nclean = int(clean.sum())
            vals = np.unique(raw[clean] & 0x77)
            got['flag_value'] = int(vals[0]) if len(vals) == 1 else [int(v) for v in vals]
            got['clean_dumps'] = nclean
            got['lost_ok'] = bool(np.all(lost | clean) and np.all(clean[:nclean]) and np.all(vis[T:] == 0))
        return got
    except Exception as e:   # noqa
        return 'late:' + type(e).__name__


def check_open(ctx, case, mode, x=None, st_vals=None):
    own_x = x is None
    if own_x:
        x = build_flag_fixture(case, ctx.seed)
    try:
        got = open_mode(x, case, mode)
        if ctx.model_ok and st_vals is None:
            st_vals = abstract_telstate(x.telstate)
    finally:
        if own_x:
            v4.cleanup(x)
    exp = spec_of_mode(case, mode)
    full = dict(case, mode=mode)
    if ctx.model_ok:
        def opt(s):
            return [codes(s)] if s is not None else []
        st, vals = st_vals
        q = mode.get('query') or {}
        kcb, ksn = (x.cbid, x.stream) if mode['how'] == 'ctor' else (None, None)
        wm = [int(mode['store'] != 'none'), [] if mode['upgrade'] is None else [int(mode['upgrade'])],
              [] if mode['n_ts'] is None else [mode['n_ts']]]
        mo = ctx.model([[18, [8, wm, st, vals, opt(kcb), opt(q.get('capture_block_id')), opt(ksn), opt(q.get('stream_name'))]]])[0]

        def decode(r):
            if r[0] == -1:
                return ERRS.get(r[1], 'error%d' % r[1])
            out = dict(dumps=r[3], ts_ok=True)
            if r[4]:
                key = ''.join(map(chr, st[r[4][1]][0]))      # the chunk_info key the flags come from
                nm = key[len(x.cbid) + 1:-len('_chunk_info')]
                idx = [c['name'] for c in case['candidates']].index(nm) if nm != x.stream else None
                fd = case['candidates'][idx]['T'] if idx is not None else case['T']
                out.update(data_dumps=r[4][0], flag_value=0x10 if idx is None else 0x10 + idx + 1,
                           clean_dumps=min(case['T'], fd), lost_ok=True)
            return out
        m_model, m_spec = decode(mo[0]), decode(mo[1])
        if m_model != m_spec:
            ctx.disagree('what=open_model_vs_spec', full, None, m_model, 'model of opening differs from Coq spec', spec=m_spec)
        if m_spec != exp:
            ctx.disagree('what=open_spec_selfcheck', full, None, m_spec, 'Coq spec of opening differs from harness expectation', spec=exp)
        if got != m_model:
            ctx.disagree('what=open_tie;how=%s' % mode['how'], full, got, m_model, 'opened data set differs from model', kind='tie')
    if got != exp:
        if isinstance(got, dict) and isinstance(exp, dict):
            symptom = next((k for k in ('dumps', 'ts_ok', 'data', 'data_dumps', 'flag_value', 'clean_dumps', 'lost_ok')
                            if got.get(k) != exp.get(k)), 'other')
        else:
            symptom = ('not_refused' if exp == 'ValueError' else str(got))
        ctx.disagree('what=open_span;how=%s;data=%s;timestamps=%s;symptom=%s'
                     % (mode['how'], 'no' if mode['store'] == 'none' else 'yes',
                        'synthesised' if mode['n_ts'] is None else 'given', symptom), full, got, None,
                     'flag stream upgrade / span of the data set differs from the documented rule for this way of opening',
                     spec=exp)
    ctx.traces_validated += 1
    ctx.note_case(('open', repr(full)), nontrivial=len(case['candidates']) >= 1, sample=dict(kind='open', **full))
    ctx.count('open:%s:%s:%s' % (mode['how'], 'data' if mode['store'] != 'none' else 'meta',
                                 'ts_given' if mode['n_ts'] is not None else 'ts_synth'))
    return st_vals


def gen_flag_case(rng):
    T, F = rng.randint(2, 5), 4
    cands = []
    for i in range(rng.randint(0, 3)):
        cands.append(dict(name='fl%d' % i, T=max(1, T + rng.choice([0, 0, 1, -1, 2, 3])), F=F if rng.random() < 0.85 else F + 2,
                          type=rng.choice(['sdp.flags', 'sdp.flags', 'sdp.flags', 'sdp.vis', None]),
                          src=rng.choice([['sdp_l0'], ['sdp_l0'], ['other'], ['other', 'sdp_l0'], []])))
    case = dict(T=T, F=F, candidates=cands)
    for c in cands:
        if c['F'] == F and rng.random() < 0.08:
            c['B'] = 8                       # same channels, different number of baselines
    # placements: attributes of a candidate in its capture-block namespace (more specific than its stream namespace,
    # which then holds a different value), inherited from another archived stream, list of archived streams
    # defined in the capture block namespace with a less specific decoy in the global one
    for i, c in enumerate(cands):
        r = rng.random()
        if r < 0.2:
            c['cb_type'] = rng.choice(['sdp.flags', 'sdp.vis'])
        elif r < 0.3:
            c['cb_src'] = rng.choice([['sdp_l0'], ['other']])
        elif r < 0.45 and i > 0:
            c['inherit'] = cands[rng.randrange(i)]['name']
            if rng.random() < 0.7:
                c['type'] = None
    if cands and rng.random() < 0.25:
        case['archived_decoy'] = rng.choice([[], [cands[0]['name']], [c['name'] for c in reversed(cands)]])
    return case


def all_modes(case, rng, cbid='1234567890'):
    """Every way of opening: how x (chunk store given / found automatically / none) x timestamps synthesised or
    given; the upgrade_flags keyword (absent, True, False) and the URL query are drawn per mode."""
    out = []
    for how in HOWS:
        for store in (('given', 'none') if how == 'ctor' else ('auto', 'given', 'none')):
            for given in (False, True):
                up = rng.choice([None, None, True, False])
                mode = dict(how=how, store=store, upgrade=up, n_ts=None)
                if given:
                    e = spec_of_mode(case, dict(mode, store='given'))
                    mode['n_ts'] = e['dumps'] if isinstance(e, dict) else case['T']
                if how != 'ctor':
                    mode['query'] = rng.choice([{}, {}, {'stream_name': 'sdp_l0'},
                                                {'capture_block_id': cbid, 'stream_name': 'sdp_l0'}])
                # the dataset layer on top of the source is exercised by katdal.open and by half of the others
                mode['dataset'] = how == 'katdal.open' or rng.random() < 0.5
                out.append(mode)
    return out


def check_flag_streams(ctx, case=None, n_modes=None):
    rng = ctx.rng
    case = case or gen_flag_case(rng)
    modes = all_modes(case, rng)
    if n_modes is not None:
        # always keep one metadata-only and one with-data opening with synthesised timestamps
        synth = [m for m in modes if m['n_ts'] is None]
        first = [rng.choice([m for m in synth if m['store'] == 'none']), rng.choice([m for m in synth if m['store'] != 'none'])]
        for m in first:
            if m['upgrade'] is False:
                m['upgrade'] = None
        rest = [m for m in modes if m not in first]
        modes = first + rng.sample(rest, max(0, n_modes - 2))
    x = build_flag_fixture(case, ctx.seed)
    try:
        st_vals = None
        for mode in modes:
            st_vals = check_open(ctx, case, mode, x=x, st_vals=st_vals)
    finally:
        v4.cleanup(x)
    ctx.count('flag_streams:%d' % len(case['candidates']))
    # how often the namespace placement of the candidates' attributes decides the outcome
    plain = dict(T=case['T'], F=case['F'],
                 candidates=[{k: c[k] for k in ('name', 'T', 'F', 'B', 'type', 'src') if k in c} for c in case['candidates']])
    m0 = dict(how='ctor', store='given', upgrade=True, n_ts=None)
    if case.get('archived_decoy') is not None or any(set(c) - {'name', 'T', 'F', 'B', 'type', 'src'} for c in case['candidates']):
        ctx.count('flag_layout:varied')
        dec = dict(plain, candidates=[c for c in plain['candidates'] if c['name'] in (case.get('archived_decoy') or [])]) \
            if case.get('archived_decoy') is not None else plain
        if spec_of_mode(plain, m0) != spec_of_mode(case, m0) or spec_of_mode(dec, m0) != spec_of_mode(case, m0):
            ctx.count('flag_layout:decides_outcome')


def run(ctx):
    rng = ctx.rng
    for f in ctx.findings:
        w = f['witness']
        check_placement(ctx, w['chain'], w['attr'], w['sensor'])
    chains = [['s'], ['s', 'base'], ['s', 'b1', 'b2'], ['sdp_l0', 'b1', 'b2', 'b3'], ['a', 'a_b']]
    for ch in chains:
        check_prefixes(ctx, ch)
    # exhaustive: 1-step chain, all non-empty subsets of the six namespaces, for the attribute and the sensor
    subsets = [s for r in range(1, 7) for s in itertools.combinations(range(6), r)]
    for s in subsets:
        check_placement(ctx, ['s', 'base'], list(s), list(s))
    ctx.extra['exhaustive_1step_subsets'] = len(subsets)
    for _ in range(ctx.scale(60, 600)):
        ch = rng.choice(chains[:4])
        npre = 2 * len(ch) + 2
        sa = sorted(rng.sample(range(npre), rng.randint(0, min(3, npre))))
        ss = sorted(rng.sample(range(npre), rng.randint(0, min(3, npre))))
        check_placement(ctx, ch, sa, ss)
    tmp = v4.scratch_dir('c18')
    try:
        check_ids(ctx, make_rdb(tmp))
    finally:
        shutil.rmtree(tmp, ignore_errors=True)
    # flag streams x every way of opening: two fixtures opened in ALL ways, the others in a sample of ways
    for k in range(ctx.scale(30, 300)):
        check_flag_streams(ctx, n_modes=None if k < 2 else 6)
    # a longer flag stream opened as metadata only / with data, deterministic (the shape of seeded change C18-2)
    fixed = dict(T=3, F=4, candidates=[dict(name='fl0', T=5, F=4, type='sdp.flags', src=['sdp_l0'])])
    for how, store in (('ctor', 'none'), ('from_url', 'none'), ('katdal.open', 'none'), ('from_url', 'auto')):
        check_open(ctx, fixed, dict(how=how, store=store, upgrade=None, n_ts=None, query={}, dataset=True))
    for bad in (dict(T=3, F=4, candidates=[dict(name='fl0', T=3, F=6, type='sdp.flags', src=['sdp_l0'])]),
                dict(T=3, F=4, candidates=[dict(name='fl0', T=3, F=4, B=8, type='sdp.flags', src=['sdp_l0'])])):
        for how, store in (('ctor', 'none'), ('katdal.open', 'none'), ('katdal.open', 'auto')):
            check_open(ctx, bad, dict(how=how, store=store, upgrade=None, n_ts=None, query={}, dataset=True))


def replay(ctx, doc):
    case = doc['case']
    if 'attr_in' in case:
        chain = case['chain']
        prefixes = ['cb_%s_' % s for s in chain] + ['cb_'] + [s + '_' for s in chain] + ['']
        check_placement(ctx, chain, [prefixes.index(p) for p in case['attr_in']], [prefixes.index(p) for p in case['sensor_in']])
    elif 'chain' in case:
        check_prefixes(ctx, case['chain'])
    elif 'mode' in case:
        mode = case['mode']
        check_open(ctx, {k: v for k, v in case.items() if k != 'mode'}, mode)
    elif 'url_query' in case:
        tmp = v4.scratch_dir('c18')
        try:
            check_ids(ctx, make_rdb(tmp), only=(case['url_query'], case['keywords']))
        finally:
            shutil.rmtree(tmp, ignore_errors=True)
    else:
        run(ctx)
