"""C11 — CategoricalData operations preserve the per-dump sequence (correspondence + search).

The REAL katdal.categorical.CategoricalData / concatenate_categorical / unique_in_order are driven with random series
and random operation sequences; after every operation the observables (unique values as ids, indices, events,
per-dump expansion, query results, len, segments) are compared with the extracted Coq model (the tie) and with the
extracted Coq spec on the per-dump list (the property)."""
import itertools
import warnings

import numpy as np

warnings.simplefilter('ignore')

RULE = ('random categorical series (N <= 14 dumps, <= 8 events incl. one event per dump, first event at dump 0 or '
        '(15 %) later, values drawn from a 5-value pool of one kind: int, str, tuple, list (unhashable), ndarray '
        'wrapped in ComparableArrayWrapper) and random operation sequences of length <= 8 over getitem (int / slice '
        'with negative bounds and steps / mask / int list; on any series, also one that starts after dump 0), the six '
        'comparisons over ALL dumps, len, segments, add (new / existing / no value; at, before and beyond the ends), '
        'remove, add_unmatched (explicit and default match_dist), align (incl. on the own events), '
        'partition alone and partition+concatenate with general segments (starting before the first event, running '
        'past N; allow_repeats on / off / not given; optionally continuing with the concatenated result), '
        'concatenation with one or several independent series, partition followed by remove() on the first part '
        '(siblings and parent must not change), remove_repeats, the remove/align/add(0) label pipeline; malformed '
        'arguments (unsorted / duplicate / empty / out-of-range segments, wrong-length masks, out-of-range dumps) are '
        'mixed in; a separate stream uses float series with NaN objects (oracle: per-dump list only); a third stream '
        'calls unique_in_order directly (hashable and tokenize paths, with and without return_inverse); a fourth stream '
        'runs histories of 3-10 operations over SEVERAL containers (independent series, parents, parts of partition, '
        'results of concatenate of 1-3 parts; interleaved add / remove / add_unmatched / align / remove_repeats) and '
        'compares the value of EVERY container after every operation with the heap model + model-free aliasing oracles '
        '(no other container changed, a raising call changed nothing, the caller\'s event array never written). Value '
        'kind arrayx = ndarrays that differ only in shape / dtype with equal raw bytes (identity = dtype, shape, '
        'contents), wrapped or bare; add() events include -2, -1, N, N+1, N+3 (documented answer: IndexError). A case is '
        'one (series, operation sequence); non-trivial when the series has >= 2 events and the sequence has >= 2 '
        'operations at least one of which mutates; distinct by (kind, values, events, operations)')
ASSUMPTIONS = ['constructor contract: events strictly increasing, one more event than values (the first event need not '
               'be dump 0); segment arguments strictly increasing (documented); empty / '
               'unsorted / duplicate segment lists, wrong-length masks are out of domain (only "exception or same as '
               'model" is demanded, behaviour proved in C11_getitem_wrong_mask); add(event) outside 0 <= event < N is IN '
               'domain since katdal d362220: IndexError and nothing changed (C11_add_total)',
               'numpy fancy / boolean-mask indexing, np.r_, np.unique, np.concatenate return new arrays, basic slicing '
               'returns views (the storage discipline of Model/CategoricalH.v): exercised, not verified',
               'identity-based NaN handling of Python dicts is not modelled: in the NaN stream only the per-dump list '
               'is compared', 'numpy searchsorted/argmin/unique/nonzero/r_/slice assignment are modelled (count of <=, '
               'first minimum, sorted distinct, filter, fill), not verified; Python slice.indices+range is compared '
               'exhaustively for n <= 7 with the Gallina slice_range on every run']

OPN = {0: 'getitem', 1: 'cmp', 2: 'add', 3: 'remove', 4: 'add_unmatched', 5: 'align', 6: 'partconcat',
       7: 'remove_repeats', 8: 'segments', 9: 'concat_with', 10: 'part_mutate', 11: 'len', 14: 'concat_many',
       16: 'partition', 17: 'label_pipeline'}
MUTATING = (2, 3, 4, 5, 7, 9, 14, 17)       # operations whose observable is [tag, new state, ...]
CMP = ['==', '!=', '<', '>', '<=', '>=']

# ---------------------------------------------------------------------------------------------
# value pools: id = rank in the pool (so that < on ids is < on the Python values)

POOLS = {
    'int': [-3, 0, 2, 7, 11],
    'str': ['', 'a', 'ab', 'b', 'slew'],
    'tuple': [(0, 1), (0, 2), (1, 0), (1, 1), (2, 0)],
    'list': [[0, 1], [0, 2], [1, 0], [1, 1], [2, 0]],
    'array': [[0, 1], [0, 2], [1, 0], [1, 1], [2, 0]],
    # array values that differ ONLY in shape / dtype: ids 0,1 have the same 32 raw bytes, ids 2,3,4 the same 8 raw bytes;
    # pairwise different shapes, so np.array_equal (ComparableArrayWrapper.__eq__) tells all five apart
    'arrayx': [([0.0, 1.0, 2.0, 3.0], '<f8', (4,)), ([0.0, 1.0, 2.0, 3.0], '<f8', (2, 2)),
               ([1, 0], '<i4', (2,)), ([1], '<i8', (1,)), ([1, 0], '<i4', (2, 1))],
}
ARRAY_KINDS = ('array', 'arrayx')


def vkeyx(v):
    """Strict identity of an array value: dtype, shape and contents."""
    a = np.asarray(v)
    return (a.dtype.str, a.shape, tuple(a.ravel().tolist()))


def vkey(v):
    """Canonical hashable content of an implementation value."""
    if isinstance(v, (np.ndarray, list, tuple)):
        return tuple(np.asarray(v).tolist())
    if isinstance(v, (str, np.str_)):
        return str(v)
    if isinstance(v, (float, np.floating)):
        return float(v)
    return int(v)


class Values:
    """Maps Python values <-> ids for one case."""

    def __init__(self, kind):
        self.kind = kind
        self.nan_ids = {}       # id(obj) -> value id (NaN stream)
        self.keep = []
        if kind == 'nan':
            self.pool = [-1.5, 0.0, 1.0, 2.5, 7.0]
        else:
            self.pool = POOLS[kind]
        if kind == 'arrayx':
            self.pool = [np.array(d, dtype=t).reshape(sh) for d, t, sh in self.pool]
            self.key = vkeyx
        else:
            self.key = vkey
        self.by_key = {self.key(v): i for i, v in enumerate(self.pool)}

    def py(self, i, wrap=False):
        """Python value of id i as handed to the implementation."""
        from katdal.categorical import ComparableArrayWrapper
        if self.kind == 'nan' and i >= 100:
            v = float('nan')            # a NEW NaN object every time
            self.nan_ids[id(v)] = i
            self.keep.append(v)
            return v
        v = self.pool[i]
        if self.kind in ARRAY_KINDS:
            v = np.array(v)         # a fresh array object every time
            return ComparableArrayWrapper(v) if wrap else v
        if self.kind == 'list':
            return list(v)
        return v

    def vid(self, v):
        if self.kind == 'nan' and isinstance(v, float) and v != v:
            return self.nan_ids.get(id(v), -7)
        return self.by_key.get(self.key(v), -5)

    def is_nan_id(self, i):
        return self.kind == 'nan' and i >= 100


# ---------------------------------------------------------------------------------------------
# implementation driver

def expand_impl(cd, V):
    ev = [int(e) for e in cd.events]
    out = []
    for i, (s, e) in zip(cd.indices, zip(ev[:-1], ev[1:])):
        out += [V.vid(cd.unique_values[int(i)])] * (e - s)
    return out


def state_impl(cd, V):
    return [[V.vid(v) for v in cd.unique_values], [int(i) for i in cd.indices], [int(e) for e in cd.events],
            expand_impl(cd, V)]


def mk_key(k):
    t = k[0]
    if t == 0:
        return int(k[1])
    if t == 1:
        return slice(*[None if not x else x[0] for x in k[1:4]])
    if t == 2:
        return np.array(k[1], dtype=bool)
    return [int(x) for x in k[1]]


def gres_impl(res, k, V):
    if k[0] == 0:
        return [0, V.vid(res)]
    res = np.asarray(res)
    if V.kind in ('tuple', 'list', 'array', 'arrayx'):
        return [1, [V.vid(r) for r in res]] if res.ndim >= 2 or len(res) else [1, []]
    return [1, [V.vid(r) for r in res.tolist()]] if V.kind != 'nan' else [1, [float(r) for r in res]]


class ImplError(Exception):
    pass


def apply_impl(cd, op, V):
    """Returns (new cd, observable in the shape of the model's output: [wire tag, ...])."""
    from katdal.categorical import CategoricalData, concatenate_categorical
    t = op[0]
    if t == 0:
        try:
            res = cd[mk_key(op[1])]
        except IndexError:
            return cd, [13, [2]]
        return cd, [13, gres_impl(res, op[1], V)]
    if t == 1:
        other = V.py(op[2])
        b = [cd == other, cd != other, None, None, None, None][op[1]] if op[1] < 2 else \
            {2: cd.__lt__, 3: cd.__gt__, 4: cd.__le__, 5: cd.__ge__}[op[1]](other)
        b = np.asarray(b)
        if b.dtype != bool or b.shape != (int(cd.events[-1]),):
            raise ImplError('comparison returned dtype %s shape %s' % (b.dtype, b.shape))
        return cd, [12, [int(x) for x in b]]
    if t == 2:
        cd.add(op[1], V.py(op[2][0]) if op[2] else None)
        return cd, [2, state_impl(cd, V)]
    if t == 3:
        cd.remove(V.py(op[1]))
        return cd, [3, state_impl(cd, V)]
    if t == 4:
        if op[2] is None:
            cd.add_unmatched(np.array(op[1], dtype=int))          # default match_dist
        else:
            cd.add_unmatched(np.array(op[1], dtype=int), op[2])
        return cd, [4, state_impl(cd, V)]
    if t == 5:
        cd.align(np.array(op[1], dtype=int))
        return cd, [5, state_impl(cd, V)]
    if t == 6:
        parts = cd.partition(np.array(op[1], dtype=int))
        pstates = [state_impl(p, V) for p in parts]
        cc = concatenate_categorical(parts) if op[2] == 2 else concatenate_categorical(parts, allow_repeats=bool(op[2]))
        return (cc if op[3] else cd), [18, pstates, state_impl(cc, V)]
    if t == 7:
        cd.remove_repeats()
        return cd, [7, state_impl(cd, V)]
    if t == 8:
        return cd, [8, [[int(s.start), int(s.stop), V.vid(v)] for s, v in cd.segments()]]
    if t == 10:
        parts = cd.partition(np.array(op[1], dtype=int))
        parts[0].remove(V.py(op[2]))
        return cd, [10, state_impl(parts[0], V), [state_impl(p, V) for p in parts[1:]], state_impl(cd, V)]
    if t == 9:
        c2 = CategoricalData([V.py(i, wrap=True) for i in op[1]], np.array(op[2]))
        ps = [c2, cd] if op[4] else [cd, c2]
        cc = concatenate_categorical(ps) if op[3] == 2 else concatenate_categorical(ps, allow_repeats=bool(op[3]))
        return cc, [9, state_impl(cc, V)]
    if t == 11:
        return cd, [11, len(cd)]
    if t == 14:
        others = [CategoricalData([V.py(i, wrap=True) for i in vs], np.array(es)) for vs, es in op[1]]
        ps = others[:op[3]] + [cd] + others[op[3]:]
        cc = concatenate_categorical(ps) if op[2] == 2 else concatenate_categorical(ps, allow_repeats=bool(op[2]))
        return cc, [14, state_impl(cc, V)]
    if t == 16:
        parts = cd.partition(np.array(op[1], dtype=int))
        return cd, [16, [state_impl(p, V) for p in parts]]
    if t == 17:
        # the label pipeline of visdatav4.py / h5datav3.py / h5datav2.py
        v = V.py(op[1])
        cd.remove(v)
        cd.align(np.array(op[2], dtype=int))
        if cd.events[0] > 0:
            cd.add(0, v)
        return cd, [17, state_impl(cd, V)]
    raise ValueError(op)


def wf_state(st, N=None, nan=False):
    uv, idx, ev, ex = st
    ok = all(a < b for a, b in zip(ev, ev[1:])) and len(ev) == len(idx) + 1 and all(0 <= i < len(uv) for i in idx)
    ok = ok and (nan or len(set(uv)) == len(uv)) and all(u >= 0 for u in uv)
    return ok and (N is None or ev[-1] == N)


# ---------------------------------------------------------------------------------------------
# generators

def gen_segs(rng, N, documented=True, unsorted_ok=True):
    k = rng.randint(1, 5)
    inner = sorted(rng.sample(range(1, N), min(k - 1, N - 1))) if N > 1 else []
    segs = [0] + inner + [N]
    if not documented:
        r = rng.random()
        if r < 0.3 and len(segs) > 2:
            segs = segs[1:]                  # does not start at 0
        elif r < 0.5 and len(segs) > 2:
            segs = segs[:-1]                 # does not end at N
        elif r < 0.7:
            segs = segs + [N + rng.randint(1, 3)]      # runs past N
        elif r < 0.8 and unsorted_ok:
            segs = segs[:]
            rng.shuffle(segs)                # unsorted (out of domain; not for partition: segment lengths < 0)
        elif r < 0.9:
            i = rng.randrange(len(segs))
            segs = segs[:i] + [segs[i]] + segs[i:]     # a duplicate boundary (out of domain)
        elif r < 0.95:
            segs = []                        # empty (out of domain)
        else:
            segs = [rng.randint(0, N)]       # a single boundary: no segment at all
    return segs


def gen_key(rng, N):
    r = rng.random()
    if r < 0.25:
        return [0, rng.randint(-2, N + 1) if rng.random() < 0.2 else rng.randrange(N)]
    if r < 0.55:
        def b():
            return [] if rng.random() < 0.3 else [rng.randint(-N - 2, N + 2)]
        st = rng.choice([[], [1], [2], [-1], [-2], [3], [-3]])
        return [1, b(), b(), st]
    if r < 0.8:
        n = N if rng.random() < 0.93 else rng.choice([0, 1, max(N - 1, 0), N + 1])     # wrong length: out of domain
        p = rng.choice([0.5, 0.5, 0.0, 1.0, 0.15])
        return [2, [int(rng.random() < p) for _ in range(n)]]
    n = rng.randint(0, 4)
    return [3, [rng.randrange(N) if rng.random() < 0.93 else rng.randint(-2, N + 1) for _ in range(n)]]


def gen_series(rng, maxn=5, nv=5):
    n2 = rng.randint(1, maxn)
    k2 = rng.randint(1, min(n2, 3))
    ev2 = [0] + sorted(rng.sample(range(1, n2), k2 - 1)) + [n2]
    return [rng.randrange(nv) for _ in range(k2)], ev2


def gen_op(rng, N, kind, events=None):
    r = rng.random()
    nv = 5
    nan = kind == 'nan'
    if r < 0.13:
        return [0, gen_key(rng, N)]
    if r < 0.21:
        o = rng.randrange(2 if kind in ('array', 'arrayx', 'nan') else 6)
        return [1, o, rng.randrange(nv)]
    if r < 0.37:
        v = rng.choice([[], [rng.randrange(nv)], [rng.randrange(nv)]])
        if nan and v and rng.random() < 0.4:
            v = [100 + rng.randrange(1000, 2000)]
        e = rng.randrange(N) if rng.random() < 0.88 else rng.choice([N, N + 1, N - 1, 0, -1, -2, N + 3])
        return [2, e, v]
    if r < 0.48:
        return [3, rng.randrange(nv)]
    if r < 0.57:
        return [4, gen_segs(rng, N, rng.random() < 0.8), rng.choice([1, 1, None, None, 0, 2])]
    if r < 0.68:
        if events and rng.random() < 0.15:
            return [5, list(events)]                     # align on the (initial) own events
        return [5, gen_segs(rng, N, rng.random() < 0.8)]
    if r < 0.80:
        return [6, gen_segs(rng, N, rng.random() < 0.75, False), rng.choice([0, 1, 2]), int(rng.random() < 0.6)]
    if r < 0.84:
        return [7]
    if r < 0.86:
        return [8]
    if r < 0.875:
        return [11]
    if r < 0.895:
        return [10, gen_segs(rng, N, True), rng.randrange(nv)]
    if nan or r < 0.925:
        vs2, ev2 = gen_series(rng)
        return [9, vs2, ev2, rng.choice([0, 1, 2]), int(rng.random() < 0.5)]
    if r < 0.95:
        k = rng.randint(0, 3)
        return [14, [list(gen_series(rng, 4)) for _ in range(k)], rng.choice([0, 1, 2]), rng.randint(0, k)]
    if r < 0.975:
        return [16, gen_segs(rng, N, rng.random() < 0.7, False)]
    return [17, rng.randrange(nv), gen_segs(rng, N, rng.random() < 0.9)]


def gen_case(rng, kind=None, maxn=14):
    kind = kind or rng.choice(['int', 'int', 'str', 'str', 'tuple', 'list', 'array', 'arrayx', 'arrayx'])
    N = rng.randint(1, maxn) if rng.random() < 0.9 else rng.choice([1, 2, maxn])
    r = rng.random()
    k = N if r < 0.06 else rng.randint(1, min(N, 8))          # 6 %: one event per dump (maximal)
    ev = [0] + sorted(rng.sample(range(1, N), k - 1)) + [N]
    if N > 1 and kind != 'nan' and rng.random() < 0.15:
        # the first event is not dump 0 (legal: what remove() of the first value leaves behind)
        s0 = rng.randint(1, N - 1)
        inner = [e for e in ev[1:-1] if e > s0]
        ev = [s0] + inner + [N]
        k = len(ev) - 1
    nv = rng.randint(1, 4)
    vals = [rng.randrange(nv) for _ in range(k)]
    if kind == 'nan':
        vals = [v if rng.random() < 0.5 else 100 + j for j, v in enumerate(vals)]
    ops = [gen_op(rng, N, kind, ev) for _ in range(rng.choice([1, 2, 3, 4, 5, 6, 6, 7, 8]))]
    case = dict(kind=kind, values=vals, events=ev, ops=ops)
    if kind in ARRAY_KINDS and rng.random() < 0.3:
        case['bare'] = 1            # bare (unwrapped, unhashable) ndarrays handed to the constructor
    return case


# ---------------------------------------------------------------------------------------------
# comparison

def op_form(op):
    t = op[0]
    if t == 0:
        k = op[1]
        f = ['int', 'slice', 'mask', 'list'][k[0]]
        if k[0] == 1:
            f += '(step%s)' % ('-' if k[3] and k[3][0] < 0 else '+')
        return f
    if t == 1:
        return CMP[op[1]]
    if t == 2:
        return 'value' if op[2] else 'novalue'
    if t == 4:
        return 'default' if op[2] is None else 'dist'
    if t in (6, 14):
        return 'repeats=%s' % ('default' if op[2] == 2 else op[2])
    if t == 9:
        return 'repeats=%s' % ('default' if op[3] == 2 else op[3])
    return ''


def segs_ok(s, minlen=1):
    return len(s) >= minlen and all(a < b for a, b in zip(s, s[1:]))


def in_domain(op, st):
    """Is the operation inside the documented domain for the (model) state st = [uv, idx, ev, expand]?"""
    uv, idx, ev, ex = st
    N = ev[-1]
    t = op[0]
    if t == 0 and op[1][0] == 2:
        return len(op[1][1]) == N
    if t == 2:
        return True         # since katdal d362220 every integer is answered as documented: IndexError outside 0 <= e < N
    if t in (4, 5):
        return segs_ok(op[1])
    if t in (6, 10, 16):
        return segs_ok(op[1], 2) and (t != 10 or op[1][-1] <= N)
    if t in (9, 14):
        return ev[0] == 0
    if t == 17:
        return segs_ok(op[2]) and 0 in op[2] and N in op[2] and N > 0
    return True


def run_case(ctx, case, mout, nanmode=False, note=True):
    """Drive the implementation through the case and compare with the model output mout."""
    from katdal.categorical import CategoricalData
    V = Values(case['kind'])
    sig0 = 'kind=%s;' % case['kind']
    try:
        cd = CategoricalData([V.py(i, wrap=not case.get('bare')) for i in case['values']], np.array(case['events']))
        st = state_impl(cd, V)
    except Exception as e:
        ctx.disagree(sig0 + 'op=init;symptom=raises:%s' % type(e).__name__, case, repr(e), mout[0] if mout else None,
                     'constructor raised')
        return
    if mout is None:
        mout = [None]
    mst = mout[0]
    evs = list(case['events'])
    want = [v for v, (a, b) in zip(case['values'], zip(evs, evs[1:])) for _ in range(b - a)]
    if not nanmode and st[3] != want:
        ctx.disagree(sig0 + 'op=init;symptom=per_dump_list', case, st, mst,
                     'the per-dump list of a freshly built series is not the given values over the given events '
                     '(values merged / indices wrong)', spec=want)
        return
    if mst is not None and not same_state(st, mst, nanmode):
        ctx.disagree(sig0 + 'op=init;symptom=state', case, st, mst, 'constructor state differs from model', kind='tie')
        return
    if not wf_state(st, case['events'][-1], nanmode) or st[2] != list(case['events']):
        ctx.disagree(sig0 + 'op=init;symptom=invariant', case, st, mst, 'constructor does not establish the invariants')
        return
    cur = mst if (mst is not None and not nanmode) else st
    ctx.count('start0=%d' % int(case['events'][0] == 0))
    for n, op in enumerate(case['ops']):
        name = OPN[op[0]]
        sig = sig0 + 'op=%s;form=%s;' % (name, op_form(op))
        dom = in_domain(op, cur) and wf_state(cur, nan=nanmode) and len(cur[1]) > 0
        mo = mout[n + 1] if len(mout) > n + 1 else None
        sub = dict(case, ops=case['ops'][:n + 1])
        try:
            cd, obs = apply_impl(cd, op, V)
            err = None
        except ImplError as e:
            if dom:
                ctx.disagree(sig + 'symptom=bad_result', sub, repr(e), mo, str(e))
            return
        except Exception as e:
            err = e
            obs = [-1]
        ctx.count('op=' + name)
        ctx.count('domain=' + ('in' if dom else 'out'))
        ctx.traces_validated += 1
        t = op[0]
        if mo is None:
            # no model binary (searching): python-side invariants only
            if err is None and dom and t in MUTATING and not wf_state(obs[1], nan=nanmode):
                ctx.disagree(sig + 'symptom=invariant', sub, obs, None, 'invariants broken after operation')
            if err is None and dom and not nanmode:
                py_oracle(ctx, sig, sub, op, cur, obs)
            if err is not None:
                return
            cur = obs[1] if t in MUTATING else (obs[2] if t == 6 and op[3] else cur)
            continue
        if err is not None:
            if mo != [-1] and dom:
                ctx.disagree(sig + 'symptom=raises:%s' % type(err).__name__, sub, repr(err), mo,
                             '%s raised %r inside the documented domain' % (name, err))
            return
        if mo == [-1]:
            if dom and t == 2 and not 0 <= op[1] < cur[2][-1]:
                ctx.disagree(sig + 'symptom=add_outside_accepted', sub, obs, mo,
                             'add(event) with an event outside 0 <= event < N did not raise: the container is silently '
                             'corrupted (index without event / negative dump)', spec=[-1])
            elif dom:
                ctx.disagree(sig + 'symptom=model_rejects', sub, obs, mo, 'implementation answers, model raises', kind='tie')
            return
        if not dom:
            # out of domain: data must not differ from the model (= what the code is known to do); then stop
            if not same_obs(obs, mo, nanmode, V):
                ctx.disagree(sig + 'symptom=ood_differs', sub, obs, mo, 'out-of-domain result differs from model', kind='tie')
            return
        # ---- tie: implementation vs model
        if not same_obs(obs, mo, nanmode, V):
            ctx.disagree(sig + 'symptom=tie:%s' % first_diff(obs, mo), sub, obs, mo,
                         '%s: implementation observable differs from the Coq model' % name, kind='tie',
                         spec=(mo[3:] if obs[0] == 18 else (mo[2] if len(mo) > 2 else None)))
            return
        # ---- property: implementation vs spec on the per-dump list, and invariants
        if t in (0, 1):
            # on ANY well-formed series: the same query on the list of option values (C11_getitem_full / C11_cmp_full)
            if not same_query(obs[1], mo[2], nanmode, V):
                ctx.disagree(sig + 'symptom=differs_from_per_dump_list', sub, obs[1], mo[1],
                             '%s differs from the same query on the explicit per-dump list' % name, spec=mo[2])
            if t == 1 and any(obs[1][:cur[2][0]]):
                ctx.disagree(sig + 'symptom=true_before_first_event', sub, obs[1], mo[1],
                             'comparison is True for a dump before the first event (no value there)', spec=mo[2])
        elif t in (2, 3, 4, 5, 7, 9, 14):
            newst = obs[1]
            N1 = None if t == 5 else cur[2][-1] + (op[2][-1] if t == 9 else 0) + \
                (sum(es[-1] for _, es in op[1]) if t == 14 else 0)
            if not wf_state(newst, N1, nanmode):
                ctx.disagree(sig + 'symptom=invariant', sub, newst, mo[1], 'invariants broken after %s' % name)
            if not same_list(newst[3], mo[2], nanmode, V):
                ctx.disagree(sig + 'symptom=per_dump_list', sub, newst[3], mo[1][3],
                             'per-dump list after %s is not the documented one' % name, spec=mo[2])
            if t == 5 and not set(newst[2]) <= set(op[1]):
                ctx.disagree(sig + 'symptom=event_not_a_segment_start', sub, newst, mo[1],
                             'align left an event that is not one of the given segment starts')
            if t == 2 and op[2] and not nanmode:
                try:
                    back = V.vid(cd[op[1]])
                except Exception as e:
                    back = repr(e)
                if back != op[2][0]:
                    ctx.disagree(sig + 'symptom=read_after_add', sub, back, op[2][0],
                                 'cd[e] after cd.add(e, v) is not v', spec=op[2][0])
            if t == 3 and not nanmode and (op[1] in newst[0] or op[1] in newst[3]):
                ctx.disagree(sig + 'symptom=value_not_gone', sub, newst, mo[1], 'value still present after remove')
            if nanmode and newst[2] != mo[1][2]:
                return      # identity-based NaN handling (not modelled) made the event lists diverge
            cur = newst if nanmode else mo[1]
        elif t == 17:
            newst = obs[1]
            if not (wf_state(newst, cur[2][-1], nanmode) and newst[2][0] == 0 and set(newst[2]) <= set(op[2])):
                ctx.disagree(sig + 'symptom=invariant', sub, newst, mo[1],
                             'label pipeline: result is not a well-formed series from 0 to N on the scan boundaries')
            cur = newst if nanmode else mo[1]
        elif t in (6, 16):
            pst = obs[1]
            s = op[1]
            if [p[3] for p in pst] != mo[3 if t == 6 else 2] and not nanmode:
                ctx.disagree(sig + 'symptom=parts', sub, [p[3] for p in pst], [p[3] for p in mo[1]],
                             'partition parts are not the cuts of the (padded) per-dump list', spec=mo[3 if t == 6 else 2])
            if not all(wf_state(p, b - a, nanmode) and p[2][0] == 0 and p[0] == cur[0]
                       for p, (a, b) in zip(pst, zip(s, s[1:]))) or len(pst) != len(s) - 1:
                ctx.disagree(sig + 'symptom=part_invariant', sub, pst, mo[1], 'a part breaks the invariants')
            if t == 6:
                cst = obs[2]
                if not same_list(cst[3], mo[4], nanmode, V) or not wf_state(cst, s[-1] - s[0], nanmode) or cst[2][0] != 0:
                    ctx.disagree(sig + 'symptom=concat_of_partition', sub, cst, mo[2],
                                 'concatenate(partition) is not the window of the (padded) per-dump list', spec=mo[4])
                if s[0] == 0 and s[-1] == cur[2][-1] and cur[2][0] == 0 and not same_list(cst[3], cur[3], nanmode, V):
                    ctx.disagree(sig + 'symptom=concat_not_identity', sub, cst, mo[2],
                                 'concatenate(partition) is not the identity on the per-dump list', spec=cur[3])
                if op[2] in (0, 2) and len(pst) > 1 and any(a == b for a, b in zip(cst[1], cst[1][1:])) and not nanmode:
                    ctx.disagree(sig + 'symptom=repeats_left', sub, cst, mo[2], 'repeats left after concatenation')
                if op[3]:
                    if nanmode and cst[2] != mo[2][2]:
                        return
                    cur = cst if nanmode else mo[2]
        elif t == 8 and not nanmode:
            sg = obs[1]
            glued = [v for a, b, v in sg for _ in range(b - a)]
            if glued != cur[3] or [a for a, b, v in sg] != cur[2][:-1] or [b for a, b, v in sg] != cur[2][1:]:
                ctx.disagree(sig + 'symptom=segments', sub, sg, mo[1], 'segments() do not tile the per-dump list', spec=cur[3])
        elif t == 11:
            if obs[1] != len(cur[1]):
                ctx.disagree(sig + 'symptom=len', sub, obs[1], mo[1], 'len() is not the number of events', spec=len(cur[1]))
        if len(cur[1]) == 0:
            return


PYCMP = [lambda a, b: a == b, lambda a, b: a != b, lambda a, b: a < b, lambda a, b: a > b,
         lambda a, b: a <= b, lambda a, b: a >= b]


def py_oracle(ctx, sig, sub, op, cur, obs):
    """The documented answers on the explicit per-dump list, in Python: used while searching WITHOUT a model binary
    (cur = the state [uv, idx, ev, expand] before the operation, values as ids)."""
    t = op[0]
    X = [None] * cur[2][0] + list(cur[3])
    if t == 1:
        want = [int(x is not None and PYCMP[op[1]](x, op[2])) for x in X]
        if obs[1] != want:
            ctx.disagree(sig + 'symptom=differs_from_per_dump_list', sub, obs[1], None,
                         'comparison differs from the same comparison on the explicit per-dump list', spec=want)
    elif t == 0 and op[1][0] == 0 and 0 <= op[1][1] < len(X) and X[op[1][1]] is not None:
        if obs[1] != [0, X[op[1][1]]]:
            ctx.disagree(sig + 'symptom=differs_from_per_dump_list', sub, obs[1], None,
                         'cd[dump] differs from the explicit per-dump list', spec=[0, X[op[1][1]]])
    elif t in (3, 7, 4):
        new = obs[1][3]
        old = list(cur[3])
        if t == 3:
            want, last = [], None
            for x in old:
                if x == op[1]:
                    if last is not None:
                        want.append(last)
                else:
                    want.append(x)
                    last = x
        else:
            want = old
        if new != want:
            ctx.disagree(sig + 'symptom=per_dump_list', sub, new, None,
                         'per-dump list after %s is not the documented one' % OPN[t], spec=want)


def nanclass(l, V):
    if not isinstance(l, list):
        return l
    return ['nan' if V.is_nan_id(x) or (isinstance(x, float) and x != x) else
            (V.pool[x] if isinstance(x, int) and 0 <= x < len(V.pool) else x) for x in l]


def same_list(a, b, nanmode, V):
    return a == b if not nanmode else nanclass(a, V) == nanclass(b, V)


def same_state(a, b, nanmode, V=None):
    if not nanmode:
        return a == b
    return a[3] == b[3]


def same_query(a, b, nanmode, V):
    """a, b: getitem results [0, id] | [1, ids] | [2]   or comparison results (plain list of 0/1)."""
    if not nanmode or len(a) != 2 or len(b) != 2 or a[0] != b[0]:
        return a == b
    if a[0] == 1 and isinstance(a[1], list) and isinstance(b[1], list):
        return nanclass(a[1], V) == nanclass(b[1], V)
    if a[0] == 0 and not isinstance(a[1], list):
        return nanclass([a[1]], V) == nanclass([b[1]], V)
    return a == b


def same_obs(obs, mo, nanmode, V):
    t = obs[0]
    if t != mo[0]:
        return False
    if t in (12, 13):
        return same_query(obs[1], mo[1], nanmode, V)
    if t == 8:
        return obs[1] == mo[1] if not nanmode else True
    if t == 11:
        return obs[1] == mo[1] if not nanmode else True
    if t == 10:
        if nanmode:
            return nanclass(obs[3][3], V) == nanclass(mo[3][3], V) and \
                [nanclass(p[3], V) for p in obs[2]] == [nanclass(p[3], V) for p in mo[2]]
        return obs[1:] == mo[1:]
    if t == 18:
        if nanmode:
            return [nanclass(p[3], V) for p in obs[1]] == [nanclass(p[3], V) for p in mo[1]] and \
                nanclass(obs[2][3], V) == nanclass(mo[2][3], V)
        return obs[1] == mo[1] and obs[2] == mo[2]
    if t == 16:
        if nanmode:
            return [nanclass(p[3], V) for p in obs[1]] == [nanclass(p[3], V) for p in mo[1]]
        return obs[1] == mo[1]
    if nanmode:
        return nanclass(obs[1][3], V) == nanclass(mo[1][3], V)
    return obs[1] == mo[1]


def first_diff(obs, mo):
    if obs[0] in (2, 3, 4, 5, 7, 9, 14, 17):
        for nm, a, b in zip(('unique_values', 'indices', 'events', 'expand'), obs[1], mo[1]):
            if a != b:
                return nm
    if obs[0] in (16, 18):
        return 'parts' if obs[1] != mo[1] else 'concat'
    if obs[0] == 10:
        return 'mutated_part' if obs[1] != mo[1] else ('siblings' if obs[2] != mo[2] else 'parent')
    return 'result'


def wire_op(op):
    """harness operation -> operation of Model/CategoricalX.v:stepx"""
    t = op[0]
    if t == 0:
        return [13, op[1]]
    if t == 1:
        return [12, op[1], op[2]]
    if t == 4:
        return [4, op[1], 1 if op[2] is None else op[2]]          # default match_dist (C11_source_pieces: = 1)
    if t == 6:
        return [18, op[1], 0 if op[2] == 2 else op[2], op[3]]     # allow_repeats not given = False
    if t == 9:
        return [9, op[1], op[2], 0 if op[3] == 2 else op[3], op[4]]
    if t == 14:
        return [14, op[1], 0 if op[2] == 2 else op[2], op[3]]
    return op


def wire_case(case):
    return [115, [case['values'], case['events'], [wire_op(o) for o in case['ops']]]]


def model_outputs(ctx, cases):
    if not ctx.model_ok:
        return [None] * len(cases)
    try:
        return ctx.model([wire_case(c) for c in cases])
    except Exception as e:          # the wire was left out of a partial driver: search with the Python oracles only
        ctx.extra['model_unavailable'] = repr(e)[:200]
        return [None] * len(cases)


def check_slices(ctx):
    """Exhaustive comparison of the Gallina slice_range with CPython's slice.indices + range."""
    if not ctx.model_ok:
        return
    bounds = [None] + list(range(-9, 10))
    steps = [None, -3, -2, -1, 1, 2, 3]
    cases, exp = [], []
    for n in range(0, 8):
        for a, b, c in itertools.product(bounds, bounds, steps):
            cases.append([111, [n, [] if a is None else [a], [] if b is None else [b], [] if c is None else [c]]])
            exp.append(list(range(*slice(a, b, c).indices(n))))
    outs = ctx.model(cases)
    bad = 0
    for c, o, e in zip(cases, outs, exp):
        if o != [e]:
            bad += 1
            if bad <= 3:
                ctx.disagree('op=slice_range;symptom=differs_from_cpython', dict(slice=c[1]), e, o,
                             'Gallina slice_range differs from CPython slice.indices+range', kind='tie')
    ctx.extra['slice_cases_exhaustive'] = len(cases)


# ---------------------------------------------------------------------------------------------
# unique_in_order on its own (public function; used by concatdata.py for names, versions, dump periods, ...)

def uio_case(ctx, case):
    """case = dict(uio=kind, values=[ids]); compares with wire_113 (first occurrences in order + inverse)."""
    from katdal.categorical import unique_in_order
    kind, ids = case['uio'], case['values']
    V = Values(kind)
    sig = 'kind=%s;op=unique_in_order;' % kind
    els = [V.py(i, wrap=not case.get('bare')) for i in ids]
    try:
        u1 = unique_in_order(els)
        u2, inv = unique_in_order(els, return_inverse=True)
        u3 = unique_in_order(els, False)
    except Exception as e:
        ctx.disagree(sig + 'symptom=raises:%s' % type(e).__name__, case, repr(e), None, 'unique_in_order raised')
        return
    from katdal.categorical import ComparableArrayWrapper
    unw = ComparableArrayWrapper.unwrap
    obs = [[V.vid(unw(x)) for x in u2], [int(i) for i in inv]]
    ctx.traces_validated += 1
    ctx.count('op=unique_in_order')
    ctx.count('uio_path=' + ('tokenize' if kind in ('list', 'array', 'arrayx') else 'dict'))
    if not isinstance(u1, list) or [V.vid(unw(x)) for x in u1] != obs[0] or [V.vid(unw(x)) for x in u3] != obs[0]:
        ctx.disagree(sig + 'symptom=return_inverse_changes_result', case, [V.vid(unw(x)) for x in u1], obs[0],
                     'unique_in_order without return_inverse differs from the one with it')
    if np.asarray(inv).dtype.kind != 'i':
        ctx.disagree(sig + 'symptom=inverse_dtype', case, str(np.asarray(inv).dtype), 'int', 'inverse is not an int array')
    # property (independent of the model): first occurrences in original order, inverse reconstructs the input
    seen = []
    for i in ids:
        if i not in seen:
            seen.append(i)
    if obs[0] != seen or [obs[0][j] if 0 <= j < len(obs[0]) else None for j in obs[1]] != ids:
        ctx.disagree(sig + 'symptom=not_first_occurrences', case, obs, [seen, [seen.index(i) for i in ids]],
                     'unique_in_order is not "first occurrences in order" / inverse does not reconstruct the input',
                     spec=[seen, [seen.index(i) for i in ids]])
    if ctx.model_ok:
        mo = ctx.model([[113, ids]])[0]
        if mo[:2] != obs or mo[2:] != obs:
            ctx.disagree(sig + 'symptom=tie', case, obs, mo, 'unique_in_order differs from the Coq model', kind='tie')


def gen_uio(rng):
    kind = rng.choice(['int', 'str', 'tuple', 'list', 'array', 'arrayx', 'arrayx'])
    n = rng.choice([0, 1, 2, 3, 5, 8, 12])
    nv = rng.randint(1, 5)
    case = dict(uio=kind, values=[rng.randrange(nv) for _ in range(n)])
    if kind in ARRAY_KINDS and rng.random() < 0.4:
        case['bare'] = 1
    return case


def run_uio(ctx, cases):
    """batched variant of uio_case (one model call)"""
    if ctx.model_ok:
        outs = ctx.model([[113, c['values']] for c in cases])
    else:
        outs = [None] * len(cases)
    saved_ok = ctx.model_ok
    for c, o in zip(cases, outs):
        # reuse uio_case with the precomputed model answer
        ctx.model_ok = False
        try:
            uio_case(ctx, c)
        finally:
            ctx.model_ok = saved_ok
        if o is not None:
            from katdal.categorical import ComparableArrayWrapper, unique_in_order
            V = Values(c['uio'])
            try:
                u2, inv = unique_in_order([V.py(i, wrap=not c.get('bare')) for i in c['values']], return_inverse=True)
            except Exception:
                continue
            obs = [[V.vid(ComparableArrayWrapper.unwrap(x)) for x in u2], [int(i) for i in inv]]
            if o[:2] != obs or o[2:] != obs:
                ctx.disagree('kind=%s;op=unique_in_order;symptom=tie' % c['uio'], c, obs, o,
                             'unique_in_order differs from the Coq model (first occurrences / literal token loop)',
                             kind='tie')
        ctx.note_case(('uio', c['uio'], tuple(c['values'])), nontrivial=len(set(c['values'])) < len(c['values']),
                      sample=None)



# ---------------------------------------------------------------------------------------------
# several containers with shared storage (Model/CategoricalH.v, wire_114): histories over parent / parts / concatenated
# results / independent series, interleaved; after EVERY operation the value of EVERY container is compared

HOPN = {0: 'make', 2: 'add', 3: 'remove', 4: 'add_unmatched', 5: 'align', 7: 'remove_repeats', 16: 'partition',
        9: 'concatenate'}


def heap_apply(objs, callers, op, V, bare=False):
    """Apply one wire_114 operation to the real containers.  Returns the ids it returned / worked on (None = raised)."""
    from katdal.categorical import CategoricalData, concatenate_categorical
    t = op[0]
    try:
        if t == 0:
            arr = np.array(op[2])
            callers.append((arr, arr.copy()))
            objs.append(CategoricalData([V.py(i, wrap=not bare) for i in op[1]], arr))
            return [len(objs) - 1]
        if t == 9:
            if any(i >= len(objs) for i in op[1]):
                return None
            res = concatenate_categorical([objs[i] for i in op[1]], allow_repeats=bool(op[2]))
            for j, o in enumerate(objs):
                if res is o:
                    return [j]
            objs.append(res)
            return [len(objs) - 1]
        i = op[1]
        if i >= len(objs):
            return None
        cd = objs[i]
        if t == 2:
            cd.add(op[2], V.py(op[3][0]) if op[3] else None)
        elif t == 3:
            cd.remove(V.py(op[2]))
        elif t == 4:
            cd.add_unmatched(np.array(op[2], dtype=int), op[3])
        elif t == 5:
            cd.align(np.array(op[2], dtype=int))
        elif t == 7:
            cd.remove_repeats()
        elif t == 16:
            parts = cd.partition(np.array(op[2], dtype=int))
            n = len(objs)
            objs.extend(parts)
            return list(range(n, n + len(parts)))
        return [i]
    except (IndexError, ValueError):
        return None


def gen_heap_op(rng, objs):
    """One operation that the model describes exactly (documented or proved-as-it-is arguments), given the real containers."""
    if not objs or (len(objs) < 7 and rng.random() < 0.12):
        vs, ev = gen_series(rng, 9)
        if rng.random() < 0.15 and ev[-1] > 1:
            ev = [rng.randint(1, ev[1] - 1 if len(ev) > 2 and ev[1] > 1 else ev[-1] - 1)] + ev[1:]   # first event after dump 0
            if any(a >= b for a, b in zip(ev, ev[1:])):
                ev = [0] + ev[1:]
        return [0, vs, ev]
    i = rng.randrange(len(objs)) if rng.random() < 0.7 else len(objs) - 1 - rng.randrange(min(3, len(objs)))
    cd = objs[i]
    N = int(cd.events[-1])
    empty = len(cd.indices) == 0
    r = rng.random()
    if len(objs) == 1 and not empty and N >= 1 and rng.random() < 0.35:
        r = 0.7                     # start sharing early: partition the only container
    if empty or N < 1 or r < 0.30:
        e = rng.randrange(N) if N > 0 and rng.random() < 0.85 else rng.choice([N, N + 1, -1, 0])
        v = [rng.randrange(5)] if (empty or rng.random() < 0.7) else []
        return [2, i, e, v]
    if r < 0.45:
        return [3, i, rng.randrange(5)]
    if r < 0.52:
        sg = gen_segs(rng, N, rng.random() < 0.8, False)
        return [4, i, sg, rng.choice([0, 1, 1, 2])] if segs_ok(sg) else [7, i]
    if r < 0.62:
        sg = gen_segs(rng, N, rng.random() < 0.85, False)
        return [5, i, sg] if segs_ok(sg) and sg[-1] >= 1 and (len(sg) > 1 or sg[0] > 0) else [7, i]
    if r < 0.68:
        return [7, i]
    if r < 0.86 and len(objs) < 12:
        sg = gen_segs(rng, N, rng.random() < 0.8, False)
        return [16, i, sg] if segs_ok(sg, 2) else [7, i]
    if len(objs) < 12:
        k = rng.choice([1, 1, 2, 2, 3])
        parts = [rng.randrange(len(objs)) for _ in range(k)]
        if rng.random() < 0.5 and len(objs) >= 2:
            a = rng.randrange(len(objs) - 1)
            parts = list(range(a, min(len(objs), a + rng.randint(1, 3))))       # consecutive objects: the parts of a partition
        if all(len(objs[j].indices) > 0 and objs[j].events[0] == 0 for j in parts):
            return [9, parts, rng.choice([0, 0, 1])]
    return [3, i, rng.randrange(5)]


def gen_heap_case(rng):
    kind = rng.choice(['int', 'str', 'str', 'list', 'array', 'arrayx'])
    V = Values(kind)
    bare = int(kind in ARRAY_KINDS and rng.random() < 0.3)
    objs, callers, ops = [], [], []
    for _ in range(rng.randint(3, 10)):
        op = gen_heap_op(rng, objs)
        ops.append(op)
        heap_apply(objs, callers, op, V, bare)
    return dict(kind=kind, heap_ops=ops, bare=bare)


def run_heap_case(ctx, case, mout):
    """mout = answer of wire_114 (None while searching without a model): per operation [[raised? ids], [states]]."""
    V = Values(case['kind'])
    objs, callers = [], []
    sig0 = 'kind=%s;stream=containers;' % case['kind']
    prev = []
    for n, op in enumerate(case['heap_ops']):
        name = HOPN[op[0]]
        sig = sig0 + 'op=%s;' % name
        sub = dict(case, heap_ops=case['heap_ops'][:n + 1])
        nobj = len(objs)
        try:
            ids = heap_apply(objs, callers, op, V, case.get('bare'))
            states = [state_impl(o, V) for o in objs]
        except Exception as e:
            ctx.disagree(sig + 'symptom=raises:%s' % type(e).__name__, sub, repr(e), mout[n] if mout else None,
                         '%s raised %r' % (name, e))
            return
        ctx.traces_validated += 1
        ctx.count('heap_op=' + name)
        ctx.count('heap_objs=%d' % min(len(objs), 8))
        # ---- properties that need no model: an operation changes only the container it is addressed to, an operation
        # that raises changes nothing, new containers do not disturb old ones, the caller's arrays are never written
        target = op[1] if op[0] in (2, 3, 4, 5, 7) else None
        for j in range(nobj):
            if j != target and states[j] != prev[j]:
                ctx.disagree(sig + 'symptom=other_container_changed', sub, [j, states[j]], [j, prev[j]],
                             '%s on container %s changed container %d' % (name, target, j), spec=[j, prev[j]])
                return
        if ids is None and states[:nobj] != prev:
            ctx.disagree(sig + 'symptom=raised_but_changed', sub, states, prev, '%s raised but changed its container' % name,
                         spec=prev)
            return
        for arr, cp in callers:
            if arr.shape != cp.shape or (arr != cp).any():
                ctx.disagree(sig + 'symptom=caller_array_written', sub, arr.tolist(), cp.tolist(),
                             'the event array handed to the constructor was modified', spec=cp.tolist())
                return
        if ids is not None and op[0] in (2, 3, 4, 5, 7, 16, 9) and \
                not all(wf_state(states[j]) and all(u >= 0 for u in states[j][0]) for j in ids):
            ctx.disagree(sig + 'symptom=invariant', sub, [states[j] for j in ids], None, 'invariants broken after %s' % name)
            return
        if ids is not None and op[0] == 2 and not 0 <= op[2] < prev[op[1]][2][-1]:
            ctx.disagree(sig + 'symptom=add_outside_accepted', sub, states[op[1]], prev[op[1]],
                         'add(event) outside 0 <= event < N did not raise', spec=prev[op[1]])
            return
        prev = states
        # ---- tie: the heap model
        if mout is not None:
            mo = mout[n] if n < len(mout) else None
            want_ids = [1, ids] if ids is not None else [0]
            if mo is None or mo[0] != want_ids or mo[1] != states:
                what = 'result' if (mo is None or mo[0] != want_ids) else \
                    'container_%d' % next((j for j in range(min(len(states), len(mo[1]))) if mo[1][j] != states[j]), -1)
                ctx.disagree(sig + 'symptom=tie:%s' % what, sub, [want_ids, states], mo,
                             '%s: containers differ from the heap model (Model/CategoricalH.v)' % name, kind='tie')
                return


def heap_model(ctx, cases):
    if not ctx.model_ok:
        return [None] * len(cases)
    try:
        return ctx.model([[114, [0, c['heap_ops']]] for c in cases])
    except Exception as e:
        ctx.extra['model_unavailable'] = repr(e)[:200]
        return [None] * len(cases)


def nontrivial(case):
    return len(case['events']) >= 3 and len(case['ops']) >= 2 and any(o[0] in MUTATING + (6,) for o in case['ops'])


def canon(case):
    return (case['kind'], tuple(case['values']), tuple(case['events']), repr(case['ops']))


def run_witnesses(ctx):
    for f in ctx.findings:
        w = f.get('witness')
        if not w:
            continue
        mo = model_outputs(ctx, [w])[0]
        run_case(ctx, w, mo, nanmode=(w['kind'] == 'nan'))


def corpus_cases():
    """minimised inputs of earlier misses / mutation self-tests, kept as regression inputs (corpus/C11/*.json)"""
    import glob
    import json
    import os
    d = os.path.join(os.path.dirname(os.path.dirname(os.path.dirname(os.path.abspath(__file__)))), 'corpus', 'C11')
    out = []
    for f in sorted(glob.glob(os.path.join(d, '*.json'))):
        try:
            doc = json.load(open(f))
        except Exception:
            continue
        out += doc if isinstance(doc, list) else [doc]
    return out


def run(ctx):
    rng = ctx.rng
    run_witnesses(ctx)
    check_slices(ctx)
    cc = [c for c in corpus_cases() if 'ops' in c]
    for c, o in zip(cc, model_outputs(ctx, cc)):
        run_case(ctx, c, o, nanmode=(c['kind'] == 'nan'))
        ctx.count('corpus')
    n = ctx.scale(24000, 200000)
    batch = 4000
    done = 0
    while done < n:
        m = min(batch, n - done)
        cases = [gen_case(rng) for _ in range(m)]
        outs = model_outputs(ctx, cases)
        for c, o in zip(cases, outs):
            run_case(ctx, c, o)
            ctx.note_case(canon(c), nontrivial=nontrivial(c),
                          sample=dict(kind=c['kind'], values=c['values'], events=c['events'], ops=c['ops']))
            ctx.count('kind=' + c['kind'])
            ctx.count('N=%d' % c['events'][-1])
            ctx.count('nops=%d' % len(c['ops']))
        done += m
    # NaN stream: per-dump list only
    nn = ctx.scale(2000, 20000)
    cases = [gen_case(rng, kind='nan') for _ in range(nn)]
    outs = model_outputs(ctx, cases)
    for c, o in zip(cases, outs):
        run_case(ctx, c, o, nanmode=True)
        ctx.note_case(canon(c), nontrivial=nontrivial(c), sample=None)
        ctx.count('kind=nan')
    # unique_in_order on its own
    run_uio(ctx, [gen_uio(rng) for _ in range(ctx.scale(1500, 15000))])
    # several containers with shared storage
    hc = [c for c in corpus_cases() if 'heap_ops' in c] + [gen_heap_case(rng) for _ in range(ctx.scale(2500, 30000))]
    for c, o in zip(hc, heap_model(ctx, hc)):
        run_heap_case(ctx, c, o)
        ctx.note_case(('heap', c['kind'], repr(c['heap_ops'])), nontrivial=len(c['heap_ops']) >= 3 and
                      any(o2[0] in (16, 9) for o2 in c['heap_ops']), sample=None)
        ctx.count('kind=' + c['kind'])
        ctx.count('stream=containers')
    # thorough: cross-check extraction inside Coq on a sample
    if ctx.tier == 'thorough' and ctx.model_ok:
        from vh import core
        sample = [gen_case(rng, maxn=6) for _ in range(120)]
        a = ctx.model([wire_case(c) for c in sample])
        # the thorough tier starts from `make clean`: make sure every model and the dispatcher are compiled
        with core.BuildLock():
            tg = ' '.join(x[:-2] + '.vo' for x in core.coq_sources() if x.startswith(('Base/', 'Gen/', 'Model/')))
            core.make(tg)
            core.sh('timeout 600 coqc -Q . KV Extract/Dispatch.v', cwd=core.COQ, timeout=700)
        b = core.run_model_in_coq([wire_case(c) for c in sample], 'c11')
        if a != b:
            i = next(i for i in range(len(a)) if a[i] != b[i])
            ctx.disagree('op=extraction;symptom=vm_compute_differs', sample[i], a[i], b[i],
                         'extracted model differs from vm_compute inside Coq', kind='tie')
        ctx.extra['in_coq_crosscheck'] = len(sample)
    ctx.exhaustive = False


def replay(ctx, doc):
    case = doc.get('case') or {}
    if 'slice' in case:
        check_slices(ctx)
        return
    if 'heap_ops' in case:
        run_heap_case(ctx, case, heap_model(ctx, [case])[0])
        ctx.note_case(('heap', case['kind'], repr(case['heap_ops'])))
        return
    if 'uio' in case:
        uio_case(ctx, case)
        ctx.note_case(('uio', case['uio'], tuple(case['values'])))
        return
    mo = model_outputs(ctx, [case])[0]
    run_case(ctx, case, mo, nanmode=(case.get('kind') == 'nan'))
    ctx.note_case(canon(case))
